"""Driver for CollectRun (X01): run the REAL insights.collect.collect() for every manifest TLC emitted, in a
scratch world, and record what each phase did.  No oracle here: the records are judged by
specs/CollectRunTrace.tla.

usage: drive_collectrun.py <in.json> <out.json>
in : {"base": <scratch dir>, "seed": n, "universe": <the record CollectRunMC printed>,
      "cases": [{"id":.., "mf":{..}, "env":{..}, "pre":"..", "raw": bool, "hang": bool}]}
out: {"traces":[..], "stats":{..}, "r4":[..]}

The world: a generated importable package x01 (SpecSet with four registry points, their implementations built
with simple_file / simple_command / glob_file / a custom @datasource, one parser, one combiner) written into
<base>/pkg, the files to collect under <base>/root (the HostContext root of every manifest), output under
<base>/out.  Nothing outside <base> is read, executed or written by the collected components: before a manifest
is handed to collect() the driver checks that every enabling config entry matches components of the universe
only, and the audit hook refuses any command that is not one of the universe's.

Observation: the phase functions that collect() looks up in its own module namespace (apply_default_enabled,
apply_configs, apply_blacklist, create_context, get_to_persist, Hydration, dr.run_all) are replaced - in this
process only - by recording wrappers that call the originals; generated bodies log to a file; sys.addaudithook
records files opened below the root and commands executed.
"""
import collections
import json
import os
import shutil
import signal as _signal
import sys
import threading
import time
import traceback

QUIET = 10.0

PKG_SPECS = '''
import os
from insights.core.context import HostContext
from insights.core.exceptions import ContentException
from insights.core.plugins import datasource
from insights.core.spec_factory import (DatasourceProvider, RegistryPoint, SpecSet, glob_file, simple_command,
                                        simple_file)


def note(name):
    with open(os.environ["X01_LOG"], "a") as f:
        f.write(name + "\\n")


class Specs(SpecSet):
    alpha = RegistryPoint()
    alpha_x = RegistryPoint(prio=-7)                    # its sub-graph is dispatched last (get_subgraphs sorts by prio)
    beta = RegistryPoint(multi_output=True, prio=9)     # ... and this one first
    gamma = RegistryPoint()


class Impl(Specs):
    alpha = simple_file(%(alpha_file)r, context=HostContext)
    alpha_x = simple_command(%(echo_cmd)r, context=HostContext)
    beta = glob_file(%(beta_glob)r, context=HostContext)

    @datasource(HostContext)
    def gamma(broker):
        note("IG")
        mode = os.environ.get("X01_GAMMA", "val")
        if mode == "oserr":
            raise OSError("x01: gamma failed")
        if mode == "crash":
            raise ValueError("x01: gamma crashed")
        if mode == "content":
            raise ContentException("x01: gamma has nothing")
        return DatasourceProvider(%(gamma_lines)r, relative_path=%(gamma_path)r)
'''

PKG_PLUGINS = '''
from insights import Parser, combiner, parser
from insights.core.serde import deserializer, serializer
from x01.specs import Specs, note


@parser(Specs.alpha)
class AlphaParser(Parser):
    def parse_content(self, content):
        note("PR")
        self.lines = list(content)


@serializer(AlphaParser)
def _ser_alpha(obj, root=None):
    return {"lines": obj.lines}


@deserializer(AlphaParser)
def _deser_alpha(_type, data, root=None, ctx=None, ds=None):
    o = _type.__new__(_type)
    o.lines = data["lines"]
    return o


@combiner(AlphaParser, optional=[Specs.gamma])
def comb(a, g):
    note("CB")
    return {"n": len(a.lines), "gamma": g is not None}      # a value no serializer is registered for
'''


CFG_EVENTS = ("default", "configs")
BL_EVENTS = ("blacklist", "context", "topersist")


def split_events(case, events, comps):
    """Three traces per case - apply_default_enabled + apply_configs from the manifest; apply_blacklist,
    create_context, get_to_persist from the ENABLED table observed after apply_configs; the run from the
    configuration observed after those - so that a deviation in one part does not hide the others from the
    validation.  Pure data shuffling (also used by p_collectrun for a run that had to be killed)."""
    cfg = [e for e in events if e["ev"] in CFG_EVENTS]
    bl = [e for e in events if e["ev"] in BL_EVENTS]
    rest = [e for e in events if e["ev"] not in CFG_EVENTS + BL_EVENTS]
    head = dict(case=dict(mf=case["mf"], env=case["env"], pre=case["pre"]), raw=bool(case.get("raw")))
    none = dict(enabled=dict((c, True) for c in comps), files=[], commands=[], specs=[], set=[])
    end = [dict(ev="end")]
    if len(cfg) < 2:                # collect() did not get through apply_configs
        return [dict(head, id=case["id"] + "/cfg", seg="cfg", obs=none, events=cfg + bl + rest + end)]
    out = [dict(head, id=case["id"] + "/cfg", seg="cfg", obs=none, events=cfg + end)]
    obs = dict(none, enabled=cfg[1]["enabled"])
    if len(bl) < 3:
        return out + [dict(head, id=case["id"] + "/bl", seg="bl", obs=obs, events=bl + rest + end)]
    out.append(dict(head, id=case["id"] + "/bl", seg="bl", obs=obs, events=bl + end))
    obs = dict(enabled=bl[0]["enabled"], files=bl[0]["files"], commands=bl[0]["commands"], specs=bl[0]["specs"],
               set=bl[2]["set"])
    out.append(dict(head, id=case["id"] + "/run", seg="run", obs=obs, events=rest + end))
    return out


class Refused(RuntimeError):
    pass


class Abort(Exception):
    """the driver stops collect() before the run: the configuration phases left a component outside the universe
    enabled (recorded as an event; nothing of the real system is collected)"""


class World(object):
    def __init__(self, base, universe):
        self.U = universe
        self.base = os.path.realpath(base)
        self.pkg = os.path.join(self.base, "pkg")
        self.root = os.path.join(self.base, "root")
        self.out = os.path.join(self.base, "out")
        self.log = os.path.join(self.base, "bodies.log")
        for d in (self.pkg, self.root, self.out):
            if os.path.exists(d):
                shutil.rmtree(d)
        os.makedirs(os.path.join(self.pkg, "x01"))
        os.makedirs(self.out)
        it = universe["items"]
        beta_dir = os.path.dirname(it["b1"]["file"])
        with open(os.path.join(self.pkg, "x01", "__init__.py"), "w") as f:
            f.write("")
        with open(os.path.join(self.pkg, "x01", "specs.py"), "w") as f:
            f.write(PKG_SPECS % dict(alpha_file=it["alpha"]["file"], echo_cmd=" ".join(it["echo"]["cmd"]),
                                     beta_glob=beta_dir + "/*", gamma_lines=it["gamma"]["lines"],
                                     gamma_path=it["gamma"]["path"]))
        with open(os.path.join(self.pkg, "x01", "plugins.py"), "w") as f:
            f.write(PKG_PLUGINS)
        self.files = {}
        for k, v in it.items():
            if v["file"] != "-":
                self.files[k] = self.root + v["file"]
        for k in self.files:
            self.put(k)
        os.environ["X01_LOG"] = self.log
        os.environ["HOME"] = self.base
        os.environ["TMPDIR"] = self.base
        sys.path.insert(0, self.pkg)

    def put(self, item):
        p = self.files[item]
        os.makedirs(os.path.dirname(p), exist_ok=True)
        with open(p, "w") as f:
            f.write("\n".join(self.U["items"][item]["lines"]))

    def drop(self, item):
        if os.path.exists(self.files[item]):
            os.unlink(self.files[item])


class Audit(object):
    ALLOWED = ("timeout", "tar", "cp", "rm", "chmod", "file", "gzip", "gunzip")      # and only on paths below the scratch base

    def __init__(self, world):
        self.w = world
        self.on = False
        self.lock = threading.Lock()
        self.opened = set()
        self.execs = []
        self.refused = []
        self.busy = threading.local()
        self.own_cmds = [v["cmd"] for v in world.U["items"].values() if v["cmd"]]

    def hook(self, name, args):
        if not self.on or getattr(self.busy, "v", False):
            return
        self.busy.v = True
        try:
            if name == "open":
                path = args[0]
                if isinstance(path, bytes):
                    path = path.decode("utf-8", "surrogateescape")
                if isinstance(path, str) and path.startswith(self.w.root + "/"):
                    with self.lock:
                        self.opened.add(os.path.realpath(path))
            elif name == "subprocess.Popen":
                argv = args[1]
                argv = [a.decode("utf-8", "surrogateescape") if isinstance(a, bytes) else str(a)
                        for a in (argv if isinstance(argv, (list, tuple)) else [argv])]
                with self.lock:
                    self.execs.append(argv)
                cmd = argv
                if cmd and os.path.basename(cmd[0]) == "timeout":
                    cmd = [a for a in cmd[1:]]
                    while cmd and (cmd[0].startswith("-") or cmd[0].isdigit()):
                        cmd = cmd[1:]
                ok = bool(cmd) and (any(cmd == c for c in self.own_cmds) or (
                    os.path.basename(cmd[0]) in self.ALLOWED and
                    all(os.path.realpath(a).startswith(self.w.base + "/") for a in cmd[1:] if a.startswith("/"))))
                if not ok:
                    with self.lock:
                        self.refused.append(argv)
                    raise Refused("command outside the universe refused: %r" % (argv,))
            elif name in ("os.system", "os.exec", "os.posix_spawn", "os.spawn"):
                with self.lock:
                    self.refused.append([str(a) for a in args])
                raise Refused("process creation outside subprocess refused: %r" % (args,))
        finally:
            self.busy.v = False

    def start(self):
        self.opened, self.execs = set(), []
        self.on = True

    def stop(self):
        self.on = False
        return self.opened, self.execs


class SignalShim(object):
    """insights.core.plugins.datasource.invoke arms SIGALRM with signal.signal(), which Python only permits in the
    main thread: with the parallel run strategy every datasource then fails in its pool thread (finding recorded in
    notes/X01.md).  Datasource timeouts are outside this model, so for the cases that are not run 'raw' the driver
    makes the two calls no-ops outside the main thread; in the main thread they are the real ones."""
    SIGALRM = _signal.SIGALRM

    def __getattr__(self, name):
        return getattr(_signal, name)

    def signal(self, *a):
        if threading.current_thread() is threading.main_thread():
            return _signal.signal(*a)
        return None

    def alarm(self, n):
        if threading.current_thread() is threading.main_thread():
            return _signal.alarm(n)
        return 0


def exc_kind(ex):
    from insights.core.exceptions import BlacklistedSpec, ContentException
    if isinstance(ex, BlacklistedSpec):
        return "blacklisted"
    if isinstance(ex, ContentException):
        return "content"
    if type(ex) is OSError:
        return "oserr"
    if isinstance(ex, ValueError) and "signal only works in main thread" in str(ex):
        return "signal"
    if isinstance(ex, RuntimeError) and "changed size during iteration" in str(ex):
        return "race"
    if isinstance(ex, ValueError) and str(ex).startswith("x01:"):
        return "crash"
    if isinstance(ex, TypeError) and "NoneType" in str(ex):
        return "serialize"
    return "other:" + type(ex).__name__


class Runner(object):
    def __init__(self, world, seed):
        import random
        self.w = world
        self.U = world.U
        self.rng = random.Random(seed)
        self.stats = collections.Counter()
        self.r4 = []
        import insights.collect as C
        import insights.core.plugins as P
        from insights.core import blacklist, dr
        from insights.core.serde import Hydration
        self.C, self.P, self.dr, self.blacklist = C, P, dr, blacklist
        self.audit = Audit(world)
        sys.addaudithook(self.audit.hook)
        self.events = None
        self.lock = threading.Lock()
        self.cur = {}
        dr.load_components("x01", continue_on_error=False)
        dr.load_components("insights.specs.default", continue_on_error=False)
        self.names = dict((c, "".join(t)) for c, t in self.U["names"].items())
        self.comp = {}
        for c, n in self.names.items():
            obj = dr.get_component_by_name(n)
            if obj is None:
                self.r4.append("universe component %s (%s) is not a loaded component" % (c, n))
            self.comp[c] = obj
        self.cid = dict((v, k) for k, v in self.comp.items() if v is not None)
        self.universe_check()
        runner = self

        # ---- recording wrappers (call the originals) ----
        def wrap(name, after):
            orig = getattr(C, name)

            def w(*a, **k):
                r = orig(*a, **k)
                after(r, a, k)
                return r
            w.__name__ = name
            setattr(C, name, w)

        wrap("apply_default_enabled", lambda r, a, k: runner.emit("default", enabled=runner.enabled_table()))
        wrap("apply_configs", lambda r, a, k: runner.emit("configs", enabled=runner.enabled_table()))
        def after_blacklist(r, a, k):
            runner.emit("blacklist", enabled=runner.enabled_table(), files=runner.deny_ids("f"),
                        commands=runner.deny_ids("c"), specs=sorted(set(blacklist.BLACKLISTED_SPECS)))
            foreign = sorted(dr.get_name(c) for c in dr.DELEGATES if c not in runner.cid and dr.is_enabled(c))
            if foreign:
                runner.emit("foreign_enabled", n=len(foreign), sample=foreign[:3])
                raise Abort()
        wrap("apply_blacklist", after_blacklist)
        wrap("create_context", lambda r, a, k: runner.emit(
            "context", cls=type(r).__name__, root_ok=(os.path.realpath(r.root) == runner.w.root)))

        def after_persist(r, a, k):
            runner.emit("topersist", set=sorted(runner.cid[c] for c in r if c in runner.cid),
                        foreign=sum(1 for c in r if c not in runner.cid))
        wrap("get_to_persist", after_persist)

        class RecHydration(Hydration):
            def dehydrate(self, comp, broker):
                with runner.lock:
                    runner.cur["dehy"].add(comp)
                return super(RecHydration, self).dehydrate(comp, broker)

            def make_persister(self, to_persist):
                inner = super(RecHydration, self).make_persister(to_persist)

                def persister(c, broker):
                    try:
                        inner(c, broker)
                    finally:
                        runner.attempted(c, broker)
                return persister
        C.Hydration = RecHydration

        orig_run_all = dr.run_all

        def run_all(components=None, broker=None, pool=None):
            runner.cur["broker"] = broker
            runner.cur["pooled"] = pool is not None
            return orig_run_all(components=components, broker=broker, pool=pool)
        dr.run_all = run_all

        # the run is over when collect() turns to the broker's exceptions (the pool has been shut down by then);
        # should that call disappear, run_case records the end of the run when collect() returns
        orig_parse = C._parse_broker_exceptions

        def parse(*a, **k):
            runner.ran()
            return orig_parse(*a, **k)
        C._parse_broker_exceptions = parse

    # ---- R4: the model's tables against the real package ----
    def universe_check(self):
        dr, U = self.dr, self.U
        allnames = dict((c, dr.get_name(c)) for c in dr.DELEGATES)
        for c, n in allnames.items():
            if not (n.startswith("insights.") or n.startswith("x01.")):
                self.r4.append("a loaded component is neither insights' nor generated: %s" % n)
        for p, toks in U["prefixes"].items():
            text = "".join(toks)
            real = set(self.cid[c] if c in self.cid else "foreign:" + n for c, n in allnames.items() if n.startswith(text))
            if p == "insights":
                real = set(x for x in real if not x.startswith("foreign:"))
            if real != set(U["matches"][p]):
                self.r4.append("prefix %s (%s): model matches %s, str.startswith matches %s"
                               % (p, text, sorted(U["matches"][p]), sorted(real)))
        for e, v in list(U["fdeny"].items()) + [(e, dict(text=" ".join(v["words"]), sym=v["sym"])) for e, v in U["cdeny"].items()]:
            text = v["text"]
            ident = text.isidentifier()
            target = dr.get_component_by_name("insights.specs.default.DefaultSpecs." + text) if ident else None
            real = self.cid.get(target, "foreign") if target is not None else "none"
            if real != v["sym"]:
                self.r4.append("deny entry %s (%r): model says symbolic target %s, the package says %s" % (e, text, v["sym"], real))
        for k, v in U["kdeny"].items():
            target = dr.get_component_by_name("".join(v["name"]))
            real = self.cid.get(target, "foreign") if target is not None else "none"
            if real != v["comp"]:
                self.r4.append("component deny entry %s: model %s, package %s" % (k, v["comp"], real))
        for c, obj in self.comp.items():
            if obj is not None and dr.get_simple_name(obj) != U["simple"][c] and dr.get_name(obj).split(".")[-1] != U["simple"][c]:
                self.r4.append("simple name of %s: model %s" % (c, U["simple"][c]))
        from insights.core.spec_factory import mangle_command
        for i, v in U["items"].items():
            if v["cmd"] and "insights_commands/" + mangle_command(" ".join(v["cmd"])) != v["path"]:
                self.r4.append("item %s: stored path of the command differs from the model's %s" % (i, v["path"]))
        # sub-graph partition of the universe
        graph = dr.COMPONENTS[dr.GROUPS.single]
        part = {}
        for g in dr.get_subgraphs(graph):
            members = frozenset(self.cid[c] for c in g if c in self.cid)
            for m in members:
                part[m] = members
        for c in self.names:
            if set(part.get(c, ())) != set(U["subs"][c]):
                self.r4.append("sub-graph of %s: model %s, dr.get_subgraphs %s" % (c, sorted(U["subs"][c]), sorted(part.get(c, ()))))
        for c in self.names:
            deps = set(self.cid[d] for d in dr.get_dependencies(self.comp[c]) if d in self.cid)
            idx = U["canon"].index(c)
            if any(U["canon"].index(d) > idx for d in deps):
                self.r4.append("canonical order of the model is not topological at %s" % c)

    # ---- projections ----
    def enabled_table(self):
        return dict((c, bool(self.dr.is_enabled(obj))) for c, obj in self.comp.items())

    def deny_ids(self, kind):
        if kind == "f":
            table = dict((v["text"], e) for e, v in self.U["fdeny"].items())
            cur = self.blacklist._FILE_FILTERS
        else:
            table = dict((" ".join(v["words"]), e) for e, v in self.U["cdeny"].items())
            cur = self.blacklist._COMMAND_FILTERS
        return sorted(table.get(x, "x:" + x) for x in cur)

    def emit(self, ev, **kw):
        kw["ev"] = ev
        with self.lock:
            self.events.append(kw)
            self.last_emit = time.time()

    def watchdog(self, case, on_hang):
        """for the cases whose outcome may be 'collect() never returns' (R7): when nothing has been recorded for
        QUIET seconds while collect() is still running, the events so far + a 'hung' event are written out and the
        process ends itself.  Quiescence is measured inside the process, after the imports, so a loaded machine
        does not turn a slow run into a hang."""
        while not self.cur.get("finished"):
            time.sleep(0.25)
            with self.lock:
                quiet = time.time() - self.last_emit
                if quiet > QUIET and not self.cur.get("finished"):
                    events = list(self.events) + [dict(ev="hung", quiet_s=QUIET)]
                    traces = split_events(case, events, sorted(self.names))
                    for t in traces:
                        if any(e["ev"] == "hung" for e in t["events"]):
                            t["events"] = [e for e in t["events"] if e["ev"] != "end"]
                    self.stats["hung"] += 1
                    on_hang(traces)
                    os._exit(0)

    def attempted(self, c, broker):
        if c not in self.cid:
            self.stats["foreign_attempts"] += 1
            return
        with self.lock:
            pers = c in self.cur["dehy"]
        self.emit("att", c=self.cid[c], has=(c in broker),
                  errs=sorted(set(exc_kind(e) for e in broker.exceptions.get(c, []))), pers=pers)

    def ran(self):
        if self.cur.get("ran_done") or self.cur.get("broker") is None:
            return
        self.cur["ran_done"] = True
        opened, execs = self.audit.opened, self.audit.execs
        with open(self.w.log) as f:
            bodies = sorted(set(f.read().split()))
        items = self.U["items"]
        op = sorted(i for i, p in self.w.files.items() if os.path.realpath(p) in opened)
        ex = sorted(i for i, v in items.items() if v["cmd"] and any(a[-len(v["cmd"]):] == v["cmd"] for a in execs))
        self.stats["execs"] += len(ex)
        self.stats["opens"] += len(op)
        self.emit("ran", bodies=bodies, opened=op, execd=ex, specs=sorted(set(self.blacklist.BLACKLISTED_SPECS)),
                  dehy=sorted(self.cid[c] for c in self.cur["dehy"] if c in self.cid),
                  foreign_dehy=sum(1 for c in self.cur["dehy"] if c not in self.cid))

    # ---- one case ----
    def reset(self, case):
        dr, bl = self.dr, self.blacklist
        dr.ENABLED = collections.defaultdict(lambda: True)
        pre = self.U["pre"][case["pre"]]
        if pre["c"] != "none":
            dr.set_enabled(self.comp[pre["c"]], pre["v"])
        bl._FILE_FILTERS.clear()
        bl._COMMAND_FILTERS.clear()
        bl._PATTERN_FILTERS.clear()
        bl._KEYWORD_FILTERS.clear()
        del bl.BLACKLISTED_SPECS[:]
        open(self.w.log, "w").close()
        if case["env"]["alpha"] == "absent":
            self.w.drop("alpha")
        else:
            self.w.put("alpha")
        os.environ["X01_GAMMA"] = case["env"]["gamma"]
        self.P.signal = _signal if case.get("raw") else SignalShim()

    def manifest(self, case):
        mf, U = case["mf"], self.U
        ptext = lambda p: "".join(U["prefixes"][p])

        def flagged(e):
            d = {"name": ptext(e["name"])}
            if e["en"] in ("on", "off"):
                d["enabled"] = e["en"] == "on"
            return d
        configs = [flagged(e) for e in mf["configs"]]
        persist = [ptext(e["name"]) if e["en"] == "str" else flagged(e) for e in mf["persist"]]
        deny = dict(files=[U["fdeny"][e]["text"] for e in mf["deny"]["files"]],
                    commands=[" ".join(U["cdeny"][e]["words"]) for e in mf["deny"]["commands"]],
                    components=["".join(U["kdeny"][k]["name"]) for k in mf["deny"]["components"]])
        via = mf["via"]
        if via == "manifest":
            in_manifest, rm_conf = deny, None
        elif via == "rmconf":
            in_manifest, rm_conf = {}, deny
        else:
            in_manifest = dict(files=deny["files"])
            rm_conf = dict(commands=deny["commands"], components=deny["components"])
        args = {}
        if mf["workers"] == "one":
            args = {"max_workers": 1}
        elif self.rng.random() < 0.5:
            args = {"max_workers": None}
        ctxcls = self.rng.choice(["insights.core.context.HostContext", "HostContext"])
        doc = {"version": 0,
               "client": {"context": {"class": ctxcls, "args": {"root": self.w.root, "timeout": 10}},
                          "blacklist": in_manifest, "persist": persist,
                          "run_strategy": {"name": mf["strategy"], "args": args}},
               "plugins": {"default_component_enabled": mf["default"], "packages": ["x01", "insights.specs.default"],
                           "configs": configs}}
        if mf["strategy"] == "serial" and not args and self.rng.random() < 0.3:
            del doc["client"]["run_strategy"]           # "run in serial mode by default"
        self.safety(doc)
        form = self.rng.choice(["dict", "yaml", "file"])
        if form == "dict":
            return doc, rm_conf
        import yaml
        text = yaml.safe_dump(doc)
        if form == "yaml":
            return text, rm_conf
        path = os.path.join(self.w.base, "manifest.yaml")
        with open(path, "w") as f:
            f.write(text)
        return path, rm_conf

    def safety(self, doc):
        """never hand collect() a manifest that would run anything outside the universe"""
        dr = self.dr
        cfgs = doc["plugins"]["configs"]
        if doc["plugins"]["default_component_enabled"]:
            if not cfgs or cfgs[0] != {"name": "insights", "enabled": False}:
                raise Refused("default_component_enabled without switching insights off first")
        for e in cfgs:
            if e.get("enabled", True):
                bad = [dr.get_name(c) for c in dr.DELEGATES if dr.get_name(c).startswith(e["name"]) and c not in self.cid]
                if bad:
                    raise Refused("config entry %r would enable components outside the universe: %s" % (e, bad[:3]))
        if os.path.realpath(doc["client"]["context"]["args"]["root"]) != self.w.root:
            raise Refused("context root is not the scratch root")

    def tree(self, top):
        docs, data, extras = [], [], []
        marker = False
        for d, dn, fn in os.walk(top):
            for x in fn:
                p = os.path.join(d, x)
                rel = os.path.relpath(p, top)
                if rel == "insights_archive.txt":
                    marker = True
                elif rel.startswith("meta_data/") and rel.endswith(".json"):
                    try:
                        with open(p) as f:
                            doc = json.load(f)
                        n = rel[len("meta_data/"):-len(".json")]
                        if doc.get("name") != n:
                            extras.append(rel + ":name-differs")
                        obj = self.dr.get_component_by_name(doc["name"])
                        res = doc.get("results")
                        docs.append(dict(c=self.cid.get(obj, "foreign:" + str(doc["name"])),
                                         n=(len(res) if isinstance(res, list) else (1 if res else 0)),
                                         err=bool(doc.get("errors"))))
                    except Exception as ex:
                        extras.append(rel + ":unreadable:" + type(ex).__name__)
                elif rel.startswith("data/"):
                    with open(p, "rb") as f:
                        text = f.read().decode("utf-8", "replace")
                    data.append(dict(path=rel[len("data/"):], lines=text.split("\n")))
                else:
                    extras.append(rel)
        key = lambda r: json.dumps(r, sort_keys=True)
        return dict(marker=marker, docs=sorted(docs, key=key), data=sorted(data, key=key), extras=sorted(extras))

    def load_back(self, path, workdir):
        from insights.core.archives import extract
        from insights.core.hydration import initialize_broker
        from insights.core.serde import Hydration
        from insights.core.context import SerializedArchiveContext

        def project(b):
            out, foreign = [], 0
            for k, v in b.instances.items():
                if k in self.cid:
                    vs = v if isinstance(v, list) else [v]
                    out.append(dict(c=self.cid[k], elems=[list(x.content) if hasattr(x, "content") else list(x.lines) for x in vs]))
                elif k in self.dr.DELEGATES:
                    foreign += 1
            return sorted(out, key=lambda r: r["c"]), foreign

        def load(top):
            if self.rng.random() < 0.5:
                ctx, b = initialize_broker(top)
                how = "initialize_broker:" + type(ctx).__name__
            else:
                root = top if os.path.exists(os.path.join(top, "insights_archive.txt")) else os.path.join(top, "arch")
                b = Hydration(root=root, ctx=SerializedArchiveContext(root)).hydrate()
                how = "hydrate"
            return how, project(b)

        if os.path.isdir(path):
            t = self.tree(path)
            how, (loaded, foreign) = load(path)
            return t, dict(ev="load", how=how, loaded=loaded, foreign=foreign)
        with extract(path, extract_dir=workdir) as ex:
            top = ex.tmp_dir
            t = self.tree(os.path.join(top, "arch"))
            how, (loaded, foreign) = load(top)
        return t, dict(ev="load", how=how, loaded=loaded, foreign=foreign)

    def run_case(self, case, on_hang=None):
        self.reset(case)
        doc, rm_conf = self.manifest(case)
        self.events = []
        self.last_emit = time.time()
        self.cur = dict(dehy=set(), broker=None)
        if case.get("hang") and on_hang:
            threading.Thread(target=self.watchdog, args=(case, on_hang), daemon=True).start()
        n = self.stats["cases"]
        self.stats["cases"] += 1
        tmp = os.path.join(self.w.out, "c%d" % n)
        os.makedirs(tmp)
        self.audit.start()
        escaped = None
        try:
            try:
                path, errors = self.C.collect(manifest=doc, tmp_path=tmp, archive_name="arch", rm_conf=rm_conf,
                                              compress=case["mf"]["compress"])
                self.ran()
            finally:
                self.audit.stop()
                self.cur["finished"] = True
        except Abort:
            escaped = "aborted"
            self.stats["aborted"] += 1
        except Exception as ex:
            if isinstance(ex, RuntimeError) and "can't start new thread" in str(ex):
                raise                      # the machine is out of threads: a failure of the environment, not an observation
            escaped = ex
            self.emit("escaped", exc=type(ex).__name__, msg=str(ex)[:200], tb=traceback.format_exc()[-1500:])
        if self.audit.refused:          # refused by the audit hook before they ran: an observation, not a crash
            self.emit("foreign_exec", n=len(self.audit.refused), sample=[" ".join(a) for a in self.audit.refused[:3]])
            self.audit.refused = []
            self.stats["refused"] += 1
        if escaped is None:
            workdir = os.path.join(tmp, "x")
            os.makedirs(workdir)
            self.audit.start()
            try:
                tree, load_ev = self.load_back(path, workdir)
            finally:
                self.audit.stop()
            if self.audit.refused:
                raise Refused("refused commands while loading: %r" % (self.audit.refused[:3],))
            form = "dir" if os.path.isdir(path) else ("tar" if path.endswith(".tar.gz") and os.path.isfile(path) else "other")
            where_ok = os.path.dirname(os.path.realpath(path)) == os.path.realpath(tmp)
            gone = not os.path.exists(os.path.join(tmp, "arch")) if form == "tar" else True
            errs = sorted([t.__name__, self.cid.get(c, "foreign")] for t, lst in errors.items() for _, c in lst)
            self.emit("finish", form=form, where_ok=where_ok, workdir_gone=gone, marker=tree["marker"], docs=tree["docs"],
                      data=tree["data"], extras=tree["extras"], errors=errs)
            self.events.append(load_ev)
            self.stats["docs"] += len(tree["docs"])
            self.stats["datafiles"] += len(tree["data"])
            self.stats["loaded"] += len(load_ev["loaded"])
            self.stats["tar"] += int(form == "tar")
            self.stats["pooled"] += int(bool(self.cur.get("pooled")))
        shutil.rmtree(tmp, True)
        return self.split(case, self.events, escaped is None)

    def split(self, case, events, complete=True):
        return split_events(case, events, sorted(self.names))


def main():
    import logging
    logging.disable(logging.CRITICAL)
    with open(sys.argv[1]) as f:
        req = json.load(f)
    world = World(req["base"], req["universe"])
    os.chdir(world.base)
    runner = Runner(world, req.get("seed", 0))
    traces = []

    def write(extra=()):
        with open(sys.argv[2], "w") as f:
            json.dump(dict(traces=traces + list(extra), stats=dict(runner.stats), r4=runner.r4), f, separators=(",", ":"))

    if not runner.r4:
        for case in req["cases"]:
            traces.extend(runner.run_case(case, on_hang=write))
    write()
    shutil.rmtree(world.base, True)


if __name__ == "__main__":
    main()
