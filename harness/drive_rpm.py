"""Driver for C13: run the real RPM comparison code of /repo on given inputs and
record what it returned.  Contains no oracle: the records are judged by
specs/RpmVercmpTrace.tla (TLC re-evaluates the reference on the same inputs).

usage: drive_rpm.py <in.json> <out.json>
in : {"jobs": [ {"id":.., "kind":"vrows", "strs":[[code,..],..], "rows":[i,..]}           (1-based indices)
              | {"id":.., "kind":"erows", "evrs":[{"e":[..],"v":[..],"r":[..]},..], "rows":[i,..],
                 "sel":[[i,..],..], "variant": n}
              | {"id":.., "kind":"table"} ]}
out: {"traces":[{"id":..,"strs":[..],"evrs":[..],"events":[..]}], "stats":{..}}

Strings are sequences of code points; result 99 stands for "raised".
"""
import json
import sys

from insights.parsers import installed_rpms
from insights.parsers.installed_rpms import InstalledRpm, InstalledRpms
from insights.parsers.rpm_vercmp import _rpm_vercmp, rpm_version_compare
from insights.tests import context_wrap

RAISED = 99
STATS = {"vercmp_calls": 0, "evr_calls": 0, "op_calls": 0, "sel_calls": 0, "raised": 0, "line_format": 0}


def text(codes):
    return "".join(chr(c) for c in codes)


def call(f, *a):
    try:
        r = f(*a)
    except Exception:
        STATS["raised"] += 1
        return RAISED
    if r is True or r is False or not isinstance(r, int):
        return RAISED - 1              # not an int: reported as 98, never accepted
    return r


def vrows(job):
    strs = [text(s) for s in job["strs"]]
    events = []
    for i in job["rows"]:
        a = strs[i - 1]
        rs = [call(_rpm_vercmp, a, b) for b in strs]
        STATS["vercmp_calls"] += len(rs)
        events.append({"ev": "vrow", "a": i, "rs": rs})
    return {"id": job["id"], "strs": job["strs"], "evrs": [], "events": events}


# ---- concretisation of an abstract epoch:version-release triple -----------

def evr_dict(x, name="pkg"):
    d = {"name": name, "version": text(x["v"]), "release": text(x["r"]), "arch": "x86_64"}
    if x["e"]:
        d["epoch"] = text(x["e"])          # "(none)" is passed through as rpm prints it
    return d


SAFE = set("abcdefghijklmnopqrstuvwxyzABCDEFGHIJKLMNOPQRSTUVWXYZ0123456789._~^+")


def line_of(d):
    """'name-epoch:version-release.arch' when the plain `rpm -qa` line format can carry the
    triple unchanged (concretisation choice; the parsed fields are checked below)."""
    v, r, e = d["version"], d["release"], d.get("epoch", "0")
    if not v or not r or not (set(v) | set(r)) <= SAFE or not e.isdigit():
        return None
    return "%s-%s:%s-%s.%s" % (d["name"], e, v, r, d["arch"])


def make_rpm(x, variant):
    """Build an InstalledRpm for the triple through one of the public constructors."""
    d = evr_dict(x)
    k = variant % 3
    if k == 1:
        return InstalledRpm.from_json(json.dumps(d))
    if k == 2:
        ln = line_of(d)
        if ln is not None:
            p = InstalledRpm.from_package(ln)
            if (p.version, p.release, p.name) == (d["version"], d["release"], d["name"]):
                STATS["line_format"] += 1
                return p
    return InstalledRpm(d)


def ops(x, y):
    try:
        r = [x < y, x == y, x > y, x <= y, x >= y, x != y]
    except Exception:
        STATS["raised"] += 1
        return []
    if not all(b is True or b is False for b in r):
        return []
    return r


def select(evrs, idxs, variant):
    """newest / oldest through the InstalledRpms parser; returns 1-based positions in idxs
    of the returned objects (0: not one of the parsed packages, -1: raised)."""
    ds = [evr_dict(evrs[i - 1]) for i in idxs]
    lines = None
    if variant % 2 == 1:
        lines = [line_of(d) for d in ds]
        if any(ln is None for ln in lines):
            lines = None
    if lines is None:
        lines = [json.dumps(d) for d in ds]
    rpms = InstalledRpms(context_wrap("\n".join(lines)))
    pk = rpms.packages.get("pkg", [])
    # only the carriage of version / release is checked here; how the epoch text is interpreted is
    # part of the code under test and judged by the trace specification
    got = [(p.version, p.release) for p in pk]
    want = [(d["version"], d["release"]) for d in ds]
    if len(pk) != len(ds) or got != want:
        if variant % 2 == 1:
            return select(evrs, idxs, 0)       # the line format did not carry the triples: use JSON
        raise RuntimeError("driver: InstalledRpms did not load the generated packages: %r" % (lines,))
    out = []
    for f in (rpms.newest, rpms.oldest):
        try:
            r = f("pkg")
        except Exception:
            STATS["raised"] += 1
            out.append(-1)
            continue
        pos = [n + 1 for n, p in enumerate(pk) if p is r]
        out.append(pos[0] if pos else 0)
    STATS["sel_calls"] += 2
    return out


def erows(job):
    evrs = job["evrs"]
    variant = job.get("variant", 0)
    left = [make_rpm(x, variant + n) for n, x in enumerate(evrs)]
    right = [make_rpm(x, variant + n + 1) for n, x in enumerate(evrs)]     # distinct objects
    events = []
    for i in job["rows"]:
        a = left[i - 1]
        cmp_ = [call(rpm_version_compare, a, b) for b in right]
        o = [ops(a, b) for b in right]
        STATS["evr_calls"] += len(cmp_)
        STATS["op_calls"] += 6 * len(o)
        events.append({"ev": "erow", "a": i, "cmp": cmp_, "ops": o})
    for n, idxs in enumerate(job.get("sel", [])):
        mx, mn = select(evrs, idxs, variant + n)
        events.append({"ev": "sel", "pk": idxs, "mx": mx, "mn": mn})
    return {"id": job["id"], "strs": [], "evrs": evrs, "events": events}


def table(job):
    """The upstream rpmvercmp.at table kept in the repository's tests, as (a, b, expected)."""
    from insights.tests.parsers import test_rpm_vercmp as t
    rows = t.convert(t.DEFAULT_DATA)
    strs, idx, events = [], {}, []

    def ix(s):
        if s not in idx:
            strs.append([ord(c) for c in s])
            idx[s] = len(strs)
        return idx[s]
    for a, b, r in rows:
        events.append({"ev": "table", "a": ix(a), "b": ix(b), "r": r})
    return {"id": job["id"], "strs": strs, "evrs": [], "events": events}


def main():
    with open(sys.argv[1]) as f:
        payload = json.load(f)
    traces = []
    for job in payload["jobs"]:
        traces.append({"vrows": vrows, "erows": erows, "table": table}[job["kind"]](job))
    # the driver must really have reached the code under test
    assert installed_rpms.rpm_version_compare is rpm_version_compare
    with open(sys.argv[2], "w") as f:
        json.dump({"traces": traces, "stats": STATS}, f, separators=(",", ":"))


if __name__ == "__main__":
    main()
