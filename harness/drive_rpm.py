"""Driver for C13: run the real RPM comparison code of /repo on given inputs and
record what it returned.  Contains no oracle: the records are judged by
specs/RpmVercmpTrace.tla (TLC re-evaluates the reference on the same inputs).

usage: drive_rpm.py <in.json> <out.json>
in : {"jobs": [ {"id":.., "kind":"vrows", "strs":[[code,..],..], "rows":[i,..]}           (1-based indices)
              | {"id":.., "kind":"erows", "evrs":[{"e":[..],"v":[..],"r":[..]},..], "rows":[i,..],
                 "sel":[[i,..],..], "variant": n}      (sel: package lists for newest / oldest, in this order)
              | {"id":.., "kind":"table"} ]}
out: {"traces":[{"id":..,"strs":[..],"evrs":[..],"events":[..]}], "stats":{..}}

Strings are sequences of code points; result 99 stands for "raised".
"""
import json
import sys

from insights.parsers import installed_rpms
from insights.parsers.installed_rpms import InstalledRpm, InstalledRpms, RpmList
from insights.parsers.rpm_vercmp import _rpm_vercmp, rpm_version_compare
from insights.tests import context_wrap

RAISED = 99
STATS = {"vercmp_calls": 0, "evr_calls": 0, "op_calls": 0, "sel_calls": 0, "raised": 0, "line_format": 0}


def text(codes):
    return "".join(chr(c) for c in codes)


def call(f, *a):
    try:
        r = f(*a)
    except Exception:
        STATS["raised"] += 1
        return RAISED
    if r is True or r is False or not isinstance(r, int):
        return RAISED - 1              # not an int: reported as 98, never accepted
    return r


def vrows(job):
    strs = [text(s) for s in job["strs"]]
    events = []
    for i in job["rows"]:
        a = strs[i - 1]
        rs = [call(_rpm_vercmp, a, b) for b in strs]
        STATS["vercmp_calls"] += len(rs)
        events.append({"ev": "vrow", "a": i, "rs": rs})
    return {"id": job["id"], "strs": job["strs"], "evrs": [], "events": events}


# ---- concretisation of an abstract epoch:version-release triple -----------

def evr_dict(x, name="pkg", arch="x86_64"):
    d = {"name": name, "version": text(x["v"]), "release": text(x["r"])}
    if arch:
        d["arch"] = arch                   # "" = the package carries no architecture
    if x["e"]:
        d["epoch"] = text(x["e"])          # "(none)" is passed through as rpm prints it
    return d


SAFE = set("abcdefghijklmnopqrstuvwxyzABCDEFGHIJKLMNOPQRSTUVWXYZ0123456789._~^+")


def line_of(d):
    """'name-epoch:version-release.arch' when the plain `rpm -qa` line format can carry the
    triple unchanged (concretisation choice; the parsed fields are checked below)."""
    v, r, e = d["version"], d["release"], d.get("epoch", "0")
    if not v or not r or not (set(v) | set(r)) <= SAFE or not e.isdigit():
        return None
    return "%s-%s:%s-%s%s" % (d["name"], e, v, r, ("." + d["arch"]) if d.get("arch") else "")


class OwnRpm(InstalledRpm):
    """A package class of the driver's own derived from InstalledRpm (as YumListRpm is)."""


def rpm_class(name):
    if name == "InstalledRpm":
        return InstalledRpm
    if name == "YumListRpm":
        from insights.parsers.yum_list import YumListRpm
        return YumListRpm
    if name == "OwnRpm":
        return OwnRpm
    raise ValueError("driver: unknown package class %r" % name)


CLASS_PAIRS = [("InstalledRpm", "InstalledRpm"), ("YumListRpm", "InstalledRpm"), ("InstalledRpm", "YumListRpm"),
               ("YumListRpm", "YumListRpm")]
OWN_PAIRS = [("OwnRpm", "InstalledRpm"), ("InstalledRpm", "OwnRpm"), ("OwnRpm", "YumListRpm")]
# architecture of the left / right operand ("" = none): one more declared dimension of the case.  The
# class pairings above are run with x86_64 on both sides; every row is also run with one of these
# (by row number), alternately on plain InstalledRpm and on YumListRpm x InstalledRpm operands.
ARCH_PAIRS = [("x86_64", "i686"), ("noarch", "x86_64"), ("", "x86_64"), ("i686", ""), ("", ""), ("i686", "i686"),
              ("i686", "noarch")]


def make_rpm(x, variant, cls=InstalledRpm, arch="x86_64"):
    """Build a package object of class cls for the triple through one of the public constructors."""
    d = evr_dict(x, arch=arch)
    k = variant % 3
    if k == 1:
        return cls.from_json(json.dumps(d))
    if k == 2:
        ln = line_of(d)
        if ln is not None:
            p = cls.from_package(ln)
            if (p.version, p.release, p.name, p.arch or "") == (d["version"], d["release"], d["name"], arch):
                STATS["line_format"] += 1
                return p
    return cls(d)


def ops(x, y):
    if x is None or y is None:
        return []
    try:
        r = [x < y, x == y, x > y, x <= y, x >= y, x != y]
    except Exception:
        STATS["raised"] += 1
        return []
    if not all(b is True or b is False for b in r):
        return []
    return r


VIAS = ["json", "line", "yum-installed", "yum-available", "mixin", "extended"]


class OwnRpmList(RpmList):
    """A component of its own using the RpmList mixin: it only provides ``packages``."""

    def __init__(self, packages):
        self.packages = packages


def yum_row(d, n):
    """A 'yum list' row carrying the triple; the position travels in the repository column."""
    v, r, e = d["version"], d["release"], d.get("epoch")
    if not v or not r or not (set(v) | set(r)) <= SAFE or (e is not None and not e.isdigit()):
        return None
    return "%s.%s   %s%s-%s   @ix%d" % (d["name"], d["arch"], (e + ":") if e is not None else "", v, r, n)


def content_of(via, ds):
    """Lines of command output carrying the packages ds (in this order, with their positions), or None
    when that format cannot carry them."""
    if via == "json":
        return [json.dumps(dict(d, vix=n + 1)) for n, d in enumerate(ds)]
    if via == "line":
        lines = [line_of(d) for d in ds]
        if any(ln is None for ln in lines):
            return None
        # the position travels in the first sosreport column (installtime)
        return ["%s    ix%d" % (ln, n + 1) for n, ln in enumerate(lines)]
    rows = [yum_row(d, n + 1) for n, d in enumerate(ds)]
    if any(r is None for r in rows):
        return None
    return ["Loaded plugins: product-id, subscription-manager",
            "Installed Packages" if via == "yum-installed" else "Available Packages"] + rows


def container(via, ds):
    """An RpmList holding the packages ds (in this order) built the way `via` says, or None when that
    format cannot carry them.  Every package object can be mapped back to its position (tag_of)."""
    if via in ("json", "line", "yum-installed", "yum-available"):
        lines = content_of(via, ds)
        if lines is None:
            return None
        if via in ("json", "line"):
            return InstalledRpms(context_wrap("\n".join(lines)))
        from insights.parsers.yum_list import YumListAvailable, YumListInstalled
        return (YumListInstalled if via == "yum-installed" else YumListAvailable)(context_wrap("\n".join(lines)))
    if via == "mixin":
        return OwnRpmList({"pkg": [InstalledRpm(dict(d, vix=n + 1)) for n, d in enumerate(ds)]})
    if via == "extended":
        # parsed from `rpm -qa` data, then the packages dictionary is extended by its user
        rpms = InstalledRpms(context_wrap(json.dumps(dict(ds[0], vix=1))))
        for n, d in enumerate(ds[1:], 2):
            rpms.packages.setdefault("pkg", []).append(InstalledRpm(dict(d, vix=n)))
        return rpms
    raise ValueError("driver: unknown container kind %r" % via)


def extend(c, via, ds, ds2, turn):
    """The holder c (already asked) gets more packages: ds2 after ds.  Returns how: 'reparse' = a second
    parse_content() on the same parser object with the longer output, 'append' / 'insert' = its user
    adds package objects to the public packages[name] list (at the end / at the front)."""
    if via in ("json", "line", "yum-installed", "yum-available") and turn % 3 == 0:
        lines = content_of(via, ds + ds2)
        if lines is not None:
            c.parse_content(lines)
            return "reparse"
    how = "insert" if turn % 3 == 1 else "append"
    for n, d in enumerate(ds2, len(ds) + 1):
        p = InstalledRpm(dict(d, vix=n))
        if how == "insert":
            c.packages.setdefault("pkg", []).insert(0, p)
        else:
            c.packages.setdefault("pkg", []).append(p)
    return how


def tag_of(p):
    """Position (1-based) the package object was generated at, 0 when it carries none."""
    if not isinstance(p, InstalledRpm):
        return 0
    for attr in ("vix", "installtime", "repo"):
        t = getattr(p, attr, None)
        if isinstance(t, int) and not isinstance(t, bool):
            return t
        if isinstance(t, str) and t.startswith("ix") and t[2:].isdigit():
            return int(t[2:])
    return 0


def lookups(c, ev):
    for key, name in (("mx", "newest"), ("mn", "oldest"), ("gmx", "get_max"), ("gmn", "get_min")):
        try:
            ev[key] = tag_of(getattr(c, name)("pkg"))
        except Exception:
            STATS["raised"] += 1
            ev[key] = -1
        STATS["sel_calls"] += 1


def select(evrs, idxs, more, turn):
    """newest / oldest / get_max / get_min on every kind of RpmList that can hold the packages, then a
    short history: the same holder gets the packages `more` as well and is asked again (second event,
    via = '<kind>+<how it was extended>', pk = everything it lists now).
    Whatever the code under test does (including raising) becomes a recorded observation:
    n = number of the generated packages the container holds (-1: building / extending it raised),
    results = position of the returned object (0: not one of the packages, -1: raised)."""
    ds = [evr_dict(evrs[i - 1]) for i in idxs]
    ds2 = [evr_dict(evrs[i - 1]) for i in more]
    events = []
    for via in VIAS:
        ev = {"ev": "sel", "via": via, "pk": idxs, "n": -1, "mx": -1, "mn": -1, "gmx": -1, "gmn": -1}
        try:
            c = container(via, ds)
            if c is None:
                continue                     # this format cannot carry these triples (concretisation choice)
            held = sorted(tag_of(p) for p in c.packages.get("pkg", []))
        except Exception:
            STATS["raised"] += 1
            events.append(ev)
            continue
        if held != list(range(1, len(ds) + 1)) and via in ("line", "yum-installed", "yum-available"):
            continue                         # the text format did not carry the packages: not a C13 observation
        ev["n"] = len([t for t in held if t > 0])
        lookups(c, ev)
        STATS["sel_" + via] = STATS.get("sel_" + via, 0) + 1
        events.append(ev)
        if not ds2:
            continue
        ev2 = {"ev": "sel", "via": via + "+extended", "first": len(idxs), "pk": idxs + more, "n": -1, "mx": -1, "mn": -1, "gmx": -1, "gmn": -1}
        try:
            how = extend(c, via, ds, ds2, turn)
            ev2["via"] = via + "+" + how
            held = sorted(tag_of(p) for p in c.packages.get("pkg", []))
        except Exception:
            STATS["raised"] += 1
            events.append(ev2)
            continue
        if held != list(range(1, len(ds) + len(ds2) + 1)) and how == "reparse" and via != "json":
            continue
        ev2["n"] = len([t for t in held if t > 0])
        lookups(c, ev2)
        STATS["again_" + how] = STATS.get("again_" + how, 0) + 1
        events.append(ev2)
    return events


def safe_rpm(x, variant, cls="InstalledRpm", arch="x86_64"):
    try:
        p = make_rpm(x, variant, rpm_class(cls), arch)
        if type(p) is not rpm_class(cls):
            raise TypeError("constructor returned %r" % type(p))
        return p
    except Exception:
        STATS["raised"] += 1
        return None                          # every call on it is then recorded as raised


def erows(job):
    """Every row of the EVR table in every pairing of package classes (a declared dimension of the
    case: lc / rc = class of the left / right operand); left and right operands are distinct objects."""
    evrs = job["evrs"]
    variant = job.get("variant", 0)
    made = {}

    def objs(side, cls, arch):
        k = (side, cls, arch)
        if k not in made:
            made[k] = [safe_rpm(x, variant + n + side, cls, arch) for n, x in enumerate(evrs)]
        return made[k]
    events = []
    for i in job["rows"]:
        cases = [(lc, rc, "x86_64", "x86_64") for lc, rc in CLASS_PAIRS + (OWN_PAIRS if i % 3 == 0 else [])]
        la, ra = ARCH_PAIRS[i % len(ARCH_PAIRS)]
        cases.append((("InstalledRpm", "InstalledRpm") if (i // len(ARCH_PAIRS)) % 2 == 0
                      else ("YumListRpm", "InstalledRpm")) + (la, ra))
        for lc, rc, la, ra in cases:
            a = objs(0, lc, la)[i - 1]
            right = objs(1, rc, ra)                      # distinct objects from the left ones
            cmp_ = [call(rpm_version_compare, a, b) for b in right]
            o = [ops(a, b) for b in right]
            STATS["evr_calls"] += len(cmp_)
            STATS["op_calls"] += 6 * len(o)
            STATS["pair_%s_%s" % (lc, rc)] = STATS.get("pair_%s_%s" % (lc, rc), 0) + len(o)
            STATS["arch_%s_%s" % (la or "none", ra or "none")] = STATS.get("arch_%s_%s" % (la or "none", ra or "none"), 0) + len(o)
            events.append({"ev": "erow", "a": i, "lc": lc, "rc": rc, "la": la, "ra": ra, "cmp": cmp_, "ops": o})
    sel = job.get("sel", [])
    for n, idxs in enumerate(sel):
        events.extend(select(evrs, idxs, sel[(n + 1) % len(sel)] if len(sel) > 1 else [], n))
    return {"id": job["id"], "strs": [], "evrs": evrs, "events": events}


def table(job):
    """The upstream rpmvercmp.at table kept in the repository's tests, as (a, b, expected)."""
    from insights.tests.parsers import test_rpm_vercmp as t
    rows = t.convert(t.DEFAULT_DATA)
    strs, idx, events = [], {}, []

    def ix(s):
        if s not in idx:
            strs.append([ord(c) for c in s])
            idx[s] = len(strs)
        return idx[s]
    for a, b, r in rows:
        events.append({"ev": "table", "a": ix(a), "b": ix(b), "r": r})
    return {"id": job["id"], "strs": strs, "evrs": [], "events": events}


def main():
    with open(sys.argv[1]) as f:
        payload = json.load(f)
    traces = []
    for job in payload["jobs"]:
        traces.append({"vrows": vrows, "erows": erows, "table": table}[job["kind"]](job))
    # the driver must really have reached the code under test
    assert installed_rpms.rpm_version_compare is rpm_version_compare
    with open(sys.argv[2], "w") as f:
        json.dump({"traces": traces, "stats": STATS}, f, separators=(",", ":"))


if __name__ == "__main__":
    main()
