"""Driver for Collect (C06): materialise abstract layouts in a scratch
directory, run the REAL providers / declarative factories / serialisers of
insights.core.spec_factory, insights.core.blacklist, insights.collect and
insights.core.serde on them and record what happened.  No oracle here: the
records are judged by specs/CollectTrace.tla.

usage: drive_collect.py <in.json> <out.json>
in : {"base": <scratch dir>, "seed": n,
      "layouts": [{"key":{..}, "fs":[node..], "root":[..], "out":12, "paths":[[seg..]..]}],
      "vias": [...], "saveas": [...], "random": {"layouts": n, "paths": m, "maxlen": k},
      "deny": [case..]}
out: {"traces":[..], "stats":{..}}
"""
import errno
import json
import os
import random
import shutil
import sys
import threading

from insights.core import blacklist, dr
from insights.core import spec_factory as sf
from insights.core.context import HostArchiveContext, HostContext
from insights.core.plugins import datasource
from insights.core.serde import Hydration
from insights import collect as collect_mod

OLD = 1000000000  # mtime given to every materialised file (2001): any later write is visible


# ---------------------------------------------------------------------------
# observation: audit hook + recording host context
# ---------------------------------------------------------------------------
class GuardRefused(RuntimeError):
    """The code under test tried to write outside the scratch area; the driver refused (and recorded it)."""


class Audit(object):
    """sys.addaudithook recorder.  While a guard directory is set, every write-like operation whose destination
    lies outside it is REFUSED before it happens (the hook raises) and recorded as ("blocked", path): the driver
    never writes outside its scratch directory, even when the code under test is broken."""

    WRITERS = ("cp", "mv", "install", "ln", "touch", "mkdir", "rm", "tee", "dd", "rsync")

    def __init__(self):
        self.on = False
        self.guard = None
        self.events = []
        self.lock = threading.Lock()
        self.busy = threading.local()

    def outside(self, path):
        if not self.guard or not isinstance(path, str):
            return False
        p = os.path.abspath(path)
        if p.startswith(("/dev/", "/proc/")):
            return False
        real = os.path.join(os.path.realpath(os.path.dirname(p)), os.path.basename(p))
        return not (real == self.guard or real.startswith(self.guard + "/"))

    def refuse(self, path):
        with self.lock:
            self.events.append(("blocked", os.path.abspath(path), True))
        raise GuardRefused("write outside the scratch area refused: %s" % path)

    def hook(self, name, args):
        if not self.on or getattr(self.busy, "v", False):
            return
        self.busy.v = True
        try:
            if name == "open":
                path, mode, flags = args
                if isinstance(path, bytes):
                    path = path.decode("utf-8", "surrogateescape")
                if isinstance(path, str):
                    wr = bool(flags & (os.O_WRONLY | os.O_RDWR | os.O_CREAT | os.O_TRUNC | os.O_APPEND))
                    if wr and self.outside(path):
                        self.refuse(path)
                    with self.lock:
                        self.events.append(("open", path, wr))
            elif name in ("os.mkdir", "os.rename", "os.symlink", "os.link", "os.truncate", "os.remove", "os.rmdir",
                          "os.chmod", "os.chown", "shutil.copyfile", "shutil.copytree", "shutil.move",
                          "shutil.copymode", "shutil.copystat", "shutil.rmtree", "shutil.make_archive"):
                cands = [a for a in args[:2] if isinstance(a, (str, bytes))]
                if name in ("os.mkdir", "os.truncate", "os.remove", "os.rmdir", "os.chmod", "os.chown", "shutil.rmtree"):
                    cands = cands[:1]
                elif len(cands) == 2 and name not in ("os.rename", "shutil.move"):
                    cands = cands[1:]                      # (src, dst): only the destination is written
                for a in cands:
                    a = a.decode("utf-8", "surrogateescape") if isinstance(a, bytes) else a
                    if self.outside(a):
                        self.refuse(a)
            elif name == "subprocess.Popen":
                exe, argv = args[0], args[1]
                argv = [a.decode("utf-8", "surrogateescape") if isinstance(a, bytes) else str(a)
                        for a in (argv if isinstance(argv, (list, tuple)) else [argv])]
                cmd = argv[4:] if argv and os.path.basename(argv[0]) == "timeout" and len(argv) > 4 else argv
                if cmd and os.path.basename(cmd[0]) in self.WRITERS:
                    paths = [a for a in cmd[1:] if a.startswith("/")]
                    if os.path.basename(cmd[0]) in ("cp", "mv", "install", "ln", "rsync"):
                        paths = paths[-1:]
                    for a in paths:
                        if self.outside(a):
                            self.refuse(a)
                with self.lock:
                    self.events.append(("exec", argv, False))
            elif name in ("os.system", "os.exec", "os.posix_spawn", "os.spawn"):
                with self.lock:
                    self.events.append(("exec", [str(a) for a in args], False))
        except GuardRefused:
            raise
        except Exception:
            pass
        finally:
            self.busy.v = False

    def start(self, guard=None):
        self.events = []
        self.guard = os.path.realpath(guard) if guard else None
        self.on = True

    def stop(self):
        self.on = False
        self.guard = None
        ev, self.events = self.events, []
        return ev


def destinations(aud, W):
    """(dsts, blocked): destination strings seen by the audit hook, as segments relative to W; refused writes
    outside the scratch area as pseudo-locations <<"<outside>", ...>>."""
    dsts, blocked = [], []
    for kind, a, wr in aud:
        if kind == "open" and wr and a.startswith(W + "/"):
            dsts.append(a[len(W) + 1:].split("/"))
        elif kind == "exec" and len(a) >= 3 and os.path.basename(a[0]) == "cp" and a[-1].startswith(W + "/"):
            dsts.append(a[-1][len(W) + 1:].split("/"))
        elif kind == "blocked":
            blocked.append(["<outside>"] + [x for x in a.split("/") if x])
    return dsts, blocked


AUDIT = Audit()
sys.addaudithook(AUDIT.hook)

CONTAINER_ENGINES = ("/usr/bin/podman", "/usr/bin/docker")


class RecHostContext(HostContext):
    """HostContext that records every command handed to it.  Commands whose
    binary is a container engine are not run (canned output); everything else
    is really executed by the base class."""

    def __init__(self, root):
        super(RecHostContext, self).__init__(root=root, timeout=20)
        self.calls = []

    def _note(self, cmd):
        stages = cmd if isinstance(cmd, list) else [cmd]
        out = []
        for st in stages:
            if isinstance(st, (list, tuple)):
                out.append([str(x) for x in st])
            else:
                import shlex
                out.append(shlex.split(str(st)))
        self.calls.extend(out)
        return out

    def check_output(self, cmd, timeout=None, keep_rc=False, env=None, signum=None):
        stages = self._note(cmd)
        if any(st and st[0] in CONTAINER_ENGINES for st in stages):
            return (0, "canned\n") if keep_rc else "canned\n"
        return super(RecHostContext, self).check_output(cmd, timeout=timeout, keep_rc=keep_rc, env=env,
                                                        signum=signum)

    def connect(self, *args, **kwargs):
        self._note(list(args))
        return super(RecHostContext, self).connect(*args, **kwargs)

    def stream(self, *args, **kwargs):
        self._note(list(args))
        return super(RecHostContext, self).stream(*args, **kwargs)


_real_which = sf.which


def _which(cmd, env=None):
    if cmd in CONTAINER_ENGINES:
        return cmd
    return _real_which(cmd, env=env)


sf.which = _which


# ---------------------------------------------------------------------------
# layouts on disk
# ---------------------------------------------------------------------------
class Tree(object):
    def __init__(self, base, name, fs):
        self.W = os.path.join(os.path.realpath(base), name)
        if os.path.exists(self.W):
            shutil.rmtree(self.W)
        self.fs = fs
        self.paths = {}
        self.ino = {}
        for i, n in enumerate(fs):
            nid = i + 1
            if n["k"] == "none":
                continue
            p = self.W if nid == 1 else os.path.join(self.paths[n["p"]], n["n"])
            self.paths[nid] = p
            if n["k"] == "dir":
                os.mkdir(p)
            elif n["k"] == "file":
                with open(p, "w") as f:
                    f.write(str(nid))
                os.utime(p, (OLD, OLD))
            elif n["k"] == "link":
                tgt = "/".join(n["segs"])
                if n["abs"]:
                    tgt = self.W + "/" + tgt
                os.symlink(tgt, p)
        for nid, p in self.paths.items():
            if fs[nid - 1]["k"] != "link":
                st = os.lstat(p)
                self.ino[(st.st_dev, st.st_ino)] = nid

    def node_of(self, path):
        try:
            st = os.stat(path)
        except OSError:
            return 0
        return self.ino.get((st.st_dev, st.st_ino), 0)

    def kernel(self, full):
        try:
            st = os.stat(full)
        except OSError as ex:
            return {errno.ENOENT: "enoent", errno.ENOTDIR: "enotdir", errno.ELOOP: "eloop"}.get(
                ex.errno, "errno-%s" % ex.errno), 0
        return "ok", self.ino.get((st.st_dev, st.st_ino), 0)

    def snapshot(self):
        files, dirs = {}, set()
        for d, dn, fn in os.walk(self.W):
            for x in dn:
                p = os.path.join(d, x)
                if not os.path.islink(p):
                    dirs.add(p)
            for x in fn + [y for y in dn if os.path.islink(os.path.join(d, y))]:
                p = os.path.join(d, x)
                st = os.lstat(p)
                files[p] = (st.st_ino, st.st_size, st.st_mtime_ns, os.path.islink(p))
        return files, dirs

    def loc(self, p):
        rel = os.path.relpath(p, self.W)
        return [] if rel == "." else rel.split("/")

    def restore(self, before, after, outdir):
        """Undo everything a serialisation did, inside and outside the output directory."""
        bf, bd = before
        af, ad = after
        for p in af:
            if p not in bf:
                os.unlink(p)
        for p in sorted(ad - bd, key=len, reverse=True):
            # directories created below the output directory stay until the layout is dropped (rmdir is slow)
            if os.path.isdir(p) and not (p + "/").startswith(outdir + "/"):
                shutil.rmtree(p)
        for p in bf:
            if p in af and af[p] != bf[p] and not bf[p][3]:
                nid = [k for k, v in self.paths.items() if v == p]
                with open(p, "w") as f:
                    f.write(str(nid[0]) if nid else "")
                os.utime(p, (OLD, OLD))
        for nid, p in self.paths.items():      # inode numbers may have changed if a file was replaced
            if self.fs[nid - 1]["k"] == "file":
                st = os.lstat(p)
                self.ino[(st.st_dev, st.st_ino)] = nid


def content_ids(value):
    """ids of the files whose content a provider (or list of providers) really delivered"""
    vals = value if isinstance(value, list) else [value]
    ids, loaded = [], 0
    for v in vals:
        try:
            c = v.content
        except Exception:
            continue
        loaded += 1
        if isinstance(c, bytes):
            c = c.decode("utf-8", "replace")
        elif isinstance(c, list):
            c = "\n".join(c)
        try:
            ids.append(int(str(c).strip()))
        except ValueError:
            ids.append(0)
    return ids, loaded


@datasource(HostContext)
def persisted_component(broker):
    return None


@datasource()
def items_provider(broker):
    return None


class PathRunner(object):
    def __init__(self, base, seed):
        self.base = base
        self.rng = random.Random(seed)
        self.n = 0
        self.stats = dict(provides=0, yielded=0, raised=0, nocontent=0, persists=0, datafiles=0, pairs=0,
                          layouts=0, random_layouts=0)
        kinds = {"text": sf.TextFileProvider, "raw": sf.RawFileProvider}
        self.fac = {}
        for kn, k in kinds.items():
            self.fac[("simple_file", kn)] = sf.simple_file("/x", context=HostContext, kind=k)
            self.fac[("first_file", kn)] = sf.first_file(["/x"], context=HostContext, kind=k)
            self.fac[("glob_file", kn)] = sf.glob_file("/x", context=HostContext, kind=k)
            self.fac[("foreach_collect", kn)] = sf.foreach_collect(items_provider, "/%s", context=HostContext, kind=k)

    def build(self, via, kind, ctx, rootstr, rel):
        K = sf.TextFileProvider if kind == "text" else sf.RawFileProvider
        b = dr.Broker()
        b[HostContext] = ctx
        if via == "direct":
            return K(rel, root=rootstr, ctx=ctx)
        f = self.fac[(via, kind)]
        if via == "simple_file":
            f.path = "/" + rel
        elif via == "first_file":
            f.paths = ["/no-such-entry", "/" + rel]
        elif via == "glob_file":
            f.patterns = ["/" + rel]
        elif via == "foreach_collect":
            b[items_provider] = [rel]
        return f(b)

    def provide(self, tree, lay, rootstr, path, via, kind, ctxk, star=False):
        rel = "/".join(path)
        ctx = HostContext(root=rootstr) if ctxk == "host" else HostArchiveContext(root=rootstr)
        if star:
            kst, knode = "skip", 0
        else:
            kst, knode = tree.kernel(rootstr + "/" + rel)
        ev = dict(ev="provide", via=via, kind=kind, ctx=ctxk, path=path, star=star, kstatus=kst, knode=knode,
                  outcome="raised", contents=[], exc="")
        value = None
        try:
            value = self.build(via, kind, ctx, rootstr, rel)
        except Exception as ex:
            ev["exc"] = type(ex).__name__
        if value is not None:
            ids, loaded = content_ids(value)
            ev["contents"] = ids
            ev["outcome"] = "yielded" if loaded else "nocontent"
        self.stats["provides"] += 1
        self.stats[ev["outcome"]] += 1
        return ev, (value if ev["outcome"] == "yielded" else None)

    def persist(self, tree, lay, path, value, saveas, via, seq="single"):
        """Serialise `value` (seq == "single") or several values one after the other into the SAME output
        directory (two specs persisting the same relative path) with Hydration.dehydrate; record every file
        created or modified anywhere under W and what kind of object it is."""
        outdir = tree.paths[lay["out"]]
        sa = {"none": None, "file": "sv/x", "dir": "sv/"}[saveas]
        values = [value] if seq == "single" else list(value)
        for val in values:
            for v in (val if isinstance(val, list) else [val]):
                v.save_as = sa
        before = tree.snapshot()
        AUDIT.start(guard=self.base)
        try:
            for val in values:
                b = dr.Broker()
                b[persisted_component] = val
                Hydration(outdir).dehydrate(persisted_component, b)
        finally:
            aud = AUDIT.stop()
        after = tree.snapshot()
        bf, af = before[0], after[0]
        changed = [p for p in sorted(af) if p not in bf or af[p] != bf[p]]
        written = [tree.loc(p) for p in changed]
        wtypes = ["symlink" if af[p][3] else "file" for p in changed]
        dsts, blocked = destinations(aud, tree.W)
        written += blocked
        wtypes += ["file"] * len(blocked)
        dsts += blocked
        self.stats["persists"] += 1
        self.stats["datafiles"] += sum(1 for w in written if "meta_data" not in w)
        tree.restore(before, after, outdir)
        self.stats["pairs"] += int(seq != "single")
        return dict(ev="persist", via=via, path=path, saveas=saveas, seq=seq, dsts=dsts, written=written, wtypes=wtypes)

    def run_layout(self, lay, vias, saveas, tag):
        self.n += 1
        tree = Tree(self.base, "w%d" % self.n, lay["fs"])
        rootstr = tree.W + "/" + "/".join(lay["root"])
        events = []
        seen_star = set()
        for pi, path in enumerate(lay["paths"]):
            plan = [("direct", "text", "host")]
            rest = [v for v in vias if v != "direct"]
            if "direct" in vias:
                plan.append(("direct", "raw", "archive" if pi % 2 else "host"))
            if rest:
                if lay.get("allvias"):
                    plan += [(v, "raw" if (pi + j) % 3 == 0 else "text", "host") for j, v in enumerate(rest)]
                else:
                    v = rest[self.rng.randrange(len(rest))]
                    plan.append((v, "raw" if self.rng.randrange(3) == 0 else "text", "host"))
            did = set()
            direct = {}
            for via, kind, ctxk in plan:
                ev, val = self.provide(tree, lay, rootstr, path, via, kind, ctxk)
                events.append(ev)
                if val is not None and via == "direct":
                    direct[kind] = val
                if val is not None:
                    for sa in saveas:
                        # every save_as form for paths with several '..' (the ones destinations depend on),
                        # a seeded sample for the rest
                        if not lay.get("allvias") and path.count("..") < 2 and (
                                (kind, sa) in did or (sa != "none" and self.rng.randrange(4))):
                            continue
                        did.add((kind, sa))
                        events.append(self.persist(tree, lay, path, val, sa, via))
                if via == plan[-1][0] and kind == plan[-1][1] and len(direct) == 2 and ".." not in path and (
                        lay.get("allvias") or os.path.islink(rootstr + "/" + "/".join(path)) or not self.rng.randrange(6)):
                    # the same file collected raw by one spec and as text by another: same relative path,
                    # persisted one after the other, in both orders
                    events.append(self.persist(tree, lay, path, [direct["raw"], direct["text"]], "none", "direct",
                                               seq="raw-then-text"))
                    events.append(self.persist(tree, lay, path, [direct["text"], direct["raw"]], "none", "direct",
                                               seq="text-then-raw"))
                if via in ("glob_file", "foreach_collect"):
                    sp = path[:-1] + ["*"]
                    if tuple(sp) not in seen_star:
                        seen_star.add(tuple(sp))
                        ev, val = self.provide(tree, lay, rootstr, sp, via, kind, ctxk, star=True)
                        events.append(ev)
        shutil.rmtree(tree.W)
        self.stats["layouts"] += 1
        return dict(id=tag, kind="path", lay=dict(fs=lay["fs"], root=lay["root"], out=lay["out"]), events=events)

    # -- seeded random layouts / paths beyond TLC's bounds --------------------
    def random_layout(self, base_fs, npaths, maxlen):
        fs = [dict(n) for n in base_fs]
        dirs = [i + 1 for i, n in enumerate(fs) if n["k"] == "dir" and n["n"] != "out"]
        names = ["a", "b", "c", "e", "h", "k"]
        used = set((n["p"], n["n"]) for n in fs if n["k"] != "none")
        for j in range(self.rng.randrange(3, 9)):
            p = self.rng.choice(dirs)
            nm = self.rng.choice(names)
            if (p, nm) in used:
                continue
            used.add((p, nm))
            r = self.rng.random()
            if r < 0.25:
                fs.append(dict(k="dir", p=p, n=nm, abs=False, segs=[]))
                dirs.append(len(fs))
            elif r < 0.45:
                fs.append(dict(k="file", p=p, n=nm, abs=False, segs=[]))
            else:
                segs = []
                ab = self.rng.random() < 0.3
                if ab:
                    segs = self.rng.choice([["t", "root"], ["t", "root2"], ["t", "other"], ["t"], ["t", "root", "d"]])
                    segs = segs + self.rng.choice([[], ["s"], ["f"], ["g"], ["u"], [nm]])
                else:
                    for _ in range(self.rng.randrange(1, 4)):
                        segs.append(self.rng.choice(["..", "..", "root2", "root", "other", "d", "s", "f", "g", "u", "tf",
                                                     "a", "b", "c", nm]))
                fs.append(dict(k="link", p=p, n=nm, abs=ab, segs=segs))
        return fs

    def random_paths(self, tree, rootstr, fs, npaths, maxlen):
        children = {}
        for i, n in enumerate(fs):
            if n["k"] != "none" and i > 0 and n["n"] not in ("out", "rl"):
                children.setdefault(n["p"], []).append(n["n"])
        allnames = sorted(set(x for v in children.values() for x in v))
        out = []
        for _ in range(npaths):
            path, cur = [], rootstr
            for _ in range(self.rng.randrange(1, maxlen + 1)):
                real = os.path.realpath(cur)
                here = tree.ino.get((os.stat(real).st_dev, os.stat(real).st_ino), 0) if os.path.exists(real) else 0
                opts = list(children.get(here, [])) * 3 + [self.rng.choice(allnames)]
                if real != tree.W and real.startswith(tree.W + "/") and os.path.isdir(real):
                    opts += [".."] * 3
                if not real.startswith(tree.W):
                    break
                s = self.rng.choice(opts)
                path.append(s)
                cur = cur + "/" + s
                if not os.path.isdir(cur):
                    break
            if path:
                out.append(path)
        return out

    def run_random(self, base_lay, nlay, npaths, maxlen, vias, saveas):
        traces = []
        for k in range(nlay):
            fs = self.random_layout(base_lay["fs"], npaths, maxlen)
            self.n += 1
            probe = Tree(self.base, "w%d" % self.n, fs)
            rootstr = probe.W + "/" + "/".join(base_lay["root"])
            paths = self.random_paths(probe, rootstr, fs, npaths, maxlen)
            shutil.rmtree(probe.W)
            lay = dict(fs=fs, root=base_lay["root"], out=base_lay["out"], paths=paths, allvias=False)
            traces.append(self.run_layout(lay, vias, saveas, "random/%d/%d" % (self.rng.randrange(10 ** 6), k)))
            self.stats["random_layouts"] += 1
        return traces


# ---------------------------------------------------------------------------
# deny list
# ---------------------------------------------------------------------------
def _noop_observer(comp, broker):
    pass


class DenyRunner(object):
    """The deny-list world W2/{root, out}: every declarative factory is evaluated by dr.run under a recording host
    context with the Hydration.make_persister observer, after insights.collect.apply_blacklist(cfg)."""
    FILES = {"/x/ab": "1", "/x/my b": "2", "/x/c+(1).repo": "3", "/x/nn": "8", "/etc/hosts": "4", "/etc/fstab": "5",
             "/boot/grub2/grub.cfg": "6", "/sys/kernel/debug/x86/pti_enabled": "7"}
    SPECS = ("hosts", "fstab", "date", "grub2_cfg", "x86_pti_enabled", "wc_proc_1_mountinfo")
    SAVE_AS = {"none": None, "file": "sv/x", "dir": "sv/", "absfile": "/sv/x", "absdir": "/sv/", "bare": "sv"}
    LAY = dict(fs=[dict(k="dir", p=1, n="", abs=False, segs=[]), dict(k="dir", p=1, n="root", abs=False, segs=[]),
                   dict(k="dir", p=1, n="out", abs=False, segs=[])], root=["root"], out=3)

    def __init__(self, base):
        import insights.specs.default as default
        self.default = default.DefaultSpecs
        self.base = os.path.realpath(base)
        self.W = os.path.join(self.base, "deny")
        if os.path.exists(self.W):
            shutil.rmtree(self.W)
        self.root = os.path.join(self.W, "root")
        self.out = os.path.join(self.W, "out")
        os.makedirs(self.out)
        os.makedirs(os.path.join(self.root, "x", "sub"))          # for the path "/x/sub/../nn"
        # one harmless process-wide observer, registered through the public API (declared in every trace)
        dr.add_observer(_noop_observer)
        self.ino = {}
        for rel, content in self.FILES.items():
            p = self.root + rel
            os.makedirs(os.path.dirname(p), exist_ok=True)
            with open(p, "w") as f:
                f.write(content)
            os.utime(p, (OLD, OLD))
            st = os.stat(p)
            self.ino[(st.st_dev, st.st_ino)] = rel
        self.stats = dict(collects=0, items=0, accessed=0, really_executed=0, docs=0, fpersists=0, datafiles=0,
                          blocked=0, blank_items=0, meta_items=0, deep_items=0, digit_specs=0, collect_entry=0)
        self.cache = {}

    def factory(self, fac, kind, saveas, items):
        """the factory instance, built through its real __init__ (which normalises save_as)"""
        strs = [" ".join(i["w"]) for i in items]
        key = (fac, kind, saveas, tuple(strs))
        if key in self.cache:
            return self.cache[key]
        K = sf.TextFileProvider if kind == "text" else sf.RawFileProvider
        kw = {} if saveas == "none" else {"save_as": self.SAVE_AS[saveas]}
        prov = None
        if fac == "simple_file":
            f = sf.simple_file(strs[0], context=HostContext, kind=K, **kw)
        elif fac == "first_file":
            f = sf.first_file(strs, context=HostContext, kind=K, **kw)
        elif fac == "glob_file":
            # the patterns yield exactly the candidate items, each in the form it is written here
            f = sf.glob_file(["/x/[amc]*", "/x/sub/../n*"], context=HostContext, kind=K, **kw)
        elif fac == "foreach_collect":
            f = sf.foreach_collect(items_provider, "/x/%s", context=HostContext, kind=K, **kw)
            prov = [x[len("/x/"):] for x in strs]
        elif fac == "simple_command":
            f = sf.simple_command(strs[0], context=HostContext, **kw)
        elif fac == "command_with_args":
            f = sf.command_with_args("/bin/echo %s", items_provider, context=HostContext, **kw)
            prov = strs[0].split(" ", 1)[1]
        elif fac == "foreach_execute":
            f = sf.foreach_execute(items_provider, "/bin/echo %s", context=HostContext)
            prov = [x.split(" ", 1)[1] for x in strs]
        elif fac == "container_execute":
            f = sf.container_execute(items_provider, "ls -l %s", context=HostContext)
            prov = [("img", "podman", i["w"][2], i["w"][5]) for i in items]
        elif fac == "container_collect":
            f = sf.container_collect(items_provider, context=HostContext)
            prov = [("img", "podman", i["w"][2], i["w"][4]) for i in items]
        else:
            raise ValueError(fac)
        self.cache[key] = (f, prov)
        return f, prov

    def reset(self):
        blacklist._FILE_FILTERS.clear()
        blacklist._COMMAND_FILTERS.clear()
        blacklist._PATTERN_FILTERS.clear()
        blacklist._KEYWORD_FILTERS.clear()
        del blacklist.BLACKLISTED_SPECS[:]

    def snapshot(self):
        files = {}
        for d, dn, fn in os.walk(self.W):
            for x in fn + [y for y in dn if os.path.islink(os.path.join(d, y))]:
                p = os.path.join(d, x)
                st = os.lstat(p)
                files[p] = (st.st_ino, st.st_size, st.st_mtime_ns, os.path.islink(p))
        return files

    def run_case(self, case, kind):
        fac = case["factory"]
        saveas = case.get("saveas", "none")
        if fac == "spec":
            ds, prov = getattr(self.default, case["comp"]), None
        else:
            ds, prov = self.factory(fac, kind, saveas, case["items"])
        cfg = {"files": [" ".join(w) for w in case["files"]], "commands": [" ".join(w) for w in case["commands"]],
               "components": list(case["comps"])}
        self.reset()
        was = dict((n, dr.is_enabled(getattr(self.default, n))) for n in self.SPECS)
        entry = case.get("entry", "apply")
        ctx = RecHostContext(self.root)
        broker = dr.Broker()
        broker[HostContext] = ctx
        if prov is not None:
            broker[items_provider] = prov
        before0 = before = self.snapshot()
        enabled_obj, enabled_snap = dr.ENABLED, dict(dr.ENABLED)
        if entry == "collect":
            # the real collection entry point: the manifest disables every component by default and enables the
            # prefix that covers the spec; the user's deny configuration arrives as rm_conf
            name = dr.get_name(ds)
            manifest = {"client": {"context": {"class": "insights.core.context.HostContext",
                                               "args": {"root": self.root, "timeout": 20}},
                                   "blacklist": {}, "persist": [{"name": name, "enabled": True}],
                                   "run_strategy": {"name": "serial"}},
                        "plugins": {"default_component_enabled": False, "packages": [],
                                    "configs": [{"name": name, "enabled": True}]}}
        else:
            h = Hydration(self.out)
            broker.add_observer(h.make_persister(set([ds])))
        AUDIT.start(guard=self.base)
        try:
            if entry == "collect":
                # two collections in one process, each with its own output directory; what the SECOND one
                # writes is what is recorded
                AUDIT.on = False
                collect_mod.collect(manifest=manifest, rm_conf=dict(cfg), tmp_path=self.W, archive_name="out0")
                self.reset()
                before = self.snapshot()
                AUDIT.events = []
                AUDIT.on = True
                collect_mod.collect(manifest=manifest, rm_conf=dict(cfg), tmp_path=self.W, archive_name="out")
                self.stats["collect_entry"] += 1
            else:
                collect_mod.apply_blacklist(cfg)
                dr.run(dr.get_dependency_graph(ds), broker)
        finally:
            aud = AUDIT.stop()
            self.reset()
            dr.ENABLED = enabled_obj               # collect() replaces the table: put the process back as it was
            enabled_obj.clear()
            enabled_obj.update(enabled_snap)
            for n, e in was.items():
                dr.set_enabled(getattr(self.default, n), e)
        after = self.snapshot()
        opened = set()
        execd = [a for k, a, _ in aud if k == "exec"] + ctx.calls
        for k, a, wr in aud:
            if k == "blocked":
                continue
            cands = [a] if k == "open" else [x for x in a if x.startswith("/")]
            for p in cands:
                if p.startswith(self.root):
                    try:
                        st = os.stat(p)
                    except OSError:
                        continue
                    rel = self.ino.get((st.st_dev, st.st_ino))
                    if rel:
                        opened.add(rel)
        items = []
        for it in case["items"]:
            w = it["w"]
            if it["t"] == "file":
                try:                         # the item's file, whatever form its path is written in
                    st = os.stat(self.root + " ".join(w))
                    acc = self.ino.get((st.st_dev, st.st_ino)) in opened
                except OSError:
                    acc = False
                self.stats["blank_items"] += int(len(w) > 1)
            else:
                acc = any(a[-len(w):] == w for a in execd if len(a) >= len(w))
            items.append(dict(t=it["t"], w=w, acc=acc, cls=it.get("cls", "plain")))
            self.stats["items"] += 1
            self.stats["accessed"] += int(acc)
            self.stats["meta_items"] += int(it.get("cls") == "meta")
            self.stats["deep_items"] += int(it.get("cls") == "deep")
        self.stats["really_executed"] += sum(1 for k, a, _ in aud if k == "exec" and any(
            "/bin/echo" in x or "/bin/date" in x or "/usr/bin/wc" in x for x in a))
        self.stats["digit_specs"] += int(any(it.get("cls") == "digit-name" for it in case["items"]))
        md = os.path.join(self.out, "meta_data")
        self.stats["docs"] += len(os.listdir(md)) if os.path.isdir(md) else 0
        # what the observer persisted, anywhere in the deny world
        changed = [p for p in sorted(after) if p not in before or after[p] != before[p]]
        written = [os.path.relpath(p, self.W).split("/") for p in changed]
        wtypes = ["symlink" if after[p][3] else "file" for p in changed]
        dsts, blocked = destinations(aud, self.W)
        wtypes += ["file"] * len(blocked)
        self.stats["fpersists"] += 1
        self.stats["datafiles"] += sum(1 for w in written if "meta_data" not in w)
        self.stats["blocked"] += len(blocked)
        for p in after:                             # undo: drop created files, restore modified ones
            if p not in before0:
                os.unlink(p)
            elif after[p] != before0[p]:
                rel = p[len(self.root):]
                with open(p, "w") as f:
                    f.write(self.FILES.get(rel, ""))
                os.utime(p, (OLD, OLD))
        self.stats["collects"] += 1
        return [dict(ev="collect", factory=fac, kind=kind, comp=case["comp"], files=case["files"], entry=entry,
                     process_observer=True,
                     commands=case["commands"], comps=case["comps"], items=items, stored=(ds in broker)),
                dict(ev="fpersist", factory=fac, kind=kind, saveas=saveas, seq="single", path=[],
                     written=written + blocked, wtypes=wtypes, dsts=dsts + blocked)]


def main():
    import logging
    logging.disable(logging.CRITICAL)
    with open(sys.argv[1]) as f:
        req = json.load(f)
    base = req["base"]
    os.makedirs(base, exist_ok=True)
    traces = []
    pr = PathRunner(base, req.get("seed", 0))
    vias = req.get("vias", ["direct"])
    saveas = req.get("saveas", ["none"])
    for li, lay in enumerate(req.get("layouts", [])):
        traces.append(pr.run_layout(lay, vias, saveas, lay["id"]))
    rnd = req.get("random")
    if rnd and rnd.get("layouts"):
        traces.extend(pr.run_random(rnd["base"], rnd["layouts"], rnd["paths"], rnd["maxlen"], vias, saveas))
    stats = dict(path=pr.stats)
    if req.get("deny"):
        dn = DenyRunner(base)
        for case in req["deny"]:
            kinds = ["text", "raw"] if case["factory"] in ("simple_file", "glob_file", "first_file", "foreach_collect") else ["text"]
            evs = [e for k in kinds for e in dn.run_case(case, k)]
            traces.append(dict(id=case["id"], kind="deny", lay=dn.LAY, events=evs))
        stats["deny"] = dn.stats
        shutil.rmtree(dn.W, True)
    with open(sys.argv[2], "w") as f:
        json.dump(dict(traces=traces, stats=stats), f, separators=(",", ":"))


if __name__ == "__main__":
    main()
