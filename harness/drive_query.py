"""Driver for C20 (configuration-tree queries).  Concretises abstract forests,
queries and boolean terms (see specs/Query.tla) as real insights.parsr.query
objects, calls select / find / __getitem__ / test / to_pyfunc on them and
records what came back.  Contains no oracle: the records are judged by
specs/QueryTrace.tla.

usage: drive_query.py <in.json> <out.json>
in : {"cases": [CASE records of QueryMC: {forest, qs, deep, roots} or {term, vals}],
      "random": {"seed": s, "forests": n, "queries": m, "terms": k}}
out: {"traces": [{"id", "forest", "events": [...]}], "stats": {...}}
"""
import json
import logging
import operator
import random
import sys

from insights.parsr import query as Q
from insights.parsr.query import Entry, Result, Section, Directive, all_, any_, compile_queries
from insights.parsr.query.boolean import pred


# ---------------------------------------------------------------- values
USED_CHARS = set()          # every character that went into a name, an attribute or an argument (R4, see alphabet_trace)


def text(codes):
    USED_CHARS.update(codes)
    return "".join(chr(c) for c in codes)


def val(v):
    return text(v["s"]) if v["t"] == "s" else v["i"]


def sv(s):
    return {"t": "s", "s": [ord(c) for c in s], "i": 0}


def iv(n):
    return {"t": "i", "s": [], "i": n}


# ---------------------------------------------------------------- forests
class Forest(object):
    def __init__(self, flat, rng):
        self.flat = flat
        self.nodes = [None] * (len(flat) + 1)      # 1-based, document order
        self.ids = {}
        self.docs = []
        i = 0
        while i < len(flat):
            if flat[i]["d"] != 0:
                raise ValueError("forest must start with a document")
            doc, i = self._build(i, rng)
            self.docs.append(doc)

    def _build(self, i, rng):
        nd = self.flat[i]
        kids = []
        j = i + 1
        while j < len(self.flat) and self.flat[j]["d"] > nd["d"]:
            if self.flat[j]["d"] != nd["d"] + 1:
                raise ValueError("bad depth")
            k, j = self._build(j, rng)
            kids.append(k)
        if nd["d"] == 0:
            e = Entry(children=kids)
        else:
            cls = rng.choice([Entry, Entry, Section, Directive])
            attrs = [val(a) for a in nd["a"]]
            e = cls(name=text(nd["n"]), attrs=tuple(attrs) if rng.random() < 0.5 else attrs,
                    children=kids if rng.random() < 0.5 else tuple(kids))
        self.nodes[i + 1] = e
        self.ids[id(e)] = i + 1
        return e, j

    def idx(self, e):
        k = self.ids.get(id(e), 0)
        return k if k and self.nodes[k] is e else 0

    def doc_ids(self):
        return [self.idx(d) for d in self.docs]


# ---------------------------------------------------------------- terms and queries
import itertools
import re

# the raising predicate raises a different kind of exception each time it is built
_BOOMS = itertools.cycle([ValueError, IndexError, ZeroDivisionError, KeyError, re.error, AttributeError, RuntimeError,
                          TypeError, LookupError, ArithmeticError])


def make_boom():
    exc = next(_BOOMS)

    def boom(*a):
        raise exc("boom")
    return boom


FACT = {("eq", False): Q.eq, ("lt", False): Q.lt, ("le", False): Q.le, ("gt", False): Q.gt, ("ge", False): Q.ge,
        ("contains", False): Q.contains, ("startswith", False): Q.startswith, ("endswith", False): Q.endswith,
        ("eq", True): Q.ieq, ("contains", True): Q.icontains, ("startswith", True): Q.istartswith,
        ("endswith", True): Q.iendswith}
PLAIN = {"eq": operator.eq, "lt": operator.lt, "le": operator.le, "gt": operator.gt, "ge": operator.ge,
         "contains": operator.contains, "startswith": str.startswith, "endswith": str.endswith}


def term(toks):
    st = []
    for k in toks:
        if k["op"] == "atom":
            st.append(pred(make_boom()) if k["f"] == "boom" else FACT[(k["f"], bool(k["ci"]))](val(k["arg"])))
        elif k["op"] == "not":
            st.append(~st.pop())
        else:
            b = st.pop()
            a = st.pop()
            st.append((a & b) if k["op"] == "and" else (a | b))
    if len(st) != 1:
        raise ValueError("malformed term")
    return st[0]


def plain_fn(toks):
    """A plain python callable (not a Boolean object) for a single non-caseless atom."""
    k = toks[0]
    if len(toks) != 1 or k["op"] != "atom" or k["ci"]:
        raise ValueError("fn needs a single plain atom")
    if k["f"] == "boom":
        return make_boom()
    f, a = PLAIN[k["f"]], val(k["arg"])
    return lambda v: f(v, a)


def elem(e):
    if e["k"] == "lit":
        return val(e["lit"])
    return term(e["term"]) if e["k"] == "term" else plain_fn(e["term"])


def level(q, rng):
    if q["nk"] == "any":
        name = None
    elif q["nk"] == "lit":
        name = text(q["nlit"])
    elif q["nk"] == "term":
        name = term(q["nterm"])
    else:
        name = plain_fn(q["nterm"])
    am = q["am"]
    if am == "none":
        return (name,) if rng.random() < 0.3 else name
    es = [elem(e) for e in q["aq"]]
    if am == "any":
        if len(es) == 1 and rng.random() < 0.4:
            return (name, any_(es[0]))
        return tuple([name] + es)
    if am == "all":
        return (name, all_(es[0]))
    if am == "nany":
        return (name, ~any_(es[0]))
    return (name, ~all_(es[0]))


# ---------------------------------------------------------------- calls
def call(fn, forest):
    try:
        r = fn()
        return "ok", [forest.idx(c) for c in r.children]
    except Exception as ex:          # noqa: an observation, judged by the spec
        return "crash:" + type(ex).__name__, []


def receiver(forest, rng):
    if len(forest.docs) == 1 and rng.random() < 0.7:
        return forest.docs[0]
    return Result(children=list(forest.docs))


def select_events(forest, case, rng, n, extra=None):
    qs_abs, deep, roots = case["qs"], bool(case["deep"]), bool(case["roots"])
    evs = []

    def rec(via, recv, qsa, d, r, out, res):
        evs.append({"ev": "select", "via": via, "recv": recv, "qs": qsa, "deep": d, "roots": r, "out": out, "res": res})

    docs = forest.doc_ids()
    R = receiver(forest, rng)
    qs = [level(q, rng) for q in qs_abs]
    out, res = call(lambda: R.select(*qs, deep=deep, roots=roots), forest)
    rec("select", docs, qs_abs, deep, roots, out, res)
    main_ok = out == "ok"
    alt = n % 4
    if alt == 0 and deep:
        R = receiver(forest, rng)
        qs = [level(q, rng) for q in qs_abs]
        out, res = call(lambda: R.find(*qs, roots=roots), forest)
        rec("find", docs, qs_abs, True, roots, out, res)
    elif alt == 1 and not deep and not roots:
        R = receiver(forest, rng)
        qs = [level(q, rng) for q in qs_abs]

        def chain():
            r = R
            for q in qs:
                r = r[q]
            return r
        out, res = call(chain, forest)
        rec("getitem", docs, qs_abs, False, False, out, res)
    elif alt == 2 and len(qs_abs) >= 2:
        R = receiver(forest, rng)
        qs = [level(q, rng) for q in qs_abs]
        hold = {}

        def step1():
            hold["r"] = R.select(qs[0])
            return hold["r"]
        out, res = call(step1, forest)
        rec("chain", docs, qs_abs[:1], False, False, out, res)
        if out == "ok" and 0 not in res:
            first = hold["r"]               # the Result object itself is queried again
            if deep and rng.random() < 0.5:
                out2, res2 = call(lambda: first.find(*qs[1:], roots=roots), forest)
            else:
                out2, res2 = call(lambda: first.select(*qs[1:], deep=deep, roots=roots), forest)
            rec("chain", res, qs_abs[1:], deep, roots, out2, res2)
    elif alt == 3:
        qs = [level(q, rng) for q in qs_abs]
        nodes = [c for d in forest.docs for c in d.children]
        out, res = call(lambda: Q.select(compile_queries(*qs), nodes, deep=deep, roots=roots), forest)
        rec("func", docs, qs_abs, deep, roots, out, res)
    # (last: it changes the parent of the documents)
    if roots and extra is not None and main_ok and n % 2 == 0:
        # the same objects, after a roots query, are put under a NEW parentless top entry (as ConfigCombiner /
        # Entry(children=...) do): the ultimate ancestor of every node is now that entry.  Recorded as a
        # trace of its own over the grown forest (new top = node 1, every old node shifted by one).
        top = Entry(children=list(forest.docs))
        qs2 = [level(q, rng) for q in qs_abs]

        def ident(c):
            if c is top:
                return 1
            k = forest.idx(c)
            return k + 1 if k else 0
        try:
            r = top.select(None, *qs2, deep=deep, roots=True)
            out2, res2 = "ok", [ident(c) for c in r.children]
        except Exception as ex:      # noqa
            out2, res2 = "crash:" + type(ex).__name__, []
        anyq = {"nk": "any", "nlit": [], "nterm": [], "am": "none", "aq": []}
        extra.append({"forest": [{"d": 0, "n": [], "a": []}] + [dict(nd, d=nd["d"] + 1) for nd in forest.flat],
                      "events": [{"ev": "select", "via": "reparent", "recv": [1], "qs": [anyq] + qs_abs, "deep": deep,
                                  "roots": True, "out": out2, "res": res2}]})
    return evs


# ---------------------------------------------------------------- predicate objects that are used again
class Session(object):
    """Predicate OBJECTS held by a program: built from fresh leaves (`new`), combined into further objects
    (`combine`: the operands are the objects themselves, not copies) and evaluated / used as queries at any
    point (`otruth`, `oselect`).  Event `obj` numbers are positions in the order of creation."""

    def __init__(self, forest, rng):
        self.forest, self.rng, self.objs, self.evs, self.dead = forest, rng, [], [], False

    def _add(self, ev, build):
        try:
            o, out = build(), "ok"
        except Exception as ex:      # noqa: an observation
            o, out = None, "crash:" + type(ex).__name__
            self.dead = True
        self.objs.append(o)
        self.evs.append(dict(ev, out=out))
        return len(self.objs)

    def new(self, toks):
        return self._add({"ev": "new", "term": toks}, lambda: term(toks))

    def combine(self, op, a, b):
        x, y = self.objs[a - 1], self.objs[b - 1]
        return self._add({"ev": "combine", "op": op, "a": a, "b": b},
                         lambda: (~x) if op == "not" else ((x & y) if op == "and" else (x | y)))

    def otruth(self, i, vals):
        o = self.objs[i - 1]
        ev = {"ev": "otruth", "obj": i, "vals": vals, "test": [], "pyf": [], "out": "ok"}
        try:
            vs = [val(v) for v in vals]
            ev["test"] = [bool(o.test(v)) for v in vs]
            f = o.to_pyfunc()
            ev["pyf"] = [bool(f(v)) for v in vs]
        except Exception as ex:      # noqa
            ev["out"] = "crash:" + type(ex).__name__
            ev["test"] = ev["pyf"] = [False] * len(vals)
        self.evs.append(ev)

    def oselect(self, i, pos, via):
        o = self.objs[i - 1]
        q = o if pos == "name" else (None, o)
        R = receiver(self.forest, self.rng)
        if via == "find":
            out, res = call(lambda: R.find(q), self.forest)
        elif via == "getitem":
            out, res = call(lambda: R[q], self.forest)
        else:
            out, res = call(lambda: R.select(q), self.forest)
        self.evs.append({"ev": "oselect", "obj": i, "pos": pos, "via": via, "recv": self.forest.doc_ids(),
                         "deep": via == "find", "roots": False, "out": out, "res": res})


def reuse_events(case, rng, n):
    """A QueryMC `reuse` case: the base object, one further combination built FROM it, and the base object
    evaluated and used as a query afterwards (sometimes also before)."""
    S = Session(Forest(case["forest"], rng), rng)
    vals = case["vals"]
    b = S.new(case["base"])
    if n % 3 == 0 and not S.dead:
        S.otruth(b, vals)
    if n % 5 == 0 and not S.dead:
        S.oselect(b, "attr" if n % 2 else "name", "select")
    u = b
    if not S.dead:
        if case["op"] == "not":
            d = S.combine("not", b, b)
        else:
            u = S.new(case["other"])
            if not S.dead:
                d = S.combine(case["op"], b, u) if case["side"] == "left" else S.combine(case["op"], u, b)
    if not S.dead:
        S.otruth(d, vals)
        S.otruth(b, vals)
        S.oselect(b, "name" if n % 2 else "attr", ["select", "find", "getitem"][n % 3])
        if n % 4 == 0:
            S.otruth(u, vals)
        if n % 7 == 0:
            S.oselect(d, "attr" if n % 2 else "name", "find")
    return S.evs


def random_session(fl, rng, vals):
    """Beyond the bounds: several objects, a longer random history of combinations, evaluations in between."""
    S = Session(Forest(fl, rng), rng)
    for _ in range(rng.choice([2, 3, 3, 4])):
        S.new(rterm(rng, rng.choice([0, 1, 1]), rng.random() < 0.4))
    for _ in range(rng.randint(4, 9)):
        if S.dead:
            break
        n, r = len(S.objs), rng.random()
        if r < 0.45:
            op = rng.choice(["and", "or", "and", "or", "not"])
            S.combine(op, rng.randint(1, n), rng.randint(1, n))
        elif r < 0.75:
            S.otruth(rng.randint(1, n), vals)
        else:
            S.oselect(rng.randint(1, n), rng.choice(["name", "attr"]), rng.choice(["select", "find", "getitem"]))
    return S.evs


def alphabet_trace(tag):
    """R4: the model transcribes str.lower / str.casefold per character; record the environment's mappings of
    every character this run used (QueryTrace compares; a disagreement is a machinery error)."""
    evs = [{"ev": "alphabet", "c": c, "lower": [ord(x) for x in chr(c).lower()], "fold": [ord(x) for x in chr(c).casefold()]}
           for c in sorted(USED_CHARS)]
    for c in sorted(USED_CHARS):          # the mappings are per character (no context-dependent casing in the alphabet)
        for w in ("a" + chr(c), chr(c) + "a", chr(c) * 2):
            if w.lower() != "".join(x.lower() for x in w) or w.casefold() != "".join(x.casefold() for x in w):
                raise SystemExit("machinery: context-dependent case mapping for character %d" % c)
    return {"id": "alphabet/%s" % tag, "forest": [{"d": 0, "n": [], "a": []}], "events": evs}


def truth_event(case):
    ev = {"ev": "truth", "term": case["term"], "vals": case["vals"], "test": [], "pyf": [], "out": "ok"}
    try:
        vs = [val(v) for v in case["vals"]]
        ev["test"] = [bool(term(case["term"]).test(v)) for v in vs]
        f = term(case["term"]).to_pyfunc()
        ev["pyf"] = [bool(f(v)) for v in vs]
    except Exception as ex:          # noqa
        ev["out"] = "crash:" + type(ex).__name__
        ev["test"] = ev["pyf"] = [False] * len(case["vals"])
    return ev


# ---------------------------------------------------------------- seeded random cases beyond TLC's bounds
STRS = ["x", "X", "y", "xy", "Xy", "yX", "a", "A", "b", "ab", "Ab", "", "xyx", "XYX",
        u"\xdf", "ss", u"\xc9x", u"\xe9X", u"\ufb01", u"a\u03c2"]          # sharp s, E acute, fi ligature, final sigma
NAMES = ["a", "b", "A", "ab", "Ab", "x", u"\xdf", "SS"]
NODE_NAMES = ["a", "b", "A", "ab"] * 3 + [u"\xdf", "SS", "ss"]


def rvalue(rng):
    return sv(rng.choice(STRS)) if rng.random() < 0.6 else iv(rng.randint(0, 4))


def ratom(rng, for_name=False):
    r = rng.random()
    if r < 0.06:
        return [{"op": "atom", "f": "boom", "ci": False, "arg": iv(0)}]
    if r < 0.35:
        f = rng.choice(["eq", "contains", "startswith", "endswith"])
        return [{"op": "atom", "f": f, "ci": True, "arg": sv(rng.choice(NAMES if for_name else STRS))}]
    f = rng.choice(["eq", "lt", "le", "gt", "ge", "contains", "startswith", "endswith"])
    if f in ("contains", "startswith", "endswith") and rng.random() < 0.9:
        arg = sv(rng.choice(NAMES if for_name else STRS))
    elif for_name and rng.random() < 0.8:
        arg = sv(rng.choice(NAMES))
    else:
        arg = rvalue(rng)
    return [{"op": "atom", "f": f, "ci": False, "arg": arg}]


def rterm(rng, depth, for_name=False):
    r = rng.random()
    if depth <= 0 or r < 0.3:
        return ratom(rng, for_name)
    z = {"f": "", "ci": False, "arg": iv(0)}
    if r < 0.5:
        return rterm(rng, depth - 1, for_name) + [dict(z, op="not")]
    return rterm(rng, depth - 1, for_name) + rterm(rng, depth - 1, for_name) + [dict(z, op=rng.choice(["and", "or"]))]


def relem(rng):
    r = rng.random()
    if r < 0.35:
        return {"k": "lit", "lit": rvalue(rng), "term": []}
    if r < 0.9:
        return {"k": "term", "lit": iv(0), "term": rterm(rng, 2)}
    a = ratom(rng)
    while a[0]["ci"]:
        a = ratom(rng)
    return {"k": "fn", "lit": iv(0), "term": a}


def rlevel(rng):
    q = {"nk": "any", "nlit": [], "nterm": [], "am": "none", "aq": []}
    r = rng.random()
    if r < 0.45:
        q["nk"], q["nlit"] = "lit", [ord(c) for c in rng.choice(NAMES)]
    elif r < 0.7:
        q["nk"], q["nterm"] = "term", rterm(rng, 2, True)
    elif r < 0.75:
        a = ratom(rng, True)
        while a[0]["ci"]:
            a = ratom(rng, True)
        q["nk"], q["nterm"] = "fn", a
    r = rng.random()
    if r < 0.45:
        q["am"], q["aq"] = "any", [relem(rng) for _ in range(rng.choice([1, 1, 1, 2, 3]))]
    elif r < 0.6:
        q["am"], q["aq"] = rng.choice(["all", "nany", "nall"]), [relem(rng)]
    return q


def rforest(rng):
    flat = []
    for _ in range(rng.choice([1, 1, 2, 3])):
        flat.append({"d": 0, "n": [], "a": []})
        d = 0
        for _ in range(rng.randint(0, 7)):
            d = rng.randint(1, min(d + 1, 4))
            flat.append({"d": d, "n": [ord(c) for c in rng.choice(NODE_NAMES)],
                         "a": [rvalue(rng) for _ in range(rng.choice([0, 1, 1, 2, 3]))]})
    return flat


# ----------------------------------------------------------------
def main():
    logging.disable(logging.CRITICAL)
    with open(sys.argv[1]) as f:
        inp = json.load(f)
    rng = random.Random(inp.get("seed", 0))
    traces = []
    extra = []
    byforest = {}
    truths = []
    nsel = nobj = 0
    for n, c in enumerate(inp.get("cases", [])):
        if "term" in c:
            truths.append(truth_event(c))
            continue
        if "base" in c:
            traces.append({"id": "%s/%s" % (c.get("part", "reuse"), c.get("id", n)), "forest": c["forest"],
                           "events": reuse_events(c, rng, c.get("id", n))})
            nobj += 1
            continue
        k = json.dumps(c["forest"], sort_keys=True, separators=(",", ":"))
        if k not in byforest:
            byforest[k] = {"id": "%s/%s" % (c.get("part", "tlc"), c.get("id", n)), "forest": c["forest"], "events": []}
            traces.append(byforest[k])
        forest = Forest(c["forest"], rng)           # fresh objects per case
        byforest[k]["events"] += select_events(forest, c, rng, c.get("id", n), extra)
        nsel += 1
    rnd = inp.get("random")
    if rnd:
        r2 = random.Random(rnd["seed"])
        for i in range(rnd["forests"]):
            fl = rforest(r2)
            tr = {"id": "random/%d/%d" % (rnd["seed"], i), "forest": fl, "events": []}
            for j in range(rnd["queries"]):
                case = {"qs": [rlevel(r2) for _ in range(r2.choice([1, 1, 2, 2, 3]))], "deep": r2.random() < 0.5,
                        "roots": r2.random() < 0.3}
                tr["events"] += select_events(Forest(fl, r2), case, r2, r2.randrange(4), extra)
                nsel += 1
            traces.append(tr)
        vals = [sv(s) for s in STRS] + [iv(n) for n in range(0, 4)]
        for i in range(rnd["forests"]):
            fl = rforest(r2)
            traces.append({"id": "session/%d/%d" % (rnd["seed"], i), "forest": fl, "events": random_session(fl, r2, vals)})
            nobj += 1
        for i in range(rnd["terms"]):
            truths.append(truth_event({"term": rterm(r2, r2.choice([2, 3, 3, 4])), "vals": vals}))
    for i, t in enumerate(extra):
        t["id"] = "reparent/%s/%d" % (inp.get("tag", "t"), i)
        traces.append(t)
    dummy = [{"d": 0, "n": [], "a": []}]
    for i in range(0, len(truths), 40):
        traces.append({"id": "truth/%s/%d" % (inp.get("tag", "t"), i), "forest": dummy, "events": truths[i:i + 40]})
    traces.append(alphabet_trace(inp.get("tag", "t")))
    with open(sys.argv[2], "w") as f:
        json.dump({"traces": traces, "stats": {"selects": nsel, "truths": len(truths), "sessions": nobj}}, f,
                  separators=(",", ":"))


if __name__ == "__main__":
    main()
