"""X02: analysis input handling - a path given for analysis becomes an execution context and a broker.
Model: specs/ArchiveContext.tla (reference on path segments + a state machine that is either the
specified behaviour or a transcription of the code's mechanism; TLC checks mechanism |= reference on
every input of the bound), emission wrapper specs/ArchiveContextMC.tla, trace validation
specs/ArchiveContextTrace.tla, driver harness/drive_archivectx.py."""
import collections
import concurrent.futures
import copy
import json
import os
import random
import time

import lib

IC, IA, SOS, JB, PM = "insights_commands", "insights_archive.txt", "sos_commands", "JBOSS_HOME", "plug_marker"
META, ARC, LNF, LND = "meta_data", "n.tar.gz", "lnf", "lnd"
NM_IC, NM_SOS = IC + "_not", SOS + "_not"

INVARIANTS = ["TypeOK", "MarkerPriority", "TriedInOrder", "DefaultWhenNoMarker", "RootInsideInput", "OverrideWins",
              "CreateAllowed", "ListedExactly", "BrokerSeededExactly", "ExtractionStaysInTempDir", "TempDirRemoved",
              "ContextDeterministic", "Ends"]
ACTIONS = ["UseDirectory", "ExtractOK", "ExtractFails", "ExtractRejectsType", "ListFiles", "ClusterDetected", "NoFiles",
           "IdentifyStep", "LocateDefault", "CreateContext", "InitializeBroker", "RaiseInBlock", "Cleanup"]

DEFAULTS = dict(Dirs=["a"], Leaves=["f"], MaxFiles=2, MaxDepth=3, Packs=["dir"], Wraps=[False], Evils=["none"],
                Overrides=["none"], Wheres=["plain"], Injects=["none"], Plugs=["none"], Modes=["api"],
                Spaces=["none"], Mech="code", Admit=[])


def fam(**kw):
    d = dict(DEFAULTS)
    d.update(kw)
    return d


# Every input of a family is enumerated by TLC (all invariants checked on every reachable state of the
# analysis of every input) and emitted; the driver replays every emitted input.
FAMILIES = {
    "quick": collections.OrderedDict([
        # competing markers at every depth, near and far from the top
        ("prio", fam(Dirs=["a", "b", "cc", IC, SOS, JB], Leaves=["f", IA], MaxFiles=2)),
        ("prio3", fam(Dirs=["a", IC, SOS], Leaves=["f", IA], MaxFiles=3)),
        # serialized archives: meta_data documents at / away from the root, explicit contexts
        ("ser", fam(Dirs=["a", META], Leaves=["f", IA, "c1", "c2"], MaxFiles=3,
                    Overrides=["none", "SerializedArchiveContext", "HostArchiveContext"])),
        # links, nested archives, names that merely resemble markers, markers as file names, one top directory
        ("misc", fam(Dirs=["a", NM_IC], Leaves=["f", ARC, LNF, LND, IC, IA], MaxFiles=2, Wraps=[False, True],
                     Overrides=["none", "SosArchiveContext"])),
        # packaging: members in any order, unsafe member names, failure inside the with block
        ("pack", fam(Dirs=["a", IC], Leaves=["f", IA], MaxFiles=2, MaxDepth=2, Packs=["tar", "tgz", "zip"],
                     Wraps=[False, True], Evils=["none", "dotdot", "abs", "link"], Injects=["none", "raise"])),
        ("bad", fam(Dirs=[], Leaves=[], MaxFiles=0, MaxDepth=1, Packs=["text", "badgz", "dir", "tar", "zip"])),
        ("run", fam(Dirs=["a", IC], Leaves=["f", IA], MaxFiles=2, MaxDepth=2, Packs=["dir", "tar", "zip"],
                    Wraps=[False, True], Overrides=["none", "SosArchiveContext"], Modes=["run"])),
        ("plug", fam(Dirs=["a", SOS, PM], Leaves=["f", IA], MaxFiles=2, Plugs=["on"])),
        # the classes of inputs on which the code is known to leave the reference (emitted from the specified
        # mechanism; the transcription of the code is refuted on them by the REFUTE runs below)
        ("tie", fam(Dirs=["a", "b"], Leaves=["f", IA, IC], MaxFiles=2, MaxDepth=3, Mech="intended")),
        ("shadow", fam(Dirs=["a", NM_IC, IC], Leaves=["f", IC], MaxFiles=2, Mech="intended")),
        ("under", fam(Dirs=["a", IC, JB], Leaves=["f", IA], MaxFiles=2, MaxDepth=2, Packs=["dir", "tar"],
                      Wheres=["under"], Mech="intended")),
        ("blank", fam(Dirs=["a"], Leaves=["f", IA], MaxFiles=1, MaxDepth=2, Packs=["tar", "zip"],
                      Spaces=["exdir", "exdirx"], Injects=["none", "raise"], Mech="intended")),
    ]),
}
FAMILIES["thorough"] = collections.OrderedDict(FAMILIES["quick"])
FAMILIES["thorough"].update([
    ("prio", fam(Dirs=["a", "b", "cc", "dddd", IC, SOS, JB], Leaves=["f", IA, IC], MaxFiles=2)),
    ("prio3", fam(Dirs=["a", "b", IC, SOS, JB], Leaves=["f", IA], MaxFiles=3)),
    ("ser", fam(Dirs=["a", META, SOS], Leaves=["f", IA, "c1", "c2"], MaxFiles=3,
                Overrides=["none", "SerializedArchiveContext", "HostArchiveContext", "HostContext"])),
    ("misc", fam(Dirs=["a", NM_IC, NM_SOS, SOS], Leaves=["f", ARC, LNF, LND, IC, IA], MaxFiles=2, Wraps=[False, True],
                 Overrides=["none", "SosArchiveContext", "JDRContext"])),
    ("pack", fam(Dirs=["a", IC], Leaves=["f", IA, ARC], MaxFiles=2, MaxDepth=2,
                 Packs=["tar", "tgz", "tbz", "txz", "zip"], Wraps=[False, True],
                 Evils=["none", "dotdot", "abs", "link"], Injects=["none", "raise"])),
    ("pack3", fam(Dirs=["a", "b", SOS], Leaves=["f", IA], MaxFiles=3, MaxDepth=2, Packs=["tgz", "zip"],
                  Wraps=[False, True], Overrides=["none", "HostArchiveContext"])),
    ("run", fam(Dirs=["a", IC, META], Leaves=["f", IA, "c1"], MaxFiles=3, MaxDepth=2, Packs=["dir", "tar", "tgz", "zip"],
                Wraps=[False, True], Overrides=["none", "SosArchiveContext"], Modes=["run"])),
    ("plug", fam(Dirs=["a", SOS, PM, IC], Leaves=["f", IA], MaxFiles=2, Plugs=["on"], Packs=["dir", "tgz"])),
    ("tie", fam(Dirs=["a", "b", "cc", SOS], Leaves=["f", IA, IC], MaxFiles=3, MaxDepth=2, Mech="intended")),
    ("under", fam(Dirs=["a", IC, JB], Leaves=["f", IA], MaxFiles=2, MaxDepth=2, Packs=["dir", "tar", "zip"],
                  Wheres=["under"], Modes=["api", "run"], Mech="intended")),
])

# the same universe with the SPECIFIED mechanism, every class of inputs included: all invariants hold
DESIGN = fam(Dirs=["a", "b", IC, NM_IC], Leaves=["f", IA, ARC], MaxFiles=2, MaxDepth=2, Packs=["dir", "tar", "text", "badgz"],
             Wraps=[False, True], Evils=["none", "dotdot"], Overrides=["none", "SosArchiveContext"],
             Wheres=["plain", "under"], Injects=["none", "raise"], Spaces=["none", "exdir", "exdirx"], Mech="intended")
# the transcription of the code on the classes of inputs it is known to mishandle: TLC must refute these
REFUTE = collections.OrderedDict([
    ("tie", ("F_Deterministic", "ContextDeterministic",
             fam(Dirs=["a", "b"], Leaves=["f", IA], MaxFiles=2, MaxDepth=2, Admit=["tie"]))),
    ("shadow", ("F_MarkerSeen", "MarkerPriority",
                fam(Dirs=[NM_IC, IC], Leaves=["f"], MaxFiles=1, Admit=["shadow"]))),
    ("under", ("F_RootInside", "RootInsideInput",
               fam(Dirs=["a"], Leaves=["f"], MaxFiles=1, MaxDepth=2, Wheres=["under"], Admit=["under"]))),
    ("blank", ("F_TempRemoved", "TempDirRemoved",
               fam(Dirs=[], Leaves=["f"], MaxFiles=1, MaxDepth=1, Packs=["tar"], Spaces=["exdir"], Admit=["blank"]))),
    ("blankx", ("F_StaysInside", "ExtractionStaysInTempDir",
                fam(Dirs=[], Leaves=["f"], MaxFiles=1, MaxDepth=1, Packs=["zip"], Spaces=["exdirx"], Admit=["blank"]))),
])

HASHSEEDS = {"quick": [1, 2, 3], "thorough": [1, 2, 3, 4, 5, 6, 7, 8]}
REPS = {"quick": 2, "thorough": 3}

ASSUMPTIONS = [
    "inputs are trees of at most 3 files with paths of at most 3 segments over the listed names (see FAMILIES in "
    "harness/p_archivectx.py); file contents never matter except for meta_data documents, which are written by the "
    "real Hydration.dehydrate for two driver-defined components",
    "the scratch prefix itself contains no marker-like or blank segment (asserted by the driver); the model's W stands for it",
    "archives are built with Python's tarfile / zipfile from the abstract member list (order and explicit directory "
    "members drawn from VERIF_SEED) and extracted by the code under test with the system's tar / unzip; names aimed "
    "outside the extraction directory resolve inside the case directory even if honoured",
    "what a tool does with an unsafe member name (refuse / strip) is left open by the specification; only 'nothing "
    "outside the extraction directory' and 'the directory is gone afterwards' are demanded",
    "'closest to root' is read as: no other marker root is an ancestor of the chosen one; which of several unrelated "
    "roots is taken is left open but must not vary between runs (ContextDeterministic)",
    "cluster processing (process_cluster) is not run: pandas / ansible are not installed; create_context and "
    "initialize_broker are observed for nested archives",
    "determinism is observed over PYTHONHASHSEED values %s and shuffled listing orders, not over all of them",
]


def tla_val(v):
    if isinstance(v, bool):
        return "TRUE" if v else "FALSE"
    if isinstance(v, int):
        return str(v)
    if isinstance(v, str):
        return '"%s"' % v
    return "{" + ", ".join(tla_val(x) for x in v) + "}"


def cfg_text(consts, invariants, emit, spec="Spec"):
    lines = ["SPECIFICATION %s" % spec, "CONSTANTS"]
    for k in ("Dirs", "Leaves", "MaxFiles", "MaxDepth", "Packs", "Wraps", "Evils", "Overrides", "Wheres", "Injects",
              "Plugs", "Modes", "Spaces", "Mech", "Admit"):
        lines.append("  %s = %s" % (k, tla_val(consts[k])))
    lines += ["INVARIANT %s" % i for i in invariants]
    if emit:
        lines.append("CONSTRAINT Emit")
    lines.append("CHECK_DEADLOCK FALSE")
    return "\n".join(lines) + "\n"


def write_cfgs():
    """Static copies of the quick-tier configurations in specs/ (documentation; the check generates its own)."""
    for name, c in FAMILIES["quick"].items():
        with open(os.path.join(lib.SPECS, "ArchiveContextMC_%s.cfg" % name), "w") as f:
            f.write(cfg_text(c, INVARIANTS, True))
    with open(os.path.join(lib.SPECS, "ArchiveContext_design.cfg"), "w") as f:
        f.write(cfg_text(DESIGN, INVARIANTS, False))
    for name, (inv, _, c) in REFUTE.items():
        with open(os.path.join(lib.SPECS, "ArchiveContextMC_refute_%s.cfg" % name), "w") as f:
            f.write("\\* the transcription of the code on the '%s' inputs: TLC is EXPECTED to refute %s\n" % (name, inv)
                    + cfg_text(c, [inv], False))


def families(tier):
    """The tier's families, without the packagings whose tools this machine lacks (noted in the evidence)."""
    import shutil
    for t in ("tar", "unzip", "gzip"):
        if not shutil.which(t):
            raise lib.MachineryError("the code under test extracts with %s, which is not installed" % t)
    drop = [pk for pk, tool in (("tbz", "bzip2"), ("txz", "xz")) if not shutil.which(tool)]
    fams = collections.OrderedDict()
    for name, c in FAMILIES[tier].items():
        c = dict(c)
        c["Packs"] = [pk for pk in c["Packs"] if pk not in drop]
        fams[name] = c
    return fams, drop


def model_runs(tier, fams):
    gen = lib.subdir("x02cfg")
    jobs = []

    def wr(name, text):
        p = os.path.join(gen, name)
        with open(p, "w") as f:
            f.write(text)
        return p

    jobs.append(("design", "ArchiveContext", wr("design.cfg", cfg_text(DESIGN, INVARIANTS, False)),
                 dict(workers=4, coverage=True), True))
    for name, c in fams.items():
        jobs.append((name, "ArchiveContextMC", wr("mc_%s.cfg" % name, cfg_text(c, INVARIANTS, True)),
                     dict(workers=2, raw_cases=True), True))
    for name, (inv, _, c) in REFUTE.items():
        jobs.append(("refute-" + name, "ArchiveContextMC", wr("refute_%s.cfg" % name, cfg_text(c, [inv], False)),
                     dict(workers=1), False))

    def one(job):
        name, module, cfgp, kw, must_hold = job
        r = lib.run_tlc(module, cfgp, tag="x02-" + name, timeout=1800, **kw)
        if must_hold:
            lib.require_ok(r, "%s %s" % (module, name))
        return name, r

    res = collections.OrderedDict()
    with concurrent.futures.ThreadPoolExecutor(max_workers=4) as ex:
        for name, r in ex.map(one, jobs):
            res[name] = r
    refuted = {}
    for name, (inv, stated, _) in REFUTE.items():
        r = res["refute-" + name]
        if r.violation != inv:
            raise lib.MachineryError("the transcription of the code on '%s' inputs was expected to violate %s; TLC says "
                                     "violation=%s error=%s\n%s" % (name, inv, r.violation, r.error,
                                                                   "\n".join(r.out.splitlines()[-30:])))
        refuted[name] = dict(invariant=stated, refuted=True, states=r.generated)
    missing = [a for a in ACTIONS if not res["design"].coverage.get(a)]
    if missing:
        raise lib.MachineryError("vacuity: actions never taken in the design model: %s" % missing)
    return res, refuted


def collect_cases(fams, res):
    cases, emitted = [], {}
    for name in fams:
        lines = sorted(set(res[name].cases))
        res[name].cases = []
        emitted[name] = len(lines)
        for i, line in enumerate(lines):
            c = lib.parse_case(line)
            c["id"] = "%s#%d" % (name, i)
            c["fam"] = name
            cases.append(c)
    return cases, emitted


def execute(cases, tier):
    base = lib.subdir("x02w")
    jobs = 4 if lib.NCPU <= 8 else 8
    payloads, seeds, kinds = [], [], []
    n = 0
    for plug in ("none", "on"):
        mine = [c for c in cases if c["plug"] == plug]
        if not mine:
            continue
        heavy = [c for c in mine if c["pack"] != "dir" or c["mode"] == "run"]
        lightw = [c for c in mine if not (c["pack"] != "dir" or c["mode"] == "run")]
        for group, k in ((heavy, jobs * 2), (lightw, jobs)):
            for ch in lib.chunks(group, k):
                if ch:
                    n += 1
                    payloads.append(dict(base=os.path.join(base, "p%d" % n), seed=lib.seed() * 1000 + n, plug=plug,
                                         cases=ch))
                    seeds.append(0)
                    kinds.append("primary")
        # determinism: the same inputs as directories in interpreters with other hash seeds, shuffled listings
        det = [c for c in mine if c["evil"] == "none" and c["space"] == "none" and c["pack"] not in ("text", "badgz")
               and c["files"]]
        for hs in HASHSEEDS[tier]:
            for ch in lib.chunks(det, 2):
                if ch:
                    n += 1
                    payloads.append(dict(base=os.path.join(base, "p%d" % n), seed=lib.seed() * 1000 + n, plug=plug,
                                         light=True, reps=REPS[tier], cases=ch))
                    seeds.append(hs)
                    kinds.append("light")
    outs = [None] * len(payloads)
    with concurrent.futures.ThreadPoolExecutor(max_workers=jobs) as ex:
        futs = {ex.submit(lib.run_driver, "drive_archivectx.py", p, seeds[i], 1500): i for i, p in enumerate(payloads)}
        for f in concurrent.futures.as_completed(futs):
            outs[futs[f]] = f.result()
    traces, stats, idents, tools = [], collections.Counter(), collections.defaultdict(list), {}
    runs = collections.Counter()
    for o, kind in zip(outs, kinds):
        tools.update(o.get("tools", {}))
        for k, v in o["stats"].items():
            stats[k] += v
        traces.extend(o["traces"])
        for cid, rs in o["idents"].items():
            runs[cid] += 1
            for r in rs:
                if r not in idents[cid]:
                    idents[cid].append(r)
    return traces, dict(stats), idents, runs, tools


def attach_same(traces, idents, runs):
    """One `same` event per input: the distinct (class, root) results of all its runs.  Collecting them is
    not a judgement; whether more than one is acceptable is the trace specification's business."""
    n = 0
    for t in traces:
        rs = list(idents.get(t["id"], []))
        if not rs:
            continue
        for e in t["events"]:
            if e["ev"] in ("create", "seed") and e["ok"] and "len" in e:
                r = [e["cls"], e["up"], e["down"], e["len"]]
                if r not in rs:
                    rs.append(r)
        t["events"].append(dict(ev="same", runs=runs[t["id"]] + 1, results=rs))
        n += 1
    return n


# ---------------------------------------------------------------------------
# binding self-test (R5): recorded traces with ONE observation corrupted must be rejected
# ---------------------------------------------------------------------------

SELFTESTS = ["tries-swapped", "hit-dropped", "root-one-up", "default-class", "default-root", "override-ignored",
             "wrong-class", "file-unlisted", "file-invented", "context-not-seeded", "stray-key", "other-instance",
             "not-hydrated", "foreign-hydrated", "written-outside", "tmp-left", "left-outside", "runs-differ"]


def selftests(traces):
    want, out = {}, []

    def add(tag, t, i, clause, mutate):
        if "selftest/" + tag in want:
            return
        assert tag in SELFTESTS, tag
        c = copy.deepcopy(t)
        c["id"] = "selftest/" + tag
        mutate(c["events"][i])
        want[c["id"]] = (i + 1, clause, t["id"])
        out.append(c)

    for t in traces:
        inp = t["inp"]
        if inp["evil"] != "none" or inp["space"] != "none" or inp["where"] != "plain":
            continue
        for i, e in enumerate(t["events"]):
            ev = e["ev"]
            if ev == "identify" and len(e["tries"]) >= 6 and e["tries"][-1]["hit"]:
                add("tries-swapped", t, i, "MarkerPriority:classes-not-tried",
                    lambda x: x["tries"].__setitem__(slice(0, 2), [x["tries"][1], x["tries"][0]]))
                add("hit-dropped", t, i, "MarkerPriority:marker-missed", lambda x: x["tries"][-1].update(hit=False))
                if e["tries"][-1]["down"]:
                    add("root-one-up", t, i, "MarkerPriority:",
                        lambda x: x["tries"][-1].update(down=x["tries"][-1]["down"][:-1]))
            if ev == "identify" and e["ret"]["ok"] and not any(x["hit"] for x in e["tries"]):
                add("default-class", t, i, "DefaultWhenNoMarker:class", lambda x: x["ret"].update(cls="SosArchiveContext"))
                add("default-root", t, i, "DefaultWhenNoMarker:root",
                    lambda x: x["ret"].update(down=x["ret"]["down"] + ["zz"]))
            if ev == "create" and e["ok"] and inp["override"] != "none" and e["cls"] == inp["override"]:
                add("override-ignored", t, i, "OverrideWins:class", lambda x: x.update(cls="HostArchiveContext"
                    if x["cls"] != "HostArchiveContext" else "SosArchiveContext"))
            if ev == "create" and e["ok"] and inp["override"] == "none" and e["cls"] == "SosArchiveContext":
                add("wrong-class", t, i, "MarkerPriority:wrong-class", lambda x: x.update(cls="HostArchiveContext"))
            if ev == "list" and len(e["files"]) >= 2:
                add("file-unlisted", t, i, "ListedExactly:file-missing", lambda x: x.update(files=x["files"][1:]))
                add("file-invented", t, i, "ListedExactly:extra-file", lambda x: x.update(files=x["files"] + [["zz"]]))
            if ev == "seed" and e["ok"] and e["keys"]:
                add("context-not-seeded", t, i, "BrokerSeededExactly:context-missing",
                    lambda x: x.update(keys=[k for k in x["keys"] if k != x["cls"]]))
                add("stray-key", t, i, "BrokerSeededExactly:extra-key", lambda x: x.update(keys=x["keys"] + ["other:z"]))
                add("other-instance", t, i, "BrokerSeededExactly:not-the-returned-context",
                    lambda x: x.update(same_ctx=False))
                if "c1" in e["keys"]:
                    add("not-hydrated", t, i, "BrokerSeededExactly:component-not-hydrated",
                        lambda x: x.update(keys=[k for k in x["keys"] if k != "c1"]))
                elif e["cls"] == "SerializedArchiveContext":
                    add("foreign-hydrated", t, i, "BrokerSeededExactly:component-of-another-directory-hydrated",
                        lambda x: x.update(keys=x["keys"] + ["c1"]))
            if ev == "extract" and e["ok"]:
                add("written-outside", t, i, "ExtractionStaysInTempDir:during-extraction",
                    lambda x: x.update(outside=["+exd/sib/x"]))
            if ev == "cleanup" and inp["pack"] != "dir":
                add("tmp-left", t, i, "TempDirRemoved:", lambda x: x.update(tmp_exists=True))
                add("left-outside", t, i, "ExtractionStaysInTempDir:after-cleanup", lambda x: x.update(outside=["+exd/x"]))
            if ev == "same" and len(e["results"]) == 1:
                add("runs-differ", t, i, "ContextDeterministic:",
                    lambda x: x.update(results=x["results"] + [[x["results"][0][0], 0, ["zz"], x["results"][0][3]]]))
    return out, want, len(SELFTESTS) - len(want)


def check_selftests(val, want):
    mine = [r for r in val["rejected"] if r["id"].startswith("selftest/")]
    val["rejected"] = [r for r in val["rejected"] if not r["id"].startswith("selftest/")]
    bad = set(r["id"] for r in val["rejected"])
    done = 0
    for tid, (line, clause, base) in sorted(want.items()):
        if base in bad:
            continue          # the recorded trace itself is rejected (code under test broken): not a usable base
        if not any(r["id"] == tid and r["line"] == line and r["clause"].startswith(clause) for r in mine):
            raise lib.MachineryError("self-test: corrupted trace %s was not rejected at event %d by %s (got %s)"
                                     % (tid, line, clause, [r for r in mine if r["id"] == tid]))
        done += 1
    return done


def describe(inp):
    files = ["/".join(p) for p in inp["files"]] or ["(no files)"]
    s = "files {%s}" % ", ".join(sorted(files))
    s += " as %s" % ("a directory" if inp["pack"] == "dir" else inp["pack"])
    for k, dflt in (("wrap", False), ("evil", "none"), ("override", "none"), ("where", "plain"), ("inject", "none"),
                    ("plug", "none"), ("mode", "api"), ("space", "none")):
        if inp[k] != dflt:
            s += ", %s=%s" % (k, inp[k])
    return s


def features(t):
    """Which clause antecedents an input exercises (vacuity accounting and the non-triviality rule only)."""
    inp = t["inp"]
    f = set()
    marks = set()
    for p in inp["files"]:
        for s in p:
            if s in (IC, IA, SOS, JB, PM):
                marks.add(s)
    if len(marks) >= 2:
        f.add("competing-markers")
    if len(marks) == 1:
        f.add("one-marker")
    if not marks and inp["files"]:
        f.add("no-marker")
    for e in t["events"]:
        if e["ev"] == "identify":
            roots = set()
            if e["tries"] and e["tries"][-1]["hit"]:
                f.add("marker-hit")
        if e["ev"] == "seed" and e["ok"]:
            if e["cls"] == "ClusterArchiveContext":
                f.add("cluster")
            if any(k in ("c1", "c2") for k in e["keys"]):
                f.add("hydrated")
            if e["cls"] == "SerializedArchiveContext" and not any(k in ("c1", "c2") for k in e["keys"]) and \
                    any(META in p for p in inp["files"]):
                f.add("meta_data-elsewhere-not-hydrated")
        if e["ev"] == "extract":
            f.add("extracted" if e["ok"] else "extraction-failed")
        if e["ev"] == "cleanup" and e["left"] != "none":
            f.add("left-by-exception:" + e["left"])
        if e["ev"] == "same" and e["runs"] > 1:
            f.add("several-runs")
    if inp["override"] != "none":
        f.add("override")
    if inp["evil"] != "none":
        f.add("unsafe-member:" + inp["evil"])
    if any(p[-1] in (LNF, LND) for p in inp["files"]):
        f.add("symlink")
    if inp["wrap"]:
        f.add("one-top-directory")
    if inp["mode"] == "run":
        f.add("insights._run")
    if inp["plug"] == "on":
        f.add("plugin-contexts")
    if not inp["files"]:
        f.add("empty")
    return f


REQUIRED = ["competing-markers", "one-marker", "no-marker", "marker-hit", "cluster", "hydrated",
            "meta_data-elsewhere-not-hydrated", "extracted", "extraction-failed", "left-by-exception:Injected",
            "left-by-exception:InvalidArchive", "left-by-exception:CalledProcessError",
            "left-by-exception:InvalidContentType", "several-runs", "override", "unsafe-member:dotdot",
            "unsafe-member:abs", "unsafe-member:link", "symlink", "one-top-directory", "insights._run",
            "plugin-contexts", "empty"]


def judge(prop, verdict, val, traces, cases):
    bytrace = dict((t["id"], t) for t in traces)
    bycase = dict((c["id"], c) for c in cases)
    for rj in sorted(val["rejected"], key=lambda r: (r["id"], r["line"])):
        t = bytrace[rj["id"]]
        ev = t["events"][rj["line"] - 1]
        what = "%s: event %d (%s) violates %s; observed %s" % (
            describe(t["inp"]), rj["line"], ev["ev"], rj["clause"],
            json.dumps(dict((k, v) for k, v in ev.items() if k not in ("ev",)), sort_keys=True)[:600])
        verdict.reject(lib.sig(prop, rj["clause"]), what, dict(case=bycase.get(rj["id"]), trace=t, rejected=rj))


def run(prop, tier):
    verdict = lib.Verdict(prop, tier)
    t0 = time.time()
    fams, dropped = families(tier)
    res, refuted = model_runs(tier, fams)
    cases, emitted = collect_cases(fams, res)
    models = [r for n, r in res.items() if not n.startswith("refute-")]
    print("timing: models %.1fs (%d states in %d runs), %d inputs to replay %s"
          % (time.time() - t0, sum(m.distinct for m in models), len(models), len(cases), emitted))
    t1 = time.time()
    traces, stats, idents, runs, tools = execute(cases, tier)
    print("timing: driver %.1fs, %d traces, %s" % (time.time() - t1, len(traces), stats))
    if len(traces) != len(cases):
        raise lib.MachineryError("driver returned %d traces for %d inputs" % (len(traces), len(cases)))
    nsame = attach_same(traces, idents, runs)
    t1 = time.time()
    corrupted, want, lacking_self = selftests(traces)
    val = lib.validate_traces("ArchiveContextTrace", "ArchiveContextTrace.cfg", traces + corrupted,
                              jobs=4 if lib.NCPU <= 8 else 8)
    print("timing: validation %.1fs (%d events, %d JVMs)" % (time.time() - t1, val["events"], val["jvms"]))
    nself = check_selftests(val, want)
    val["traces"] -= len(corrupted)
    judge(prop, verdict, val, traces, cases)
    if lacking_self and not verdict.violations:
        raise lib.MachineryError("self-test: no recorded trace to corrupt for %d of the planned mutations (have %s)"
                                 % (lacking_self, sorted(want)))
    counts = collections.Counter()
    nontrivial = set()
    classes = collections.Counter()       # the model's own classification of the emitted inputs (evidence only)
    for c in cases:
        for k in c.get("classes") or []:
            classes[k] += 1
    for t in traces:
        fs = features(t)
        for f in fs:
            counts[f] += 1
        if fs & {"competing-markers", "override", "hydrated", "cluster", "extracted", "extraction-failed", "symlink",
                 "meta_data-elsewhere-not-hydrated"} or any(f.startswith(("unsafe-member", "left-by-exception")) for f in fs):
            nontrivial.add(json.dumps(t["inp"], sort_keys=True))
    lacking = [k for k in REQUIRED if not counts.get(k)]
    if lacking and not verdict.violations:
        raise lib.MachineryError("vacuity: clause antecedents never exercised by a replayed input: %s" % lacking)
    if not stats.get("r4_archives"):
        raise lib.MachineryError("vacuity: no archive was cross-checked (R4)")
    samples = [describe(t["inp"]) for t in traces[:2]] + [traces[len(traces) // 2]] if traces else []
    ev = lib.evidence(
        prop, tier, models, val, evaluations=len(traces) + sum(runs.values()), distinct_nontrivial=len(nontrivial),
        rule="model: every input of each family (tree of <= MaxFiles files over Dirs x Leaves, depth <= MaxDepth, x "
             "packaging x top directory x unsafe member x explicit context x location x injected failure x plugin "
             "contexts x entry point), every reachable state of its analysis, invariants = the reference statements "
             "checked on the transcription of the code (Mech=code) and on the specified mechanism (design run); "
             "replay: EVERY emitted input is materialised (real files / tar / zip) and run through the real functions, "
             "each trace is judged event by event by TLC (ArchiveContextTrace); every input without unsafe member is "
             "also run as a directory under %d other PYTHONHASHSEEDs x %d shuffled listing orders (same event); "
             "evaluations = traces + those extra runs; distinct_nontrivial = distinct inputs with competing markers, an "
             "explicit context, hydrated components, nested archives, a symbolic link, a real extraction, an unsafe "
             "member or an exception leaving the with block" % (len(HASHSEEDS[tier]), REPS[tier]),
        samples=samples, assumptions=[a % HASHSEEDS[tier] if "%s" in a else a for a in ASSUMPTIONS],
        extra=dict(inputs_emitted=emitted, driver_stats=stats, antecedents_exercised=dict(counts),
                   model_action_coverage=res["design"].coverage, code_transcription_refuted_on=refuted,
                   selftest_corrupted_traces_rejected=nself, same_events=nsame, tools=tools,
                   inputs_in_known_defect_classes=dict(classes), packagings_skipped_for_lack_of_tools=dropped,
                   clauses=["ContextDeterministic", "MarkerPriority", "DefaultWhenNoMarker", "OverrideWins",
                            "ExtractionStaysInTempDir", "TempDirRemoved", "BrokerSeededExactly", "RootInsideInput",
                            "ListedExactly"],
                   exhaustive=False))
    return verdict.finish(ev)


def replay(prop, path):
    with open(path) as f:
        rec = json.load(f)
    case = (rec.get("replay") or {}).get("case")
    if not case:
        print(json.dumps(rec, indent=1)[:20000])
        return 0
    traces, _, idents, runs, _ = execute([case], "quick")
    attach_same(traces, idents, runs)
    val = lib.validate_traces("ArchiveContextTrace", "ArchiveContextTrace.cfg", traces, jobs=1)
    print(json.dumps(dict(case=case, trace=traces[0], rejected=val["rejected"]), indent=1))
    known = set(k["signature"] for k in lib.load_known() if k.get("property") == prop and k.get("status") == "open")
    for r in val["rejected"]:
        tag = "KNOWN-FINDING" if lib.sig(prop, r["clause"]) in known else "VIOLATION"
        print("%s property=%s event %d clause %s" % (tag, prop, r["line"], r["clause"]))
    return 1 if any(lib.sig(prop, r["clause"]) not in known for r in val["rejected"]) else 0
