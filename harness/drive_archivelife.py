"""Driver for ArchiveLife (X06): replay the call histories TLC emitted against the REAL
insights.client.archive.InsightsArchive inside a fresh sandbox directory per history, and record,
after every call, what the call answered and the projection of the sandbox onto the locations
of specs/ArchiveLife.tla.  Contains no oracle: the records are judged by
specs/ArchiveLifeTrace.tla.  The only comparisons made here are R4 self-checks of the harness'
own concretise / project functions (initial world, environment steps, tar reader vs. real tar).

Every path the class uses is pointed into the sandbox <base> of the driver process (a temporary
directory below the scratch directory): per history a fresh world <root> = <base>/w*, with
constants.insights_tmp_path -> <root>/var/tmp, the object's keep_archive_dir (and
constants.cache_dir) -> <root>/var/cache/insights-client, the working directory -> <root>/cwd;
per process the files to copy from (<base>/src) and PATH -> <base>/bin (links to the real tar /
gzip / bzip2 / xz).  While a method of the class runs, an audit hook refuses (and records) every
file-system write whose target is outside <base>, and every copytree whose source is outside
<base>; nothing outside the sandbox can be created or removed by the code under test, whatever
it does.

usage: drive_archivelife.py <in.json> <out.json>
in : {"cases":[{"id","cfg":{comp,keep},"init":{planted,keepdir,tool},"steps":[{op,x,y},..]}], "seed": n}
out: {"traces":[{"id","cfg","init","events"}], "stats":{..}}
"""
import json
import logging
import lzma
import os
import random
import re
import shutil
import signal as signal_mod
import stat
import subprocess
import sys
import tarfile
import tempfile
import time
import zlib

from insights.client import archive as A
from insights.client.config import InsightsConfig
from insights.client.constants import InsightsConstants as constants

PREFIX = "insights-client-"                 # documented: mkdtemp(prefix=insights_tmp_prefix + '-')
EXT = {"gz": ".tar.gz", "bz2": ".tar.bz2", "xz": ".tar.xz", "none": ".tar"}     # documented file names
TOOLS = ("gzip", "bzip2", "xz")
PREV_KINDS = ("old", "recent", "other", "link", "victim", "keptold")
DAY = 24 * 3600
OLD_KEPT = "insights-oldhost.example.org-20200101000000.tar.gz"
META_REL = "meta/x06/branch_info.json"
PATH_REL = "data/x06/etc/hosts"
# (no label of these can occur by chance in insights-<14 digits>-<6 hex digits>)
HOSTS = {"short": ["host1", "dbsrv7", "node-3"],
         "fqdn": ["web-01.example.com", "alpha.b.example.org", "x1.prod.corp.example"]}


class HarnessError(Exception):
    pass


# ---------------------------------------------------------------------------
# audit hook: the sandbox guard (safety) and the observation of attempted escapes
# ---------------------------------------------------------------------------
class Guard(object):
    root = None
    armed = False
    esc = []          # labels of refused writes outside the sandbox
    reads = []        # labels of refused bulk reads from outside the sandbox
    tar_runs = 0
    errors = []

    # event -> indexes of the arguments that name a location written to
    WRITES = {"os.mkdir": (0,), "os.rmdir": (0,), "os.remove": (0,), "os.rename": (0, 1), "os.symlink": (1,),
              "os.link": (1,), "os.chmod": (0,), "os.chown": (0,), "os.truncate": (0,), "os.utime": (0,),
              "shutil.copyfile": (1,), "shutil.copytree": (1,), "shutil.rmtree": (0,), "shutil.move": (0, 1),
              "shutil.copymode": (1,), "shutil.copystat": (1,), "shutil.chown": (0,), "shutil.make_archive": (0,),
              "tempfile.mkdtemp": (0,), "tempfile.mkstemp": (0,)}
    DIRFD = {"os.mkdir": 2, "os.rmdir": 1, "os.remove": 1, "os.chmod": 2, "os.utime": 3}


def _inside(path):
    if isinstance(path, bytes):
        path = os.fsdecode(path)
    if not isinstance(path, str):
        try:
            path = os.fspath(path)
        except TypeError:
            return True                 # a file descriptor: opened earlier, checked then
    p = os.path.abspath(path)
    return p == Guard.root or p.startswith(Guard.root + os.sep)


def _hook(event, args):
    if not Guard.armed:
        return
    try:
        bad = None
        if event in Guard.WRITES:
            i = Guard.DIRFD.get(event)
            if i is not None and len(args) > i and args[i] is not None:
                return                  # relative to an open directory (inside rmtree): the top was checked
            for j in Guard.WRITES[event]:
                if j < len(args) and args[j] is not None and not _inside(args[j]):
                    bad = ("esc", event)
            if event == "shutil.copytree" and not _inside(args[0]):
                bad = bad or ("reads", "copytree-from-outside")
        elif event == "open":
            path, mode, flags = args[0], args[1], args[2]
            if isinstance(flags, int) and flags & (os.O_WRONLY | os.O_RDWR | os.O_CREAT | os.O_TRUNC | os.O_APPEND):
                if not isinstance(path, int) and not _inside(path):
                    bad = ("esc", "open-for-writing")
        elif event == "subprocess.Popen":
            exe, argv, cwd = args[0], args[1], args[2]
            if os.path.basename(str(exe)) == "tar" or (argv and os.path.basename(str(argv[0])) == "tar"):
                Guard.tar_runs += 1
            if cwd is not None and not _inside(cwd):
                bad = ("esc", "subprocess-cwd")
            for a in list(argv or [])[1:]:
                if isinstance(a, (str, bytes)) and os.path.isabs(a) and not _inside(a):
                    bad = ("esc", "subprocess-argument")
    except Exception as ex:             # a bug of the hook must not look like behaviour of the code
        Guard.errors.append("%s: %r" % (event, ex))
        return
    if bad:
        getattr(Guard, bad[0]).append(bad[1] + ":outside-sandbox" if bad[0] == "esc" else bad[1])
        raise PermissionError("x06 sandbox guard: %s %r refused" % (event, args[:2]))


class Recorder(object):
    """stands in for the atexit module / the signal function inside archive.py"""

    def __init__(self):
        self.atexit = []
        self.signals = []

    def register(self, func, *args, **kwargs):
        self.atexit.append((func, args, kwargs))
        return func

    def unregister(self, func):
        self.atexit = [e for e in self.atexit if e[0] != func]

    def signal(self, signum, handler):
        self.signals.append((signum, handler))
        return signal_mod.SIG_DFL


def write(path, data, mode="w"):
    d = os.path.dirname(path)
    if not os.path.isdir(d):
        os.makedirs(d)
    with open(path, mode) as f:
        f.write(data)


def set_age(path, seconds):
    t = time.time() - seconds
    os.utime(path, (t, t), follow_symlinks=False)


def tree_sig(top):
    """names, kinds, sizes, inodes and modification times of everything below top (harness areas
    that must stay as planted: also a rewrite with the same bytes shows)"""
    def one(rel, p):
        try:
            s = os.lstat(p)
        except OSError:
            return (rel, "absent", 0, 0, 0)
        return (rel, stat.S_IFMT(s.st_mode), s.st_size, s.st_ino, s.st_mtime_ns if not stat.S_ISDIR(s.st_mode) else 0)
    out = [one("", top)]
    if os.path.isdir(top) and not os.path.islink(top):
        for dp, dn, fn in os.walk(top):
            for n in dn + fn:
                p = os.path.join(dp, n)
                out.append(one(p[len(top):], p))
    return sorted(out)


class Sources(object):
    """Per driver process: the files the calls copy from (<base>/src) and the directory PATH points
    to (<base>/bin).  The code under test has no business writing there; every projection compares
    the source tree with its signature, and a world that finds it damaged rebuilds it."""

    def __init__(self, base, rng, realtools):
        self.base, self.rng, self.realtools = base, rng, realtools
        self.src = os.path.join(base, "src")
        self.bin = os.path.join(base, "bin")
        self.build()

    def build(self):
        rng = self.rng
        for d in (self.src, self.bin):
            if os.path.lexists(d):
                shutil.rmtree(d)
            os.makedirs(d)
        tag = "%08x" % rng.getrandbits(32)
        self.srcpath = {"f1": os.path.join(self.src, "etc", "f1-%s.conf" % tag),
                        "f2": os.path.join(self.src, "etc", "sub dir", "f2.conf"),      # a blank in the path
                        "g1": os.path.join(self.src, "globs", "g.1"), "g2": os.path.join(self.src, "globs", "g.2"),
                        "h1": os.path.join(self.src, "globs", "h.1"),
                        "da": os.path.join(self.src, "d", "a.txt"), "dc": os.path.join(self.src, "d", "sub", "c.txt")}
        self.content = {}
        for k, p in self.srcpath.items():
            self.content[k] = ("%s %s %s\n" % (k, tag, "x" * rng.randrange(0, 300))).encode()
            write(p, self.content[k], "wb")
        os.makedirs(os.path.join(self.src, "d", "empty"))
        self.args = {"f1": self.srcpath["f1"], "f2": self.srcpath["f2"],
                     "missing": os.path.join(self.src, "etc", "nope.conf"),
                     "glob": os.path.join(self.src, "globs", "g.*"),
                     "dir": os.path.join(self.src, "d"), "nodir": os.path.join(self.src, "nodir")}
        self.meta = {"c1": '{"remote_branch": -1, "remote_leaf": -1, "t": "%s"}' % tag,
                     "c2": '{"remote_branch": "b-%s", "remote_leaf": 7}' % tag}
        # member path inside the collection directory -> (token, bytes)
        self.members = dict((self.srcpath[k].lstrip("/"), (k, self.content[k]))
                            for k in ("f1", "f2", "g1", "g2", "da", "dc"))
        self.src_sig = tree_sig(self.src)
        os.symlink(self.realtools["tar"], os.path.join(self.bin, "tar"))

    def intact(self):
        return tree_sig(self.src) == self.src_sig


class World(object):
    """One concretised world: sandbox, configuration, the object under test."""

    def __init__(self, base, case, rng, stats, sources):
        self.case, self.rng, self.stats, self.realtools = case, rng, stats, sources.realtools
        if not sources.intact() or sorted(os.listdir(base)) != ["bin", "src"]:
            for n in os.listdir(base):          # an earlier history damaged the shared areas: start afresh
                if n not in ("bin", "src"):
                    shutil.rmtree(os.path.join(base, n), True)
            sources.build()
        self.S = sources
        self.base = base
        self.comp, self.keep = case["cfg"]["comp"], case["cfg"]["keep"]
        self.root = tempfile.mkdtemp(prefix="w", dir=base)
        R = self.root
        self.vartmp = os.path.join(R, "var", "tmp")
        self.cache = os.path.join(R, "var", "cache")
        self.keepdir = os.path.join(self.cache, "insights-client")
        self.cwd = os.path.join(R, "cwd")
        self.bin, self.src = sources.bin, sources.src
        self.victim = os.path.join(R, "victim")
        for d in (self.vartmp, self.cwd):
            os.makedirs(d)
        init = case["init"]
        planted = set(init["planted"])
        self.args, self.meta, self.members = sources.args, sources.meta, sources.members
        # -- what other runs and other programs left behind ------------------------------------
        self.prevpath = {}
        rs = lambda: "".join(rng.choice("abcdefghijklmnopqrstuvwxyz0123456789_") for _ in range(8))
        if "old" in planted:
            p = os.path.join(self.vartmp, PREFIX + rs())
            write(os.path.join(p, "insights-oldhost-20200101000000", "data", "x"), "left by a killed run\n")
            write(os.path.join(p, "insights-oldhost-20200101000000.tar.gz"), "not really a tar\n")
            self.prevpath["old"] = p
        if "recent" in planted:
            p = os.path.join(self.vartmp, PREFIX + rs())
            write(os.path.join(p, "insights-otherrun-20260101000000", "data", "y"), "a run that is still going\n")
            self.prevpath["recent"] = p
        if "other" in planted:
            p = os.path.join(self.vartmp, rng.choice(["systemd-private-%s" % rs(), "my-insights-client-data",
                                                       "insights-core-%s" % rs(), "sosreport-%s" % rs()]))
            write(os.path.join(p, "keep", "z"), "somebody else's\n")
            self.prevpath["other"] = p
        if "link" in planted:
            write(os.path.join(self.victim, "precious", "data.txt"), "must never be removed\n")
            write(os.path.join(self.victim, "top.txt"), "nor this\n")
            p = os.path.join(self.vartmp, PREFIX + rs())
            os.symlink(self.victim, p)
            self.prevpath["link"] = p
            self.prevpath["victim"] = self.victim
        # -- the keep directory ------------------------------------------------------------------
        kd = init["keepdir"]
        if kd == "present":
            os.makedirs(self.keepdir)
        elif kd == "blocked":
            write(self.keepdir, "a regular file where the keep directory should be\n")
        elif kd == "absent":
            if rng.random() < 0.5:
                os.makedirs(self.cache)
        else:
            raise HarnessError("keepdir %r" % kd)
        if "keptold" in planted:
            if kd != "present":
                raise HarnessError("keptold needs a keep directory")
            self.prevpath["keptold"] = os.path.join(self.keepdir, OLD_KEPT)
            write(self.prevpath["keptold"], b"\x1f\x8b an archive kept by an earlier run\n", "wb")
        # ages (after the contents exist): stale = not modified for more than a day
        for k, p in self.prevpath.items():
            age = rng.randrange(0, 20 * 3600) if k == "recent" else rng.randrange(DAY + 3600, 40 * DAY)
            for dp, dn, fn in os.walk(p):
                for n in dn + fn:
                    set_age(os.path.join(dp, n), age)
            set_age(p, age)
            if k == "link":
                set_age(self.victim, age)
        self.prev_sig = dict((k, tree_sig(p)) for k, p in self.prevpath.items() if k not in ("old", "link"))
        # -- tools ---------------------------------------------------------------------------------
        self.set_tools(init["tool"])
        # -- the object ------------------------------------------------------------------------------
        self.obj = None
        self.rec = Recorder()
        self.tmpname = None
        self.aname = None
        self.host = None
        self.tarcache = {}
        self.noup = self.keep and rng.random() < 0.5
        constants.insights_tmp_path = self.vartmp
        constants.cache_dir = self.keepdir
        A.atexit = self.rec
        A.signal = self.rec.signal
        A.determine_hostname = lambda *a, **k: self.host
        os.environ["PATH"] = self.bin
        os.chdir(self.cwd)
        Guard.root = base

    # -- environment ---------------------------------------------------------------------------
    def set_tools(self, on):
        for t in TOOLS:
            p = os.path.join(self.bin, t)
            if os.path.lexists(p):
                os.remove(p)
            if on:
                os.symlink(self.realtools[t], p)

    def tools_on(self):
        return all(shutil.which(t, path=self.bin) for t in TOOLS)

    # -- projection ----------------------------------------------------------------------------
    @property
    def tmpdir(self):
        return os.path.join(self.vartmp, self.tmpname) if self.tmpname else None

    def token(self, rel, data):
        if rel in self.members:
            tok, want = self.members[rel]
            return tok if data == want else tok + "!changed"
        if rel == META_REL:
            for c, text in self.meta.items():
                if data == text.encode("utf-8"):
                    return "m=" + c
            return "m=?"
        return "?" + os.path.basename(rel)

    def read_dir(self, top):
        mem = set()
        for dp, dn, fn in os.walk(top):
            for n in fn:
                p = os.path.join(dp, n)
                rel = os.path.relpath(p, top)
                if os.path.islink(p) or not os.path.isfile(p):
                    mem.add("?special:" + n)
                    continue
                with open(p, "rb") as f:
                    mem.add(self.token(rel, f.read()))
            for n in dn:
                if os.path.islink(os.path.join(dp, n)):
                    mem.add("?special:" + n)
        return sorted(mem)

    def read_tar(self, path):
        """what the file at a tar location really is: format by content, members by reading it"""
        try:
            s = os.lstat(path)
        except OSError:
            return {"ex": False, "fmt": "-", "mem": [], "top": True}
        bad = {"ex": True, "fmt": "bad", "mem": [], "top": True}
        if not stat.S_ISREG(s.st_mode):
            return bad
        key = (path, s.st_ino, s.st_size, s.st_mtime_ns)
        if key in self.tarcache:
            return self.tarcache[key]
        with open(path, "rb") as f:
            head = f.read(8)
        fmt = "gz" if head[:2] == b"\x1f\x8b" else "bz2" if head[:3] == b"BZh" else \
              "xz" if head[:6] == b"\xfd7zXZ\x00" else "none"
        out = bad
        try:
            mem, top, names = set(), True, []
            with tarfile.open(path, "r:" + ("" if fmt == "none" else fmt)) as tf:
                for m in tf.getmembers():
                    names.append(m.name)
                    if m.name == self.aname:
                        continue
                    if self.aname and m.name.startswith(self.aname + "/"):
                        rel = m.name[len(self.aname) + 1:]
                    else:
                        top, rel = False, m.name
                    if m.isdir():
                        continue
                    if not m.isfile():
                        mem.add("?special:" + os.path.basename(rel))
                        continue
                    mem.add(self.token(rel, tf.extractfile(m).read()))
            out = {"ex": True, "fmt": fmt, "mem": sorted(mem), "top": top}
            if not self.stats.get("r4_tar_reader"):
                self.r4_tar(path, names)
        except (tarfile.TarError, EOFError, OSError, zlib.error, lzma.LZMAError, ValueError):
            out = bad
        self.tarcache[key] = out
        return out

    def r4_tar(self, path, names):
        """R4: the harness' tar reader agrees with the real tar on the member list"""
        env = dict(os.environ, PATH=os.pathsep.join(sorted(set(os.path.dirname(p) for p in self.realtools.values()))))
        p = subprocess.run([self.realtools["tar"], "-tf", path], stdin=subprocess.DEVNULL, stdout=subprocess.PIPE,
                           stderr=subprocess.PIPE, timeout=60, env=env, cwd=self.root)
        real = sorted(l.rstrip("/") for l in p.stdout.decode("utf-8", "replace").splitlines())
        if p.returncode != 0 or real != sorted(n.rstrip("/") for n in names):
            raise HarnessError("R4: tarfile lists %r, tar -tf lists %r (rc %s)" % (sorted(names), real, p.returncode))
        self.stats["r4_tar_reader"] = 1

    def project(self):
        stray = []
        R = self.root
        for n in os.listdir(R):
            if n not in ("var", "cwd") and not (n == "victim" and "victim" in self.prevpath):
                stray.append("sandbox:other")
        for n in os.listdir(self.base):
            if n not in ("src", "bin", os.path.basename(R)):
                stray.append("sandbox:other")
        if os.listdir(self.cwd):
            stray.append("working-directory")
        for n in os.listdir(os.path.join(R, "var")):
            if n not in ("tmp", "cache"):
                stray.append("var:other")
        planted_here = set(os.path.basename(p) for k, p in self.prevpath.items() if k in ("old", "recent", "other", "link"))
        tmp = False
        for n in os.listdir(self.vartmp):
            full = os.path.join(self.vartmp, n)
            if n in planted_here:
                continue
            if self.tmpname and n == self.tmpname and os.path.isdir(full) and not os.path.islink(full):
                tmp = True
            elif n.startswith(PREFIX) and os.path.isdir(full):
                stray.append("tmp-path:another-temporary-directory")
            else:
                stray.append("tmp-path:other")
        adir = {"ex": False, "mem": []}
        tar = {"ex": False, "fmt": "-", "mem": [], "top": True}
        if tmp and self.aname:
            for n in os.listdir(self.tmpdir):
                full = os.path.join(self.tmpdir, n)
                if n == self.aname and os.path.isdir(full) and not os.path.islink(full):
                    adir = {"ex": True, "mem": self.read_dir(full)}
                elif n == self.aname + EXT[self.comp]:
                    tar = self.read_tar(full)
                elif n.startswith(self.aname + ".tar"):
                    stray.append("tmp:tar-named-for-another-compressor")
                else:
                    stray.append("tmp:other")
        elif tmp and os.listdir(self.tmpdir):
            stray.append("tmp:other")
        if os.path.lexists(self.cache):
            for n in os.listdir(self.cache):
                if n != "insights-client":
                    stray.append("cache:other")
        kept = {"ex": False, "fmt": "-", "mem": [], "top": True}
        if not os.path.lexists(self.keepdir):
            keepdir = "absent"
        elif os.path.isdir(self.keepdir) and not os.path.islink(self.keepdir):
            keepdir = "present"
            for n in os.listdir(self.keepdir):
                if self.aname and n == self.aname + EXT[self.comp]:
                    kept = self.read_tar(os.path.join(self.keepdir, n))
                elif n == OLD_KEPT and "keptold" in self.prevpath:
                    pass
                else:
                    stray.append("keep:other")
        elif os.path.isfile(self.keepdir) and self.case["init"]["keepdir"] == "blocked":
            keepdir = "blocked"
        else:
            keepdir = "other"
        prev = {}
        for k in PREV_KINDS:
            p = self.prevpath.get(k)
            if p is None:
                prev[k] = False
            elif k in ("old", "link"):
                prev[k] = os.path.lexists(p)                      # anything of it left
            else:
                prev[k] = tree_sig(p) == self.prev_sig[k]         # all of it, as it was
        return {"obj": self.obj is not None, "tmp": tmp, "adir": adir, "tar": tar, "kept": kept, "keepdir": keepdir,
                "prev": prev, "tool": self.tools_on(), "stray": sorted(set(stray)), "esc": sorted(set(Guard.esc)),
                "src": self.S.intact()}

    def where(self, r):
        """a returned path as a location of the model"""
        p = os.path.normpath(r)

        def under(top):
            return top is not None and (p == top or p.startswith(top + os.sep))
        td = self.tmpdir
        ad = os.path.join(td, self.aname) if td and self.aname else None
        if ad and p == ad:
            return "adir", "."
        if under(ad):
            rel = os.path.relpath(p, ad)
            return "adir", ("R" if rel == PATH_REL else "M" if rel == META_REL else
                            self.members[rel][0] if rel in self.members else "?" + os.path.basename(rel))
        if td and self.aname and p == os.path.join(td, self.aname + EXT[self.comp]):
            return "tar", "-"
        if td and p == td:
            return "tmp", "-"
        for top, name in ((td, "tmp-other"), (self.keepdir, "keep"), (self.src, "src"), (self.base, "sandbox-other")):
            if under(top):
                return name, "-"
        return "outside", "-"

    # -- operations ----------------------------------------------------------------------------
    def new(self, x, y):
        self.host = self.rng.choice(HOSTS[y])
        obf = x == "obf"
        before = set(os.listdir(self.vartmp))
        cfg = InsightsConfig(compressor=self.comp, keep_archive=self.keep, no_upload=self.noup,
                             obfuscate=obf, obfuscate_hostname=obf)
        obj = A.InsightsArchive(cfg)
        obj.keep_archive_dir = self.keepdir
        self.obj = obj
        fresh = sorted(n for n in set(os.listdir(self.vartmp)) - before
                       if n.startswith(PREFIX) and os.path.isdir(os.path.join(self.vartmp, n)))
        attr = getattr(obj, "tmp_dir", None)
        attr_ok = isinstance(attr, str) and len(fresh) == 1 and os.path.normpath(attr) == os.path.join(self.vartmp, fresh[0])
        if len(fresh) == 1:
            self.tmpname = fresh[0]
        elif isinstance(attr, str) and os.path.dirname(os.path.normpath(attr)) == self.vartmp:
            self.tmpname = os.path.basename(os.path.normpath(attr))
        elif fresh:
            self.tmpname = fresh[0]
        name = getattr(obj, "archive_name", None)
        self.aname = name if isinstance(name, str) and name and "/" not in name else None
        shape = "other"
        if self.aname:
            if re.match(r"^insights-%s-\d{14}\Z" % re.escape(self.host), self.aname):
                shape = "host-stamp"
            elif re.match(r"^insights-\d{14}-[0-9a-f]{6}\Z", self.aname):
                shape = "stamp-hex"
        hashost = bool(self.aname) and (self.host in self.aname or self.host.split(".")[0] in self.aname)
        return {"dirs": len(fresh), "attr": attr_ok, "shape": shape, "hashost": hashost,
                "atexit": len(self.rec.atexit) > 0}

    def run_exit(self, x):
        if x == "sigterm":
            hs = [h for s, h in self.rec.signals if s == signal_mod.SIGTERM and callable(h)]
            if not hs:
                return                      # default action: the process dies, nothing runs
            try:
                hs[-1](signal_mod.SIGTERM, None)
                return                      # the handler returned: the process goes on
            except SystemExit:
                pass
        for func, args, kwargs in reversed(list(self.rec.atexit)):
            func(*args, **kwargs)

    def do(self, step):
        op, x, y = step["op"], step["x"], step["y"]
        ret = {"k": "none", "loc": "-", "rel": "-"}
        nw = {"dirs": 0, "attr": False, "shape": "-", "hashost": False, "atexit": False}
        exc = ""
        Guard.esc, Guard.reads = [], []
        r = None
        try:
            Guard.armed = True
            if op == "ToolBreak" or op == "ToolFix":
                Guard.armed = False
                self.set_tools(op == "ToolFix")
            elif op == "New":
                nw = self.new(x, y)
                r = "ok"
            elif self.obj is None:
                raise HarnessError("call %s without an object" % op)
            elif op == "CreateArchiveDir":
                r = self.obj.create_archive_dir()
            elif op == "GetFullArchivePath":
                r = self.obj.get_full_archive_path({"plain": "", "slash": "/", "dslash": "//"}[x] + PATH_REL)
            elif op == "CopyFile":
                r = self.obj.copy_file(self.args[x])
            elif op == "CopyDir":
                r = self.obj.copy_dir(self.args["dir" if x == "dir" else "nodir"])
            elif op == "AddMetadata":
                r = self.obj.add_metadata_to_archive(self.meta[y], {"plain": "", "slash": "/"}[x] + META_REL)
            elif op == "CreateTarFile":
                r = self.obj.create_tar_file()
            elif op == "DeleteTmpDir":
                r = self.obj.delete_tmp_dir()
            elif op == "DeleteArchiveDir":
                r = self.obj.delete_archive_dir()
            elif op == "CleanupTmp":
                r = self.obj.cleanup_tmp()
            elif op == "CleanupPrevious":
                r = self.obj.cleanup_previous_archive()
            elif op == "StoringArchive":
                r = self.obj.storing_archive()
            elif op == "Exit":
                self.run_exit(x)
            else:
                raise HarnessError("unknown operation %r" % op)
        except SystemExit:
            ret["k"] = "exit"
        except HarnessError:
            raise
        except Exception as ex:                 # recorded; judged by the trace specification
            ret["k"] = "raise"
            exc = type(ex).__name__
        finally:
            Guard.armed = False
        if ret["k"] == "none":
            if op == "New":
                ret["k"] = "ok"
            elif r is None:
                pass
            elif r is True or r is False:
                ret["k"] = "true" if r else "false"
            elif isinstance(r, str):
                ret["k"] = "path"
                ret["loc"], ret["rel"] = self.where(r)
            else:
                ret["k"] = "other"
        post = self.project()
        self.stats[op] = self.stats.get(op, 0) + 1
        ev = {"op": op, "x": x, "y": y, "ret": ret, "post": post}
        if op == "New":
            ev["nw"] = nw
        if exc:
            ev["exc"] = exc
        if Guard.reads:
            ev["reads"] = sorted(set(Guard.reads))
        return ev

    def close(self, base):
        os.chdir(base)
        Guard.root = None
        shutil.rmtree(self.root, True)
        for n in os.listdir(base):              # whatever a history dropped beside its world
            if n not in ("src", "bin"):
                shutil.rmtree(os.path.join(base, n), True)


def find_tools():
    out = {}
    for t in ("tar",) + TOOLS:
        p = shutil.which(t)
        if not p:
            raise HarnessError("tool %s not found on this machine" % t)
        out[t] = os.path.realpath(p)
    return out


def main():
    with open(sys.argv[1]) as f:
        inp = json.load(f)
    logging.disable(logging.CRITICAL)
    realtools = find_tools()
    base = tempfile.mkdtemp(prefix="x06-", dir=os.getcwd())
    saved = (os.environ.get("PATH"), os.getcwd())
    sys.addaudithook(_hook)
    stats = {}
    traces = []
    try:
        first = inp["cases"][0]["id"] if inp["cases"] else ""
        sources = Sources(base, random.Random("%s/sources/%s" % (inp.get("seed", 0), first)), realtools)
        for case in inp["cases"]:
            rng = random.Random("%s/%s" % (inp.get("seed", 0), case["id"]))
            w = World(base, case, rng, stats, sources)
            try:
                init = w.project()
                want = {"obj": False, "tmp": False, "adir": {"ex": False, "mem": []},
                        "tar": {"ex": False, "fmt": "-", "mem": [], "top": True},
                        "kept": {"ex": False, "fmt": "-", "mem": [], "top": True},
                        "keepdir": case["init"]["keepdir"],
                        "prev": dict((k, (k in case["init"]["planted"]) or (k == "victim" and "link" in case["init"]["planted"]))
                                     for k in PREV_KINDS),
                        "tool": case["init"]["tool"], "stray": [], "esc": [], "src": True}
                if init != want:
                    raise HarnessError("R4: initial world %r concretised to %r" % (want, init))
                events = []
                for s in case["steps"]:
                    ev = w.do(s)
                    if s["op"] in ("ToolBreak", "ToolFix") and ev["post"]["tool"] != (s["op"] == "ToolFix"):
                        raise HarnessError("R4: %s did not take effect" % s["op"])
                    events.append(ev)
                    if s["op"] == "New" and w.obj is None:
                        break                   # no object: nothing further can be called
                traces.append({"id": case["id"], "cfg": case["cfg"], "init": init, "events": events,
                               "conc": {"host": w.host or "", "name": w.aname or "", "no_upload": w.noup}})
            finally:
                w.close(base)
        stats["tar_runs"] = Guard.tar_runs
        if Guard.errors:
            raise HarnessError("audit hook failed: %s" % Guard.errors[:3])
    finally:
        os.environ["PATH"] = saved[0] or ""
        os.chdir(saved[1])
        shutil.rmtree(base, True)
    with open(sys.argv[2], "w") as f:
        f.write(json.dumps({"traces": traces, "stats": stats}, separators=(",", ":")))


if __name__ == "__main__":
    main()
