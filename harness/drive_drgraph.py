"""Driver for DrGraph (X05): concretise an abstract program with the REAL decorators of insights.core.dr /
plugins / spec_factory, ask the real dependency-graph utilities of insights/core/dr.py one question and record
what they returned.  Contains no oracle: the records are judged by specs/DrGraphTrace.tla.  The program that a
trace declares is the one this driver WROTE in the decorators (taken from the case), never read back from dr.

usage: drive_drgraph.py <in.json> <out.json>
in : {"cases":[{"id":..,"fam":..,"prog":[..],"adds":[[c,d]..],"q":{"t","K","root","pres"},"raw":[{"k","vs"}..]}],
      "seed": n, "nvar": 1}
out: {"traces":[{"id","kind","events":[..]}], "stats":{..}}
"""
import json
import random
import signal
import sys
import types

from insights.core import dr, plugins
from insights.core.spec_factory import RegistryPoint, SpecSet

_SERIAL = [0]


def bump(stats, k, n=1):
    stats[k] = stats.get(k, 0) + n


def excname(ex):
    return type(ex).__name__


class Build(object):
    """One concretised abstract program."""

    def __init__(self, case, rng, stats):
        _SERIAL[0] += 1
        self.case = case
        self.rng = rng
        self.stats = stats
        self.tag = "%d_%d" % (_SERIAL[0], rng.randrange(10 ** 6))
        self.prog = case["prog"]
        self.n = len(self.prog)
        self.comp = {}          # id -> object
        self.idx = {}           # id(object) -> id
        self.want = {}          # id -> the fully qualified name this driver gave it
        self.simple = {}        # id -> the plain name this driver gave it
        self.classes = []
        self.modname = "verif_x05_%s" % self.tag
        self.module = types.ModuleType(self.modname)
        sys.modules[self.modname] = self.module
        # registry points and their implementations live in a module below insights.specs, like Specs / DefaultSpecs
        self.specmodname = "insights.specs.verif_x05_%s" % self.tag
        self.specmodule = types.ModuleType(self.specmodname)
        sys.modules[self.specmodname] = self.specmodule
        self.point_of_name = {}
        self.tbase = type("tbase_%s" % self.tag, (dr.ComponentType,), {})
        self.tsub = type("tsub_%s" % self.tag, (self.tbase,), {})
        self.types = {"base": self.tbase, "sub": self.tsub}
        self.groups = {1: "x05-%s-g1" % self.tag, 2: "x05-%s-g2" % self.tag}
        self.early = {}
        self.early_lookup = bool(case["q"]["t"] == "basic" and rng.random() < 0.5)
        for i, p in enumerate(self.prog):
            self._define(i + 1, p)

    # -- projection -----------------------------------------------------------
    def cid(self, obj):
        try:
            c = self.idx.get(id(obj), 0)
            return c if c and self.comp.get(c) is obj else 0
        except Exception:       # noqa
            return 0

    def ids(self, objs):
        return sorted(self.cid(o) for o in objs)

    def seq(self, objs):
        return [self.cid(o) for o in objs]

    def graph(self, g):
        """a dict of sets -> [{k, vs}] in dict order"""
        return [dict(k=self.cid(k), vs=self.ids(v)) for k, v in g.items()]

    # -- concretisation -------------------------------------------------------
    def group_of(self, c):
        p = self.prog[c - 1]
        return dr.GROUPS.single if p["kind"] == "point" else self.groups[p["grp"]]

    def _bind(self, c, obj, want):
        self.comp[c] = obj
        self.idx[id(obj)] = c
        self.want[c] = want
        self.simple[c] = want.rsplit(".", 1)[1] if self.prog[c - 1]["kind"] == "point" else "c%d" % c

    def _define(self, c, p):
        kind = p["kind"]
        bump(self.stats, "kind:" + kind)
        if kind == "point":
            cname = "Specs_%s_%d" % (self.tag, c)
            attr = "p%d" % c
            want = "%s.%s.%s" % (self.specmodname, cname, attr)
            self._early(c, want)
            base = type(cname, (SpecSet,), {attr: RegistryPoint(prio=p["prio"] - 1), "__module__": self.specmodname})
            setattr(self.specmodule, cname, base)
            self.point_of_name[attr] = c
            self.classes.append(base)
            self._bind(c, getattr(base, attr), want)
            self.specset = getattr(self, "specset", {})
            self.specset[c] = (base, attr)
            bump(self.stats, "prio:%d" % (p["prio"] - 1))
            return

        def body(*args):
            return c
        body.__name__ = "c%d" % c
        body.__qualname__ = "c%d_%s" % (c, self.tag)
        body.__module__ = self.modname
        setattr(self.module, body.__qualname__, body)
        want = "%s.%s" % (self.modname, body.__qualname__)
        self._early(c, want)
        pos, opt = [], []
        for it in p["decl"]:
            bump(self.stats, "item:" + it["t"])
            if it["t"] == "req":
                pos.append(self.comp[it["ds"][0]])
            elif it["t"] == "grp":
                pos.append([self.comp[d] for d in it["ds"]])
            else:
                opt.append(self.comp[it["ds"][0]])
        kw = {"group": self.groups[p["grp"]]}
        if opt:
            # "Optional: a list following optional="; a single component is wrapped by the decorator
            kw["optional"] = opt if len(opt) > 1 or self.rng.random() < 0.7 else opt[0]
        if kind == "ds":
            deco = plugins.datasource
        else:
            deco = self.types[p["typ"]]
            bump(self.stats, "typ:" + p["typ"])
        bump(self.stats, "grp:%d" % p["grp"])
        deco(*pos, **kw)(body)
        self._bind(c, body, want)

    def _early(self, c, want):
        """a lookup by name BEFORE the component is loaded ("Return None if the component hasn't been loaded")"""
        if self.early_lookup and self.rng.random() < 0.5:
            self.early[c] = "none" if dr.get_component_by_name(want) is None else "some"
            bump(self.stats, "name:early-lookup")

    def add(self, c, d):
        """dr.add_dependency, for a registry point the way spec declarations do it: a SpecSet subclass that
        defines a datasource under the point's name"""
        exc, how = "", "direct"
        try:
            if self.prog[c - 1]["kind"] == "point":
                how = "specset"
                base, attr = self.specset[c]
                cname = "Impl_%s_%d_%d" % (self.tag, c, d)
                cls = type(cname, (base,), {attr: self.comp[d], "__module__": self.specmodname})
                setattr(self.specmodule, cname, cls)
                self.classes.append(cls)
                self.want[d] = "%s.%s.%s" % (self.specmodname, cname, attr)
                self.simple[d] = attr
            else:
                dr.add_dependency(self.comp[c], self.comp[d])
        except RecursionError:
            exc = "RecursionError"
        except Exception as ex:     # noqa
            exc = excname(ex)
        bump(self.stats, "add:" + how)
        return dict(ev="add", c=c, d=d, how=how, exc=exc)

    def cleanup(self):
        for o in list(self.comp.values()):
            dr.DELEGATES.pop(o, None)
            dr.DEPENDENCIES.pop(o, None)
            dr.DEPENDENTS.pop(o, None)
            dr.ENABLED.pop(o, None)
            dr.IGNORE.pop(o, None)
            dr.MODULE_NAMES.pop(o, None)
            dr.BASE_MODULE_NAMES.pop(o, None)
            dr.HIDDEN.discard(o)
            for g in list(dr.COMPONENTS):
                dr.COMPONENTS[g].pop(o, None)
            for t in list(dr.COMPONENTS_BY_TYPE):
                dr.COMPONENTS_BY_TYPE[t].discard(o)
        for g in self.groups.values():
            dr.COMPONENTS.pop(g, None)
        for t in (self.tbase, self.tsub):
            dr.COMPONENTS_BY_TYPE.pop(t, None)
        dr.COMPONENTS_BY_NAME.clear()
        dr.COMPONENT_IMPORT_CACHE.clear()
        sys.modules.pop(self.modname, None)
        sys.modules.pop(self.specmodname, None)


class Hang(BaseException):
    """raised by the watchdog inside a call that does not come back (not an Exception: dr's own
    `defaults` wrappers swallow those)"""


def _alarm(signum, frame):
    raise Hang()


def guarded(f, limit=20.0):
    """(exception name or "", result); a call that does not return within `limit` seconds is recorded as Hang"""
    signal.signal(signal.SIGALRM, _alarm)
    signal.setitimer(signal.ITIMER_REAL, limit)
    try:
        return "", f()
    except RecursionError:
        return "RecursionError", None
    except Hang:
        return "Hang", None
    except Exception as ex:     # noqa
        return excname(ex), None
    finally:
        signal.setitimer(signal.ITIMER_REAL, 0)


def declared_cyclic(prog, adds):
    """does the registration as DECLARED (decorators + the add_dependency calls made so far) contain a cycle?
    dr's recursive walks do not come back on one (their depth-limit errors are swallowed by its `defaults`
    wrappers and the walk goes on over every path), so those questions are not asked then: input selection,
    the specification demands nothing there either"""
    n = len(prog)
    edges = dict((c + 1, set(d for it in p["decl"] for d in it["ds"])) for c, p in enumerate(prog))
    for c, d in adds:
        edges[c].add(d)
    state = {}

    def visit(x):
        if state.get(x) == 1:
            return True
        if state.get(x) == 2:
            return False
        state[x] = 1
        if any(visit(y) for y in edges[x]):
            return True
        state[x] = 2
        return False
    return any(visit(x) for x in range(1, n + 1))


class Stranger(object):
    """something that was never registered"""
    def __call__(self):
        return None


# ---------------------------------------------------------------------------
# observations
# ---------------------------------------------------------------------------
def ev_deps(b, na, c):
    o = b.comp[c]
    reg = dr.DEPENDENCIES.get(o)
    grp = dr.COMPONENTS[b.group_of(c)].get(o) if b.group_of(c) in dr.COMPONENTS else None
    return dict(ev="deps", na=na, c=c, deps=b.ids(dr.get_dependencies(o)), dents=b.ids(dr.get_dependents(o)),
                hasreg=reg is not None, reg=b.ids(reg or ()), hascomp=grp is not None, comp=b.ids(grp or ()))


def ev_name(b, c):
    o = b.comp[c]
    name = dr.get_name(o)
    return dict(ev="name", c=c, name=name, want=b.want[c], imp=b.cid(dr.get_component(name)),
                byn=b.cid(dr.get_component_by_name(name)), early=b.early.get(c, "no"),
                simple=dr.get_simple_name(o), wantsimple=b.simple[c])


def ev_dgraph(b, na, c):
    exc, g = guarded(lambda: dr.get_dependency_graph(b.comp[c]))
    return dict(ev="dgraph", na=na, c=c, exc=exc, g=b.graph(g) if g is not None else [])


def ev_tree(b, na, c, direction):
    method = dr.get_dependencies if direction == "deps" else dr.get_dependents
    exc, nodes = guarded(lambda: list(dr.walk_tree(b.comp[c], method=method)) if direction == "dents"
                         else list(dr.walk_tree(b.comp[c])))
    return dict(ev="tree", na=na, c=c, dir=direction, exc=exc, nodes=b.seq(nodes or ()))


def ev_walk(b, na, c):
    calls = []

    def visitor(comp, parent):
        calls.append([b.cid(comp), 0 if parent is None else (b.cid(parent) or -1)])
    exc, _ = guarded(lambda: dr.walk_dependencies(b.comp[c], visitor))
    return dict(ev="walk", na=na, c=c, exc=exc, calls=[] if exc else calls)


def ev_rps(b, na, c):
    exc, r = guarded(lambda: dr.get_registry_points(b.comp[c]))
    return dict(ev="rps", na=na, c=c, exc=exc, isset=isinstance(r, set), rps=b.ids(r or ()))


def ev_detc(b, na, how, ids=(), tag=""):
    given = None
    if how == "single":
        arg = b.comp[ids[0]]
    elif how == "list":
        arg = [b.comp[i] for i in ids]
    elif how == "set":
        arg = set(b.comp[i] for i in ids)
    elif how == "type":
        arg = b.types[tag]
    elif how == "group":
        arg = b.groups[int(tag)]
    else:
        arg = given = dict((b.comp[i], set(dr.get_dependencies(b.comp[i]))) for i in ids)
    exc, g = guarded(lambda: dr.determine_components(arg))
    return dict(ev="detc", na=na, how=how, ids=list(ids), tag=str(tag), exc=exc, isnone=g is None,
                same=bool(given is not None and g is given), g=b.graph(g) if isinstance(g, dict) else [])


def keyed_graph(b, keys):
    """the graph a caller hands over: keys in the given order, each with its dependencies as dr reports them
    (what determine_components and the evaluation drivers build)"""
    return dict((b.comp[k], set(dr.get_dependencies(b.comp[k]))) for k in keys)


def ev_subg(b, na, keys):
    g = keyed_graph(b, keys)
    exc, parts = guarded(lambda: [b.graph(s) for s in dr.get_subgraphs(g)])
    return dict(ev="subg", na=na, keys=list(keys), exc=exc, parts=parts or [])


def ev_order(b, na, keys):
    g = keyed_graph(b, keys)
    exc, order = guarded(lambda: dr.run_order(g))
    return dict(ev="order", na=na, keys=list(keys), exc=exc, islist=isinstance(order, list), order=b.seq(order or ()),
                after=b.graph(g))


def ev_help(b, c, pres):
    decl = b.prog[c - 1]["decl"]
    requires = []
    for it in decl:
        if it["t"] == "req":
            requires.append(b.comp[it["ds"][0]])
        elif it["t"] == "grp":
            requires.append([b.comp[d] for d in it["ds"]])
    flat = [b.comp[d] for it in decl for d in it["ds"]]
    have = dict((b.comp[i], "value-%d" % i) for i in pres)
    ra, rn = dr.split_requirements(requires)
    exc, miss = guarded(lambda: dr.get_missing_requirements(b.comp[c], requires, have))
    broker = dr.Broker()
    for i in pres:
        broker[b.comp[i]] = i          # the value stored for component i is its number
    first = dr.first_of(flat, broker)
    s1 = dr.stringify_requirements(requires)
    s2 = dr.stringify_requirements((ra, rn))
    return dict(ev="help", c=c, pres=list(pres), all=b.seq(ra), any=[b.seq(g) for g in rn],
                exc=exc, missk="none" if miss is None else ("pair" if isinstance(miss, tuple) and len(miss) == 2 else "other"),
                mall=b.seq(miss[0]) if miss else [], many=[b.seq(g) for g in miss[1]] if miss else [],
                first=0 if first is None else (first if isinstance(first, int) else -1),
                s1=s1, s2=s2)


def ev_specs(b, c):
    """get_dependency_specs: names -> the registry point the driver gave that name, tuple -> or, list -> and"""
    def enc(x):
        if isinstance(x, str):
            return dict(t="var", n=b.point_of_name.get(x, 0), xs=[])
        if isinstance(x, tuple):
            return dict(t="or", n=0, xs=[enc(y) for y in x])
        if isinstance(x, list):
            return dict(t="and", n=0, xs=[enc(y) for y in x])
        return dict(t="other", n=0, xs=[])
    exc, r = guarded(lambda: dr.get_dependency_specs(b.comp[c]))
    return dict(ev="specs", c=c, exc=exc, islist=isinstance(r, list), f=[enc(x) for x in r] if isinstance(r, list) else [])


def ev_stranger(b):
    def never_registered():
        return None
    s = Stranger() if b.rng.random() < 0.5 else never_registered
    e1, d1 = guarded(lambda: dr.get_dependencies(s))
    e2, d2 = guarded(lambda: dr.get_dependents(s))
    e3, g = guarded(lambda: dr.get_dependency_graph(s))
    unknown = dr.get_component_by_name("%s.no_such_thing" % b.modname)
    return dict(ev="stranger", exc=e1 or e2, deps=b.ids(d1 or ()), dents=b.ids(d2 or ()), gexc=e3,
                isgraph=g is not None, byn="none" if unknown is None else "some")


def count(e, stats):
    """what the answers looked like (for the vacuity guard; nothing is judged here)"""
    k = e["ev"]
    bump(stats, "ev:" + k)
    if e.get("exc"):
        bump(stats, "%s:raised:%s" % (k, e["exc"]))
    if k == "subg" and len(e["parts"]) >= 2:
        bump(stats, "subg:several-parts")
    if k == "subg" and any(len(p) >= 2 for p in e["parts"]):
        bump(stats, "subg:part-with-several-keys")
    if k == "rps" and e["rps"]:
        bump(stats, "rps:non-empty")
    if k == "rps" and len(e["rps"]) >= 2:
        bump(stats, "rps:several")
    if k == "walk" and len(e["calls"]) >= 4:
        bump(stats, "walk:four-calls-or-more")
    if k == "order" and len(e["order"]) >= 3:
        bump(stats, "order:three-or-more")
    if k == "detc" and e["g"]:
        bump(stats, "detc:" + e["how"])
    if k == "dgraph" and len(e["g"]) >= 3:
        bump(stats, "dgraph:three-nodes-or-more")
    if k == "help":
        bump(stats, "help:missing-" + e["missk"])
        if e["first"] > 0:
            bump(stats, "help:first_of-found")
    if k == "specs":
        js = json.dumps(e["f"])
        for t in ("var", "or", "and"):
            if '"t": "%s"' % t in js:
                bump(stats, "specs:" + t)
        if any(x["t"] == "or" and any(y["t"] == "and" for y in x["xs"]) for x in e["f"]):
            bump(stats, "specs:list-in-tuple")
    if k == "deps" and e["na"] > 0:
        bump(stats, "deps:after-add")
    if k == "tree" and e["nodes"]:
        bump(stats, "tree:" + e["dir"])


def shuffled(rng, xs):
    xs = list(xs)
    rng.shuffle(xs)
    return xs


def run_prog_case(case, rng, stats):
    q = case["q"]
    b = Build(case, rng, stats)
    evs = [dict(ev="prog", fam=case["fam"], prog=case["prog"], adds=case["adds"],
                q=dict(t=q["t"], K=q["K"], root=q["root"], pres=q["pres"]))]
    try:
        ids = list(range(1, b.n + 1))
        basic = q["t"] == "basic"
        if basic:
            evs.extend(ev_deps(b, 0, c) for c in ids)
        na = 0
        for c, d in case["adds"]:
            e = b.add(c, d)
            na += 1
            e["na"] = na
            evs.append(e)
            if basic:
                evs.extend(ev_deps(b, na, x) for x in ids)
        bump(stats, "q:" + q["t"])
        if case["adds"]:
            bump(stats, "with-adds")
        cyclic = declared_cyclic(case["prog"], case["adds"])
        if cyclic:
            bump(stats, "cyclic-registration")
        if basic:
            for c in ids:
                evs.append(ev_name(b, c))
                if not cyclic:
                    evs.append(ev_dgraph(b, na, c))
                    evs.append(ev_tree(b, na, c, "deps"))
                    evs.append(ev_tree(b, na, c, "dents"))
                    evs.append(ev_rps(b, na, c))
                    evs.append(ev_detc(b, na, "single", [c]))
            some = [c for c in ids if rng.random() < 0.5] or ids[-1:]
            if not cyclic:
                evs.append(ev_detc(b, na, "list", shuffled(rng, ids)))
                evs.append(ev_detc(b, na, "set", some))
                evs.append(ev_detc(b, na, "list", shuffled(rng, some)))
                for ty in ("base", "sub"):
                    evs.append(ev_detc(b, na, "type", tag=ty))
            evs.append(ev_detc(b, na, "dict", some))
            for g in (1, 2):
                evs.append(ev_detc(b, na, "group", tag=g))
            evs.append(ev_stranger(b))
        elif q["t"] == "sub":
            if not cyclic:
                evs.append(ev_subg(b, na, shuffled(rng, q["K"])))
                evs.append(ev_subg(b, na, shuffled(rng, q["K"])))
                evs.extend(ev_rps(b, na, c) for c in q["K"])
        elif q["t"] == "topo":
            evs.append(ev_order(b, na, shuffled(rng, q["K"])))
            if not cyclic:
                evs.append(ev_detc(b, na, "list", shuffled(rng, q["K"])))
            evs.extend(ev_deps(b, na, c) for c in q["K"])      # run_order got live-looking sets: the registry afterwards
        elif q["t"] == "walk":
            if not cyclic:
                evs.append(ev_walk(b, na, q["root"]))
                evs.append(ev_dgraph(b, na, q["root"]))
        elif q["t"] == "help":
            evs.append(ev_help(b, q["root"], q["pres"]))
        elif q["t"] == "specs":
            if not cyclic:
                evs.append(ev_specs(b, q["root"]))
    finally:
        b.cleanup()
    for e in evs:
        count(e, stats)
    return evs


class Node(object):
    """a hashable item that is not a number or a string (toposort takes any hashable item)"""
    def __init__(self, i):
        self.i = i

    def __repr__(self):
        return "Node(%d)" % self.i


def run_raw_case(case, rng, stats):
    style = rng.choice(["int", "str", "obj", "tuple"])
    bump(stats, "raw:" + style)
    make = {"int": lambda i: i, "str": lambda i: "n%d" % i, "obj": Node, "tuple": lambda i: ("n", i)}[style]
    nodes = {}

    def node(i):
        if i not in nodes:
            nodes[i] = make(i)
        return nodes[i]
    back = {}
    rows = shuffled(rng, case["raw"])
    g = dict((node(r["k"]), set(node(v) for v in r["vs"])) for r in rows)
    for i, o in nodes.items():
        back[id(o) if style == "obj" else o] = i

    def cid(o):
        try:
            return back.get(id(o) if style == "obj" else o, 0)
        except TypeError:
            return 0

    def proj(gr):
        return [dict(k=cid(k), vs=sorted(cid(v) for v in vs)) for k, vs in gr.items()]
    given = proj(g)
    exc, order = guarded(lambda: dr.run_order(g))
    bump(stats, "q:raw")
    if any(r["k"] in r["vs"] for r in rows):
        bump(stats, "raw:self-dependency")
    if exc:
        bump(stats, "raw:raised")
    return [dict(ev="raw", fam="raw", g=given),
            dict(ev="rorder", exc=exc, islist=isinstance(order, list), order=[cid(o) for o in (order or ())],
                 after=proj(g))]


def main():
    with open(sys.argv[1]) as f:
        payload = json.load(f)
    seed = payload.get("seed", 0)
    nvar = payload.get("nvar", 1)
    stats = {}
    traces = []
    for c in payload.get("cases", []):
        for v in range(nvar):
            rng = random.Random("%s/%s/%d" % (seed, c["id"], v))
            if c["fam"] == "raw":
                evs = run_raw_case(c, rng, stats)
            else:
                evs = run_prog_case(c, rng, stats)
            traces.append(dict(id="%s/v%d" % (c["id"], v), kind=c.get("kind", "enum"), events=evs))
    with open(sys.argv[2], "w") as f:
        json.dump(dict(traces=traces, stats=stats), f, separators=(",", ":"))


if __name__ == "__main__":
    main()
