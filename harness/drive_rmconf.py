"""Driver for RmConf (X07): concretise each abstract world TLC emitted into REAL files (file-redaction.yaml,
file-content-redaction.yaml, remove.conf) with real permissions in a fresh directory, point a real InsightsConfig
at them, call the REAL InsightsUploadConf (get_rm_conf / create_report, or validate_remove_file under --validate)
and follow the result into the real consumers: CoreCollector.run_collection -> insights.collect.collect ->
apply_blacklist -> Cleaner(...) -> broker.  dr.run_all is replaced (inside this process only) by a recorder that
receives the broker collect() built and probes the deny lists (blacklist.allow_file / allow_command, dr.is_enabled,
BLACKLISTED_SPECS), the cleaner (clean_content on probe lines, the processor table) and the blacklist_report
datasource.  Contains no oracle: the records are judged by specs/RmConfTrace.tla.  The only comparisons made here are
R4 self-checks of the harness' own concretisation (documents parse to the intended class, probe lines match the
patterns they are meant to, the files have the intended permissions) and equality of two answers of the code
(determinism is the property there).

usage: drive_rmconf.py <in.json> <out.json>
in : {"cases":[{"id", "w":{validate, obf, red, con, leg}}], "seed": n}
out: {"traces":[{"id","w","events":[{...}]}], "stats":{..}}
"""
import configparser
import contextlib
import io
import json
import logging
import os
import random
import re
import shutil
import stat
import sys
import tempfile

import yaml

from insights import collect as collect_mod
from insights.client import core_collector
from insights.client.collection_rules import InsightsUploadConf
from insights.client.config import InsightsConfig
from insights.client.constants import InsightsConstants as constants
from insights.client.utilities import validate_remove_file
from insights.core import blacklist, dr
import insights.cleaner as cleaner_mod

SECS = ("commands", "files", "components", "patterns", "keywords")
PROBES = ("neutral", "p1", "p1rx", "p2lit", "p2rx", "p3", "posix", "rxword", "k1", "k2", "k3")
FILES = {"red": "file-redaction.yaml", "con": "file-content-redaction.yaml", "leg": "remove.conf"}
DS = "insights.specs.default.DefaultSpecs."


class HarnessError(Exception):
    pass


# ---------------------------------------------------------------------------
# vocabulary: concrete items per abstract id, probe lines
# ---------------------------------------------------------------------------
def vocabulary(rng):
    sym = rng.sample(["hostname", "uname", "date", "uptime", "redhat_release", "lsmod", "meminfo", "cpuinfo"], 4)
    d = "x07%d" % rng.randrange(100)
    kw1 = rng.choice(["hushword", "Tr0ub4dor", "acme-internal"])
    kw2 = rng.choice(["Zeta Corp", "proj falcon 9"])
    kw3 = rng.choice([u"café", u"München-DC", u"東京site"])
    p3 = rng.choice([u"señal-naïve", u"grüße"])
    v = {
        "files": {"1": "/etc/%s/secret.conf" % d, "2": sym[0]},
        "commands": {"1": "/usr/bin/%stool --list" % d, "2": sym[1]},
        "components": {"1": DS + sym[2], "2": DS + d + "_no_such_spec"},
        "patterns": {"1": "secret.data", "2": "tok[0-9]+x", "3": p3, "bad": "bad[", "posix": "id[[:digit:]]+z"},
        "keywords": {"1": kw1, "2": kw2, "3": kw3},
        "comps": {"comp1": DS + sym[2], "symf": DS + sym[0], "symc": DS + sym[1], "byst": DS + sym[3]},
        "other_file": "/etc/%s/other.conf" % d, "other_cmd": "/usr/bin/%sother --list" % d,
    }
    v["lines"] = {
        "neutral": "nothing of note on this line, %s\n" % d,
        "p1": "value secret.data found\n",
        "p1rx": "value secretXdata found\n",
        "p2lit": "shape tok[0-9]+x literally\n",
        "p2rx": "shape tok123x here\n",
        "p3": u"prefix %s suffix\n" % p3,
        "posix": "serial id42z end\n",
        "rxword": "the regex engine started\n",
        "k1": "owner %s signed\n" % kw1,
        "k2": "site of %s, north\n" % kw2,
        "k3": u"branch %s open\n" % kw3,
    }
    return v


def check_vocabulary(v):
    """R4: the probe lines have the intended relation to the items (python re / substring as the environment)."""
    pats, lines = v["patterns"], v["lines"]
    want_plain = {"1": {"p1"}, "2": {"p2lit"}, "3": {"p3"}, "posix": set()}
    want_rx = {"1": {"p1", "p1rx"}, "2": {"p2rx"}, "3": {"p3"}, "posix": {"posix"}}
    for i in want_plain:
        got = set(p for p in PROBES if pats[i] in lines[p])
        if got != want_plain[i]:
            raise HarnessError("R4: plain pattern %s hits %s" % (i, sorted(got)))
        rx = pats[i].replace("[[:digit:]]", "[0-9]")
        got = set(p for p in PROBES if re.search(rx, lines[p]))
        if got != want_rx[i]:
            raise HarnessError("R4: regex pattern %s hits %s" % (i, sorted(got)))
    try:
        re.compile(pats["bad"])
        raise HarnessError("R4: the bad regular expression compiles")
    except re.error:
        pass
    for i, p in (("1", "k1"), ("2", "k2"), ("3", "k3")):
        got = set(q for q in PROBES if v["keywords"][i] in lines[q])
        if got != {p}:
            raise HarnessError("R4: keyword %s occurs in %s" % (i, sorted(got)))
    if set(p for p in PROBES if "regex" in lines[p]) != {"rxword"}:
        raise HarnessError("R4: the word regex")
    for lab, name in v["comps"].items():
        if not dr.get_component_by_name(name):
            raise HarnessError("R4: probe component %s does not exist" % name)
    if dr.get_component_by_name(v["components"]["2"]):
        raise HarnessError("R4: the unknown component exists")


# ---------------------------------------------------------------------------
# concretise documents
# ---------------------------------------------------------------------------
def yaml_value(sec, cls, v, rng):
    it = v[sec] if sec in v else {"1": "x07-item", "2": "x07-item2"}
    one, two = it["1"], it.get("2", "x07-second")
    if cls == "null":
        return None
    if cls == "elist":
        return []
    if cls == "one":
        return [one]
    if cls == "two":
        return [one, two]
    if cls == "oneblank":
        return [one, ""]
    if cls == "str":
        return one
    if cls == "lint":
        return [one, 42]
    if cls == "rx1":
        return {"regex": [one]}
    if cls == "rx2":
        return {"regex": [one, two]}
    if cls == "rxnull":
        return {"regex": None}
    if cls == "rxempty":
        return {"regex": []}
    if cls == "rxstr":
        return {"regex": one}
    if cls == "rxlint":
        return {"regex": [one, 7]}
    if cls == "rxextra":
        return {"regex": [one], "glob": [two]}
    if cls == "rxmissing":
        return {"glob": [one]}
    if cls == "rxbad":
        return {"regex": [one, it["bad"]]}
    if cls == "rxposix":
        return {"regex": [it["posix"]]}
    raise HarnessError("unknown YAML value class %r" % cls)


def yaml_text(x, v, rng):
    form = x["form"]
    if form == "empty":
        return ""
    if form == "comment":
        return "# nothing configured\n---\n# still nothing\n" if rng.random() < 0.5 else "# nothing configured\n"
    if form == "garbage":
        return rng.choice(["files: [unclosed\n  - x: y: z\n", "patterns:\n- ok\n  bad indent: [\n", "{a: b\n"])
    if form == "scalar":
        return rng.choice(["just a sentence\n", "42\n"])
    if form == "list":
        return "- /etc/a\n- /etc/b\n"
    if form != "map":
        raise HarnessError("unknown YAML form %r" % form)
    doc = {}
    keys = [k for k in SECS + ("bogus",) if x["s"][k] != "none"]
    rng.shuffle(keys)
    for k in keys:
        doc["x07_bogus" if k == "bogus" else k] = yaml_value(k, x["s"][k], v, rng)
    if not doc:
        return "{}\n"
    text = yaml.safe_dump(doc, default_flow_style=rng.choice([False, False, None]), allow_unicode=True, sort_keys=False)
    if rng.random() < 0.3:
        text = "---\n# managed by x07\n" + text
    return text


def check_yaml(x, text):
    """R4: the text belongs to the intended class (PyYAML as the environment)."""
    try:
        doc = yaml.safe_load(text)
        ok = True
    except yaml.YAMLError:
        doc, ok = None, False
    form = x["form"]
    fine = {"empty": ok and doc is None, "comment": ok and doc is None, "garbage": not ok,
            "scalar": ok and isinstance(doc, (str, int)), "list": ok and isinstance(doc, list),
            "map": ok and isinstance(doc, dict)}[form]
    if fine and form == "map":
        want = set("x07_bogus" if k == "bogus" else k for k in x["s"] if x["s"][k] != "none")
        fine = set(doc) == want
    if not fine:
        raise HarnessError("R4: YAML text for %s does not load as intended: %r" % (form, text))


def ini_text(x, v, rng):
    form = x["form"]
    if form == "empty":
        return ""
    if form == "comment":
        return "# nothing configured\n; nothing\n"
    if form == "nosection":
        return "files=/etc/a\ncommands=/bin/b\n"
    if form == "wrongsec":
        return "[redact]\nfiles=/etc/a\n"
    if form == "twosec":
        return "[remove]\nfiles=%s\n[extra]\nfoo=bar\n" % v["files"]["1"]
    if form != "remove":
        raise HarnessError("unknown INI form %r" % form)
    lines = []
    keys = [k for k in SECS + ("bogus",) if x["s"][k] != "none"]
    rng.shuffle(keys)
    eq = rng.choice(["=", " = ", ": "])
    for k in keys:
        cls = x["s"][k]
        it = v[k] if k in v else {"1": "x07-item", "2": "x07-item2", "3": u"x07-é"}
        if cls == "empty":
            val = ""
        elif cls == "one":
            val = it["1"]
        elif cls == "two":
            val = it["1"] + "," + it["2"]
        elif cls == "trail":
            val = it["1"] + ","
        elif cls == "nonascii":
            val = it["3"]
        else:
            raise HarnessError("unknown INI value class %r" % cls)
        lines.append("%s%s%s" % ("x07_bogus" if k == "bogus" else k, eq if val else "=", val))
    return "[remove]\n" + "".join(l + "\n" for l in lines)


def check_ini(x, text):
    cp = configparser.RawConfigParser()
    try:
        cp.read_string(text)
        secs = cp.sections()
        ok = True
    except configparser.Error:
        secs, ok = [], False
    form = x["form"]
    fine = {"empty": ok and not secs, "comment": ok and not secs, "nosection": not ok, "wrongsec": ok and secs == ["redact"],
            "twosec": ok and secs == ["remove", "extra"], "remove": ok and secs == ["remove"]}[form]
    if fine and form == "remove":
        want = set("x07_bogus" if k == "bogus" else k for k in x["s"] if x["s"][k] != "none")
        fine = set(cp.options("remove")) == want
    if not fine:
        raise HarnessError("R4: INI text for %s does not parse as intended: %r" % (form, text))


# ---------------------------------------------------------------------------
# abstraction of what the code answered
# ---------------------------------------------------------------------------
def ids_of(sec, values, v):
    rev = dict((s, i) for i, s in v[sec].items())
    out = set()
    for s in values or []:
        if s == "":
            out.add("empty")
        elif isinstance(s, str) and s in rev:
            out.add(rev[s])
        else:
            out.add("alien")
    return sorted(out)


def abstract_conf(rm, v):
    conf = dict((k, []) for k in SECS)
    conf.update(pmode="-", fmt="none", extra=[])
    if not rm:
        return conf
    if not isinstance(rm, dict):
        conf["extra"] = ["not-a-dict"]
        return conf
    for k, val in rm.items():
        if k == "new_format":
            conf["fmt"] = "new" if val is True else "old" if val is False else "odd"
        elif k == "patterns":
            if isinstance(val, dict):
                conf["pmode"] = "regex"
                conf["patterns"] = ids_of(k, val.get("regex"), v)
                if set(val) != {"regex"}:
                    conf["extra"].append("patterns-keys")
            else:
                conf["pmode"] = "plain"
                conf["patterns"] = ids_of(k, val, v)
        elif k in SECS:
            conf[k] = ids_of(k, val, v)
        else:
            conf["extra"].append("key")
    if not conf["patterns"]:
        conf["pmode"] = "-"
    conf["extra"] = sorted(set(conf["extra"]))
    return conf


def abstract_report(r):
    out = {"k": "ok", "n": dict((k, 0) for k in SECS), "fmt": "none", "rx": False}
    if not isinstance(r, dict):
        out["k"] = "raise"
        return out
    for k in SECS:
        out["n"][k] = int(r.get(k, 0))
    out["fmt"] = "new" if r.get("using_new_format") else "old"
    out["rx"] = bool(r.get("using_patterns_regex"))
    return out


NO_EFF = {"ran": False, "denyF": [], "denyC": [], "disabled": [], "listed": [], "sw": [],
          "lines": dict((p, "-") for p in PROBES)}


class Capture(logging.Handler):
    def __init__(self):
        logging.Handler.__init__(self, level=logging.WARNING)
        self.msgs = []

    def emit(self, record):
        try:
            self.msgs.append(record.getMessage())
        except Exception:
            self.msgs.append(str(record.msg))


class Recorder(object):
    """stands in for dr.run_all inside collect(): receives the broker collect() built"""
    current = None

    def __call__(self, broker=None, pool=None, **kw):
        Recorder.current(broker)
        return broker


class FakeArchive(object):
    """stand-in for InsightsArchive in core_collector (X06 covers the real one)"""
    root = None

    def __init__(self, config):
        self.tmp_dir = FakeArchive.root
        self.archive_name = "insights-x07-archive"
        self.archive_dir = None

    def create_archive_dir(self):
        self.archive_dir = os.path.join(self.tmp_dir, self.archive_name)
        os.makedirs(self.archive_dir, exist_ok=True)
        return self.archive_dir


MANIFEST = yaml.safe_dump({
    "plugins": {"default_component_enabled": True, "packages": ["insights.specs.default"]},
    "client": {"context": {"class": "insights.core.context.HostContext", "args": {"timeout": 10}},
               "blacklist": {}, "persist": [], "run_strategy": {"name": "serial"}}})


def reset_process_state():
    """what a fresh client process starts with (one collection per process in production)"""
    blacklist._FILE_FILTERS.clear()
    blacklist._COMMAND_FILTERS.clear()
    blacklist._PATTERN_FILTERS.clear()
    blacklist._KEYWORD_FILTERS.clear()
    del blacklist.BLACKLISTED_SPECS[:]


def run_case(case, base, rng, stats):
    wd = case["w"]
    v = vocabulary(rng)
    check_vocabulary(v)
    root = tempfile.mkdtemp(prefix="w-", dir=base)
    conf_dir = os.path.join(root, "etc")
    os.makedirs(conf_dir)
    paths = {}
    for f, name in FILES.items():
        x = wd[f]
        p = os.path.join(conf_dir, name)
        if x["kind"] == "file":
            text = ini_text(x, v, rng) if f == "leg" else yaml_text(x, v, rng)
            (check_ini if f == "leg" else check_yaml)(x, text)
            with open(p, "w", encoding="utf-8") as fh:
                fh.write(text)
            os.chmod(p, int(x["perm"], 8))
            if stat.S_IMODE(os.stat(p).st_mode) != int(x["perm"], 8) or not os.path.isfile(p):
                raise HarnessError("R4: %s not created as intended" % p)
        elif x["kind"] != "absent":
            raise HarnessError("unknown kind %r" % x["kind"])
        paths[f] = p if x["path"] == "set" else rng.choice([None, ""])
    obf = wd["obf"]
    kwargs = dict(redaction_file=paths["red"], content_redaction_file=paths["con"], remove_file=paths["leg"],
                  tags_file=os.path.join(conf_dir, "tags.yaml"), validate=bool(wd["validate"]), manifest=MANIFEST,
                  obfuscate=obf != "off", obfuscate_hostname=obf in ("host", "all"), obfuscate_ipv6=obf == "all",
                  obfuscate_mac=obf == "all", logging_file=os.path.join(root, "client.log"))
    config = InsightsConfig(**kwargs)
    cap = Capture()
    lg = logging.getLogger("insights.client.collection_rules")
    lg.addHandler(cap)
    old_level, old_prop = lg.level, lg.propagate
    lg.setLevel(logging.DEBUG)
    lg.propagate = False
    ev = {"ev": "load", "k": "ok", "exc": "-", "vk": "-", "again": "-", "attr": "-", "fresh": "-",
          "eff": dict(NO_EFF, lines=dict(NO_EFF["lines"])), "cr": abstract_report({}), "br": abstract_report({}),
          "crk": "-", "brk": "-"}
    try:
        rm = None
        if wd["validate"]:
            stats["validate"] = stats.get("validate", 0) + 1
            out = io.StringIO()
            try:
                with contextlib.redirect_stdout(out):
                    r = validate_remove_file(config)
                ev["vk"] = "true" if r is True else "none" if r is None else "odd"
            except Exception as ex:
                ev["k"], ev["exc"], ev["vk"] = "error", type(ex).__name__, "raise"
            text = out.getvalue()
            shown = None
            if "parsed contents:" in text:
                try:
                    shown = json.loads(text.split("parsed contents:", 1)[1])
                except ValueError:
                    ev["vk"] = "unreadable"
            rm = shown
        else:
            pc = InsightsUploadConf(config)
            try:
                rm = pc.get_rm_conf()
            except Exception as ex:
                ev["k"], ev["exc"] = "error", type(ex).__name__
            if ev["k"] == "ok":
                ev["attr"] = "same" if pc.rm_conf == rm and (pc.rm_conf is None) == (rm is None) else "differs"
                try:
                    rm2 = pc.get_rm_conf()
                    ev["again"] = "same" if rm2 == rm and (rm2 is None) == (rm is None) else "differs"
                except Exception:
                    ev["again"] = "raise"
                try:
                    rm3 = InsightsUploadConf(config).get_rm_conf()
                    ev["fresh"] = "same" if rm3 == rm and (rm3 is None) == (rm is None) else "differs"
                except Exception:
                    ev["fresh"] = "raise"
        ev["warned"] = dict((f, any("Invalid permissions" in m and FILES[f] in m for m in cap.msgs)) for f in FILES)
        ev["conf"] = abstract_conf(rm, v)
        if ev["k"] == "ok" and not wd["validate"]:
            stats["collect"] = stats.get("collect", 0) + 1
            report = None
            try:
                report = pc.create_report()
                ev["cr"], ev["crk"] = abstract_report(report), "ok"
            except Exception as ex:
                ev["cr"], ev["crk"] = abstract_report(None), type(ex).__name__
            eff = ev["eff"]

            def probe(broker):
                cl = broker.get("cleaner")
                if cl is None or broker.get("client_config") is not config:
                    raise HarnessError("collect() built no cleaner / lost the configuration")
                cl.report_dir = root
                eff["ran"] = True
                eff["denyF"] = [lab for lab, p in (("1", v["files"]["1"]), ("other", v["other_file"]))
                                if not blacklist.allow_file(p)]
                eff["denyC"] = [lab for lab, c in (("1", v["commands"]["1"]), ("other", v["other_cmd"]))
                                if not blacklist.allow_command(c)]
                eff["disabled"] = sorted(lab for lab, n in v["comps"].items()
                                         if not dr.is_enabled(dr.get_component_by_name(n)))
                short = dict((n.split(".")[-1], lab) for lab, n in v["comps"].items())
                eff["listed"] = sorted(set(short.get(s, "alien") for s in blacklist.BLACKLISTED_SPECS))
                eff["sw"] = sorted(k for k, p in cl.obfuscate.items() if p)
                words = list(v["keywords"].values())
                for p in PROBES:
                    line = v["lines"][p]
                    try:
                        got = cl.clean_content(line)
                    except Exception:
                        eff["lines"][p] = "error"
                        continue
                    if got is None:
                        eff["lines"][p] = "removed"
                    elif got == line:
                        eff["lines"][p] = "kept"
                    elif any(wd_ in got for wd_ in words):
                        eff["lines"][p] = "partly"
                    else:
                        eff["lines"][p] = "changed"
                stats["lines"] = stats.get("lines", 0) + len(PROBES)
                from insights.specs.datasources import client_metadata
                try:
                    prov = client_metadata.blacklist_report(broker)
                    ev["br"], ev["brk"] = abstract_report(json.loads("".join(prov.content))), "ok"
                except Exception as ex:
                    ev["br"], ev["brk"] = abstract_report(None), type(ex).__name__

            Recorder.current = probe
            FakeArchive.root = root
            reset_process_state()
            try:
                cc = core_collector.CoreCollector(config)
                cc.run_collection(rm, {"remote_branch": -1, "remote_leaf": -1}, report)
            except HarnessError:
                raise
            except Exception as ex:
                ev["eff"]["ran"] = False
                ev["collect_exc"] = type(ex).__name__
            if not eff["ran"] and "collect_exc" not in ev:
                raise HarnessError("collect() never reached dr.run_all")
    finally:
        lg.removeHandler(cap)
        lg.setLevel(old_level)
        lg.propagate = old_prop
        shutil.rmtree(root, True)
    ev.setdefault("warned", dict((f, False) for f in FILES))
    ev.setdefault("conf", abstract_conf(None, v))
    ev.setdefault("collect_exc", "-")
    return {"id": case["id"], "w": wd, "events": [ev]}


def main():
    with open(sys.argv[1]) as f:
        inp = json.load(f)
    logging.getLogger().setLevel(logging.CRITICAL)
    base = tempfile.mkdtemp(prefix="x07-", dir=os.getcwd())
    # environment stubs (inside this process): no name lookups, no systemd, no writes to /etc/rhsm or /var/tmp
    cleaner_mod.determine_hostname = lambda *a, **k: "x07host.example.org"
    core_collector.systemd_notify_init_thread = lambda: None
    core_collector.InsightsArchive = FakeArchive
    constants.rhsm_facts_file = os.path.join(base, "rhsm-insights-client.facts")
    collect_mod.dr.load_components("insights.specs.default", continue_on_error=False)
    real_run_all = dr.run_all
    stats, traces = {}, []
    dr.run_all = Recorder()
    try:
        for case in inp["cases"]:
            rng = random.Random("%s/%s" % (inp.get("seed", 0), case["id"]))
            traces.append(run_case(case, base, rng, stats))
    finally:
        dr.run_all = real_run_all
        shutil.rmtree(base, True)
    with open(sys.argv[2], "w") as f:
        f.write(json.dumps({"traces": traces, "stats": stats}, separators=(",", ":")))


if __name__ == "__main__":
    main()
