"""Shared machinery: TLC runner, CASE / trace codecs, batch trace validation,
known findings, verdict and evidence.

No oracle logic lives here (or in any driver): verdicts on the implementation
are always produced by TLC evaluating a *Trace.tla module.
"""
from __future__ import print_function

import atexit
import concurrent.futures
import hashlib
import json
import os
import re
import shutil
import subprocess
import sys
import tempfile
import time

VERIF = os.path.dirname(os.path.dirname(os.path.abspath(__file__)))
SPECS = os.path.join(VERIF, "specs")
REPO = os.environ.get("VERIF_REPO", "/repo")
PY = os.environ.get("VERIF_PY", "/venv/bin/python")
JAR = "/opt/veriftools/tla/tla2tools.jar"
CMJAR = "/opt/veriftools/tla/CommunityModules-deps.jar"
NCPU = int(os.environ.get("VERIF_CPUS", "0")) or os.cpu_count() or 4
_T0 = time.time()     # wall time of a check is measured from the import of this module


class MachineryError(Exception):
    """Something in the checking machinery failed (exit code 2, never a verdict)."""


_SCRATCH = None


def scratch():
    """Per-run scratch directory outside /repo and /verif, removed on exit."""
    global _SCRATCH
    if _SCRATCH is None:
        base = os.environ.get("VERIF_TMP") or os.environ.get("TMPDIR") or "/tmp"
        _SCRATCH = tempfile.mkdtemp(prefix="verif-%d-" % os.getpid(), dir=base)
        atexit.register(shutil.rmtree, _SCRATCH, True)
    return _SCRATCH


def subdir(name):
    d = os.path.join(scratch(), name)
    os.makedirs(d, exist_ok=True)
    return d


def seed():
    try:
        return int(os.environ.get("VERIF_SEED", "0"))
    except ValueError:
        return 0


# ---------------------------------------------------------------------------
# TLC
# ---------------------------------------------------------------------------

class TlcResult(object):
    def __init__(self):
        self.rc = None
        self.out = ""
        self.generated = 0
        self.distinct = 0
        self.depth = 0
        self.wall = 0.0
        self.cases = []          # parsed CASE payloads
        self.ncases = 0
        self.printed = []        # other PrintT tuples, raw text
        self.coverage = {}       # action name -> (distinct, total)
        self.violation = None    # name of violated invariant / property, if any
        self.error = None        # TLC error text other than an invariant violation
        self.cmd = ""

    @property
    def ok(self):
        return self.rc == 0 and self.violation is None and self.error is None


_CASE_RE = re.compile(r'^<<"(CASE|REJ|ACC|STAT)", (".*")>>$')
_COV_RE = re.compile(r'^<(\w+) line (\d+), col (\d+) to line (\d+), col (\d+) of module (\w+)>: (\d+):(\d+)')


def run_tlc(module, cfg, workers=None, simulate=None, depth=None, tlc_seed=None, env=None,
            timeout=900, coverage=False, deque=False, want_cases=True, extra=None, tag=None, case_sink=None,
            light=False, raw_cases=False):
    """Run TLC on specs/<module>.tla with specs/<cfg>.  Returns TlcResult.

    simulate: None for exhaustive BFS, or number of behaviours for -simulate.
    case_sink: optional callable(payload) called per CASE line instead of
    collecting them in memory.
    """
    tag = tag or (module + "-" + os.path.splitext(os.path.basename(cfg))[0])
    meta = subdir("tlc-" + tag + "-%d" % int(time.time() * 1000))
    workers = workers or NCPU
    cmd = ["java", "-Xss16m"] + (["-XX:+UseSerialGC", "-Xmx3g"] if light
                                 else ["-XX:+UseParallelGC"])
    if deque:
        cmd.append("-Dtlc2.tool.queue.IStateQueue=StateDeque")
    cmd += ["-cp", JAR + ":" + CMJAR, "tlc2.TLC", "-workers", str(workers), "-metadir", meta,
            "-noGenerateSpecTE", "-config", cfg]
    if simulate is not None:
        cmd += ["-simulate", "num=%d" % simulate]
        if depth:
            cmd += ["-depth", str(depth)]
    if tlc_seed is not None:
        cmd += ["-seed", str(tlc_seed)]
    if coverage:
        cmd += ["-coverage", "1"]
    if extra:
        cmd += list(extra)
    cmd.append(module + ".tla")
    e = dict(os.environ)
    e.pop("JAVA_TOOL_OPTIONS", None)
    if env:
        e.update(env)
    res = TlcResult()
    res.cmd = " ".join(cmd)
    t0 = time.time()
    try:
        p = subprocess.Popen(cmd, cwd=SPECS, env=e, stdin=subprocess.DEVNULL, stdout=subprocess.PIPE,
                             stderr=subprocess.STDOUT, universal_newlines=True)
    except OSError as ex:
        raise MachineryError("cannot start TLC: %s" % ex)
    keep = []
    deadline = t0 + timeout
    try:
        for line in p.stdout:
            line = line.rstrip("\n")
            if raw_cases and line.startswith('<<"CASE", '):
                res.ncases += 1
                res.cases.append(line)
                continue
            m = _CASE_RE.match(line) if line.startswith('<<"') else None
            if m:
                try:
                    payload = json.loads(json.loads(m.group(2)))
                except ValueError:
                    raise MachineryError("unparsable %s line from TLC: %s" % (m.group(1), line[:200]))
                if m.group(1) == "CASE":
                    res.ncases += 1
                    if case_sink is not None:
                        case_sink(payload)
                    elif want_cases:
                        res.cases.append(payload)
                else:
                    res.printed.append((m.group(1), payload))
                continue
            keep.append(line)
            if time.time() > deadline:
                p.kill()
                raise MachineryError("TLC timeout after %ss: %s" % (timeout, res.cmd))
        p.wait()
    finally:
        if p.poll() is None:
            p.kill()
        shutil.rmtree(meta, True)
    res.rc = p.returncode
    res.wall = time.time() - t0
    res.out = "\n".join(keep)
    for line in keep:
        m = re.match(r"^(\d+) states generated, (\d+) distinct states found", line)
        if m:
            res.generated, res.distinct = int(m.group(1)), int(m.group(2))
        m = re.match(r"^The depth of the complete state graph search is (\d+)", line)
        if m:
            res.depth = int(m.group(1))
        m = re.match(r"^The number of states generated: (\d+)", line)
        if m:
            res.generated = res.distinct = int(m.group(1))
        m = re.match(r"^Error: Invariant (\w+) is violated", line)
        if m:
            res.violation = m.group(1)
        m = re.match(r"^Error: Action property (\w+) is violated", line) or \
            re.match(r"^Error: Temporal properties were violated", line)
        if m and res.violation is None:
            res.violation = m.group(1) if m.groups() else "temporal"
        m = _COV_RE.match(line)
        if m:
            res.coverage[m.group(1)] = res.coverage.get(m.group(1), 0) + int(m.group(8))
    if res.rc != 0 and res.violation is None:
        errs = [l for l in keep if l.startswith("Error:") or "Exception" in l]
        res.error = "\n".join(errs[:8]) or "TLC exit code %s" % res.rc
    return res


def parse_case(line):
    m = _CASE_RE.match(line)
    if not m:
        raise MachineryError("unparsable CASE line from TLC: %s" % line[:200])
    return json.loads(json.loads(m.group(2)))


def require_ok(res, what):
    """Model-level run must succeed; otherwise it is a machinery failure or a
    model-level counterexample, both of which stop the check with exit 2 (the
    model is part of the machinery; a property that the *model* violates is
    reported in DESIGN.md, not as a verdict on the code)."""
    if not res.ok:
        tail = "\n".join(res.out.splitlines()[-60:])
        raise MachineryError("%s: TLC did not succeed (violation=%s error=%s)\n%s\n%s"
                             % (what, res.violation, res.error, res.cmd, tail))
    return res


# ---------------------------------------------------------------------------
# Batch trace validation
# ---------------------------------------------------------------------------

_VAL_CALLS = 0


def _validate_one(args):
    module, cfg, path, idx, timeout, deque = args
    r = run_tlc(module, cfg, workers=1, env={"TRACE_FILE": path}, timeout=timeout, want_cases=False,
                tag="%s-val%d" % (module, idx), deque=deque, light=True)
    return idx, r


def validate_traces(module, cfg, traces, chunk=None, timeout=900, deque=False, jobs=None):
    """Validate traces (list of dicts with 'id' and 'events') with specs/<module>.tla.

    The trace module must print, from its POSTCONDITION, one line
        <<"REJ", ToJson([id |-> .., line |-> .., clause |-> ..])>>   per rejected trace and
        <<"STAT", ToJson([traces |-> n, events |-> m])>>            once.
    Returns dict(rejected=[...], traces=n, events=m, states=.., wall=..).
    """
    t0 = time.time()
    if not traces:
        return dict(rejected=[], traces=0, events=0, states=0, transitions=0, wall=0.0, jvms=0)
    jobs = jobs or NCPU
    if chunk is None:
        chunk = max(1, min(4000, (len(traces) + jobs - 1) // jobs))
    d = subdir("traces-" + module)
    tasks = []
    global _VAL_CALLS
    _VAL_CALLS += 1
    for i in range(0, len(traces), chunk):
        path = os.path.join(d, "batch-%d-%d-%d.json" % (os.getpid(), _VAL_CALLS, i))
        with open(path, "w") as f:
            f.write(json.dumps(traces[i:i + chunk], separators=(",", ":")))
        tasks.append((module, cfg, path, i, timeout, deque))
    rejected, ntr, nev, states, trans = [], 0, 0, 0, 0
    with concurrent.futures.ThreadPoolExecutor(max_workers=jobs) as ex:
        for idx, r in ex.map(_validate_one, tasks):
            stat = [p for k, p in r.printed if k == "STAT"]
            if r.error or r.rc not in (0,) and not stat:
                raise MachineryError("trace validation failed to run (%s batch %d): %s\n%s"
                                     % (module, idx, r.error, "\n".join(r.out.splitlines()[-40:])))
            if not stat:
                raise MachineryError("trace validation printed no STAT (%s batch %d)\n%s"
                                     % (module, idx, "\n".join(r.out.splitlines()[-40:])))
            ntr += stat[0]["traces"]
            nev += stat[0]["events"]
            states += r.distinct
            trans += r.generated
            rejected.extend(p for k, p in r.printed if k == "REJ")
    for t in tasks:
        try:
            os.unlink(t[2])
        except OSError:
            pass
    if ntr != len(traces):
        raise MachineryError("trace validation consumed %d of %d traces (%s)" % (ntr, len(traces), module))
    return dict(rejected=rejected, traces=ntr, events=nev, states=states, transitions=trans,
                wall=time.time() - t0, jvms=len(tasks))


# ---------------------------------------------------------------------------
# Running drivers in worker processes against /repo
# ---------------------------------------------------------------------------

def run_driver(script, payload, hashseed=0, timeout=600, extra_env=None):
    """Run harness/<script> under /venv python with PYTHONPATH=/repo.  payload is
    written to a file whose path is argv[1]; the driver writes JSON to argv[2]."""
    d = subdir("drv")
    tag = hashlib.sha1(("%s-%s-%s" % (script, time.time(), os.urandom(4))).encode()).hexdigest()[:10]
    inp = os.path.join(d, tag + ".in.json")
    outp = os.path.join(d, tag + ".out.json")
    with open(inp, "w") as f:
        json.dump(payload, f, separators=(",", ":"))
    env = dict(os.environ)
    env["PYTHONPATH"] = REPO + os.pathsep + os.path.join(VERIF, "harness")
    env["PYTHONHASHSEED"] = str(hashseed)
    env["PYTHONDONTWRITEBYTECODE"] = "1"
    env.pop("JAVA_TOOL_OPTIONS", None)
    if extra_env:
        env.update(extra_env)
    try:
        p = subprocess.run([PY, os.path.join(VERIF, "harness", script), inp, outp], env=env,
                           stdin=subprocess.DEVNULL, stdout=subprocess.PIPE, stderr=subprocess.STDOUT,
                           universal_newlines=True, timeout=timeout, cwd=scratch())
    except subprocess.TimeoutExpired:
        raise MachineryError("driver %s timed out after %ss" % (script, timeout))
    if p.returncode != 0 or not os.path.exists(outp):
        raise MachineryError("driver %s failed (rc=%s):\n%s" % (script, p.returncode, p.stdout[-4000:]))
    with open(outp) as f:
        out = json.load(f)
    os.unlink(inp)
    os.unlink(outp)
    return out


def run_driver_parallel(script, payloads, hashseeds=None, timeout=600, jobs=None, extra_env=None):
    jobs = jobs or NCPU
    hashseeds = hashseeds or [0]
    outs = [None] * len(payloads)
    with concurrent.futures.ThreadPoolExecutor(max_workers=jobs) as ex:
        futs = {ex.submit(run_driver, script, p, hashseeds[i % len(hashseeds)], timeout, extra_env): i
                for i, p in enumerate(payloads)}
        for f in concurrent.futures.as_completed(futs):
            outs[futs[f]] = f.result()
    return outs


def chunks(lst, n):
    n = max(1, n)
    k = (len(lst) + n - 1) // n if lst else 1
    return [lst[i:i + k] for i in range(0, len(lst), k)] or [[]]


# ---------------------------------------------------------------------------
# Known findings, verdict, evidence
# ---------------------------------------------------------------------------

def load_known():
    out = []
    paths = [os.path.join(VERIF, "known_findings.json")]
    kd = os.path.join(VERIF, "known")
    if os.path.isdir(kd):
        paths += [os.path.join(kd, f) for f in sorted(os.listdir(kd)) if f.endswith(".json")]
    for path in paths:
        if os.path.exists(path):
            with open(path) as f:
                out.extend(json.load(f).get("findings", []))
    return out


class Verdict(object):
    """Collects rejections for one property and turns them into the exit
    status / VIOLATION / KNOWN-FINDING lines required by the interface."""

    def __init__(self, prop, tier):
        self.prop = prop
        self.tier = tier
        self.t0 = _T0
        self.violations = []     # dicts: signature, what, replay
        self.known_hit = {}      # signature -> count
        self.known = {k["signature"]: k for k in load_known()
                      if k.get("property") == prop and k.get("status") == "open"}

    def reject(self, signature, what, replay):
        """Record one rejected trace. signature identifies the failing
        clause and the abstract features of the failing case."""
        if signature in self.known:
            self.known_hit[signature] = self.known_hit.get(signature, 0) + 1
            return
        self.violations.append(dict(signature=signature, what=what, replay=replay))

    def finish(self, evidence):
        os.makedirs(os.path.join(VERIF, "replay"), exist_ok=True)
        for sig in sorted(self.known_hit):
            print("KNOWN-FINDING: property=%s %s (signature %s, %d case(s) this run)"
                  % (self.prop, self.known[sig].get("what", ""), sig, self.known_hit[sig]))
        seen = set()
        n = 0
        for v in self.violations:
            if v["signature"] in seen:
                continue
            seen.add(v["signature"])
            n += 1
            if n > 20:
                break
            name = "%s-%s.json" % (self.prop, hashlib.sha1(v["signature"].encode()).hexdigest()[:12])
            path = os.path.join(VERIF, "replay", name)
            with open(path, "w") as f:
                json.dump(dict(property=self.prop, signature=v["signature"], what=v["what"],
                               replay=v["replay"]), f, indent=1, sort_keys=True, default=str)
            print("VIOLATION property=%s replay=%s" % (self.prop, path))
            print("  signature: %s" % v["signature"])
            print("  what: %s" % (v["what"],))
        evidence["violations"] = len(self.violations)
        evidence["wall_s"] = round(time.time() - self.t0, 2)
        cov = evidence.setdefault("coverage", {})
        cov["known_findings_reproduced"] = sorted(self.known_hit)
        cov["violation_signatures"] = sorted(seen)[:20]
        write_evidence(self.prop, evidence)
        return 1 if self.violations else 0


def write_evidence(prop, ev):
    edir = os.environ.get("VERIF_EVIDENCE_DIR") or os.path.join(VERIF, "evidence")   # (mutant runs write elsewhere)
    os.makedirs(edir, exist_ok=True)
    ev.setdefault("property_id", prop)
    ev.setdefault("seed", seed())
    ev.setdefault("level", "model_checking")
    path = os.path.join(edir, prop + ".json")
    tmp = path + ".tmp%d" % os.getpid()
    with open(tmp, "w") as f:
        json.dump(ev, f, indent=1, sort_keys=True, default=str)
    os.replace(tmp, path)


def evidence(prop, tier, models, val, evaluations, distinct_nontrivial, rule, samples, assumptions,
             extra=None):
    """Assemble an evidence record from TLC model runs (list of TlcResult) and a
    validation summary (dict from validate_traces, or a merged one)."""
    cov = dict(
        states=sum(m.distinct for m in models) + (val or {}).get("states", 0),
        transitions=sum(m.generated for m in models) + (val or {}).get("transitions", 0),
        model_states=sum(m.distinct for m in models),
        model_states_generated=sum(m.generated for m in models),
        traces_validated_against_impl=(val or {}).get("traces", 0),
        trace_events_validated=(val or {}).get("events", 0),
        evaluations=int(evaluations),
        distinct_nontrivial=int(distinct_nontrivial),
        rule=rule,
        samples=samples[:6] if samples else [],
        model_runs=[dict(cmd=m.cmd.split("tlc2.TLC", 1)[-1].strip(), generated=m.generated, distinct=m.distinct,
                         depth=m.depth, wall_s=round(m.wall, 1), coverage=m.coverage) for m in models],
        checker_cmd="tlc (tla2tools 1.8.0) via harness/lib.py",
        exhaustive=False,
    )
    if extra:
        cov.update(extra)
    return dict(property_id=prop, tier=tier, seed=seed(), level="model_checking", coverage=cov,
                assumptions=assumptions)


def merge_val(*vals):
    out = dict(rejected=[], traces=0, events=0, states=0, transitions=0, wall=0.0, jvms=0)
    for v in vals:
        if not v:
            continue
        for k in ("traces", "events", "states", "transitions", "wall", "jvms"):
            out[k] += v.get(k, 0)
        out["rejected"].extend(v.get("rejected", []))
    return out


def sig(*parts):
    return "/".join(str(p) for p in parts)
