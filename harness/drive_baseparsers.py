"""Driver for BaseParsers (C14): concretise abstract inputs (line classes, abstract
documents, abstract logs) to text in seed-chosen ways, run the REAL base
parsers of insights.core on them and record what was observed, abstracted back
to the vocabulary of specs/BaseParsers.tla.  No oracle here: the records are
judged by specs/BaseParsersTrace.tla.

usage: drive_baseparsers.py <in.json> <out.json>
in : {"cases":[{"id":..,"fam":..,"inp":{..}}], "seed": n, "nvar": variants per case,
      "random": {"cmd": n, "doc": n, "search": n, "after": n}}
out: {"traces":[{"id":..,"fam":..,"events":[..]}], "stats":{..}}

The only checks made here are on the driver's own concretisation (R4): a
rendered line must have exactly the abstract features it was rendered from,
the malformed-document catalogue must really be malformed for json / yaml, a
rendered document must load (with the library) to the value it was rendered
from, rendered time stamps must be ordered like their abstract keys.  A
disagreement is a machinery failure (exit code 3 -> MachineryError).
"""
import datetime
import json
import random
import re
import sys

import yaml

from insights.core import CommandParser, JSONParser, LogFileOutput, TextFileOutput, YAMLParser
from insights.core.exceptions import ContentException, ParseException, SkipComponent
from insights.tests import context_wrap


class Machinery(Exception):
    pass


FILL = ["alpha", "kernel", "status", "value", "loaded", "ok", "running", "total", "host", "unit", "green",
        "task", "queue", "level", "zone", "path", "mode", "plain", "usage", "bytes"]


def marker(i):
    # letters only: never looks like a time stamp, never part of a phrase or a term
    return "zq" + "abcdefghij"[i // 10] + "abcdefghij"[i % 10] + "x"


def recase(rng, s):
    how = rng.randrange(5)
    if how == 0:
        return s
    if how == 1:
        return s.upper()
    if how == 2:
        return s.title()
    if how == 3:
        return s.capitalize()
    return "".join(c.upper() if rng.random() < 0.5 else c.lower() for c in s)


def exc_name(e):
    return "other:" + type(e).__name__


# ---------------------------------------------------------------------------
# (1) CommandParser
# ---------------------------------------------------------------------------
SINGLE = list(getattr(CommandParser, "_CommandParser__bad_single_lines"))
MULTI = list(getattr(CommandParser, "_CommandParser__bad_lines"))
EXTRA_POOL = ["error: no data", "cannot open", "permission denied", "timed out waiting",
              # phrases are plain text, whatever characters they contain
              "failed to connect (timeout)", "usage: lsfoo [options]", "no such device.", "unknown option a.b",
              "*** fatal", "error (code [5])", "can't stat /dev/sd?", "a+b not supported"]
# text that does NOT contain the phrase but would match it if the phrase were read as a regular expression
LOOKALIKE = {"failed to connect (timeout)": "failed to connect timeout", "usage: lsfoo [options]": "usage: lsfoo s",
             "no such device.": "no such devices", "unknown option a.b": "unknown option a-b",
             "error (code [5])": "error code 5", "can't stat /dev/sd?": "can't stat /dev/s", "a+b not supported": "aab not supported"}
META = set("()[].*+?")


def cmd_flags(text, extra):
    low = text.lower()
    return dict(sg=any(p in low for p in SINGLE), ml=any(p in low for p in MULTI),
                ex=any(p in low for p in extra))


def run_cmd(inp, rng, stats):
    extra = rng.sample(EXTRA_POOL, rng.choice([1, 2]))
    as_list = rng.random() < 0.3
    lines = []
    for i, c in enumerate(inp["lines"]):
        parts = []
        if c["sg"]:
            parts.append(recase(rng, rng.choice(SINGLE)))
        if c["ml"]:
            parts.append(recase(rng, rng.choice(MULTI)))
        if c["ex"]:
            parts.append(recase(rng, rng.choice(extra)))
        rng.shuffle(parts)
        words = [rng.choice(FILL) for _ in range(rng.randrange(0, 3))]
        if not c["ex"] and rng.random() < 0.4:
            look = [LOOKALIKE[e] for e in extra if e in LOOKALIKE]
            if look:
                words.append(recase(rng, rng.choice(look)))
        pos = rng.randrange(3)          # phrase at the start, in the middle, at the end of the line
        glue = rng.choice([" ", ": ", " - ", "/"])
        body = glue.join(parts)
        mk = marker(i)
        if not parts:
            text = " ".join([mk] + words)
        elif pos == 0:
            text = body + " " + " ".join(words + [mk])
        elif pos == 1:
            text = " ".join([mk] + words) + rng.choice([" ", ": ", "bash: ", "/usr/bin/x: "]) + body + " " + \
                " ".join(words[:1] + ["end"])
        else:
            text = " ".join([mk] + words) + rng.choice([" ", ": ", " sh: "]) + body
        if as_list and rng.random() < 0.3:
            text = "  " + text
        if cmd_flags(text, extra) != dict(sg=c["sg"], ml=c["ml"], ex=c["ex"]):
            raise Machinery("cmd rendering has other features than its class: %r %r" % (text, c))
        lines.append(text)
    if len(set(lines)) != len(lines):
        raise Machinery("cmd rendering produced duplicate lines")
    index = dict((t, i + 1) for i, t in enumerate(lines))

    class Cmd(CommandParser):
        def parse_content(self, content):
            self.seen = list(content)

    class CmdExtra(CommandParser):
        def __init__(self, ctx):
            super(CmdExtra, self).__init__(ctx, extra_bad_lines=list(extra))

        def parse_content(self, content):
            self.seen = list(content)

    ctx = context_wrap(list(lines)) if as_list else context_wrap("\n".join(lines))
    seen = []
    try:
        obj = (CmdExtra if inp["extra"] else Cmd)(ctx)
        outcome = "ok"
        seen = [index.get(l, 0) for l in obj.seen]
    except ContentException:
        outcome = "content"
    except Exception as e:      # noqa
        outcome = exc_name(e)
    stats["cmd_" + outcome.split(":")[0]] = stats.get("cmd_" + outcome.split(":")[0], 0) + 1
    return [dict(ev="cmd", lines=inp["lines"], extra=bool(inp["extra"]), outcome=outcome, seen=seen,
                 meta=any(ch in META for e in extra for ch in e), text=lines[:6], extra_bad_lines=extra)]


# ---------------------------------------------------------------------------
# (2) JSON / YAML documents
# ---------------------------------------------------------------------------
WORDS = ["node", "eth", "tuned", "profile", "crash", "uuid", "region", "east", "desc", "size", "owner", "label"]
BAD_JSON = {1: '{"a": 1', 2: '{"a": 1} trailing', 3: "{'a': 1}", 4: "not json at all", 5: "[1, 2,]",
            6: '{"a": [1, 2}'}
BAD_YAML = {1: "a: [1, 2", 2: "a: b: c", 3: "a: 1\n\tb: 2", 4: "- a\nb: c", 5: "{a: 1, b", 6: 'key: "unterminated'}
IGNORE = ("warning", "note:")
# well-formed YAML whose value cannot be constructed (kinds 7..12): fragments that stand where a scalar may stand
UNLOADABLE_YAML = {
    7: ["2019-02-30", "2001-13-45", "2019-02-28 25:00:00", "2019-02-28T10:00:00+99:00", "2023-02-29"],
    8: ["!!int 'many'", "!!float 'abc'", "!!int '12x'", "!!float '1.2.3'"],
    9: ["!!timestamp 'yesterday'", "!!timestamp 'soon'"],
    10: ["!!bool 'maybe'", "!!bool 'ja'"],
    11: ["!!binary 'a'", "!unknown x", "!!python/object:os.system x", "!!omap x", "!!pairs x"],
    12: ["0x_", "!!int ''", "!!int '0x_'"],
}
JSON_DEPTH = 100000      # nesting far beyond what json.loads can build (RecursionError, not a ValueError)


def unloadable_yaml(n, rng):
    frag = rng.choice(UNLOADABLE_YAML[n])
    key = rng.choice(WORDS)
    place = rng.randrange(6)
    if place == 0:
        return frag
    if place == 1:
        return "%s: %s" % (key, frag)
    if place == 2:
        return "- %s" % frag
    if place == 3:
        return "type: Acquisition\n%s: %s\nsize: 3" % (key, frag)
    if place == 4:
        return "%s:\n  - ok\n  - %s" % (key, frag)
    return "- name: x\n  %s: %s\n- name: y" % (key, frag)


def check_catalogue():
    for k, t in BAD_JSON.items():
        try:
            json.loads(t)
        except ValueError:
            continue
        raise Machinery("malformed JSON catalogue entry %d loads" % k)
    for k, t in BAD_YAML.items():
        try:
            yaml.safe_load(t)
        except yaml.YAMLError:
            continue
        raise Machinery("malformed YAML catalogue entry %d loads" % k)
    for k, frags in UNLOADABLE_YAML.items():
        for frag in frags:
            for text in (frag, "k: " + frag, "- " + frag):
                try:
                    yaml.safe_load(text)
                except Exception:       # noqa  (the library fails; which exception it uses is its business)
                    continue
                raise Machinery("unloadable YAML catalogue entry %d %r loads" % (k, text))
    try:
        json.loads("[" * JSON_DEPTH + "]" * JSON_DEPTH)
    except Exception:       # noqa
        pass
    else:
        raise Machinery("deeply nested JSON loads")


def node(t, s="", n=0, xs=()):
    return dict(t=t, s=s, n=n, xs=list(xs))


def fresh_word(names, rng):
    used = names.setdefault("_used", set())
    w = rng.choice([x for x in WORDS if x not in used])
    used.add(w)
    return w


def concretise_doc(d, names, rng):
    """abstract node -> concrete node (same shape, concrete strings / numbers)"""
    t = d["t"]
    if t == "str":
        key = "s:" + d["s"]
        if key not in names:
            names[key] = fresh_word(names, rng) + rng.choice(["", " x", "-1", "_b", " two words"])
        return node("str", names[key])
    if t == "int":
        key = "i:%d" % d["n"]
        if key not in names:
            names[key] = 0 if d["n"] == 0 and rng.random() < 0.7 else \
                rng.choice([1, 7, -3, 42, 1024, 65536, 2147483000]) + (0 if d["n"] else 1)
        return node("int", n=names[key])
    if t == "ent":
        key = "k:" + d["s"]
        if key not in names:
            names[key] = fresh_word(names, rng) + rng.choice(["", "_id", "-x"])
        return node("ent", s=names[key], xs=[concretise_doc(d["xs"][0], names, rng)])
    if t in ("map", "seq"):
        return node(t, xs=[concretise_doc(x, names, rng) for x in d["xs"]])
    return node(t, d.get("s", ""), d.get("n", 0))


def to_py(d):
    t = d["t"]
    if t == "map":
        return dict((e["s"], to_py(e["xs"][0])) for e in d["xs"])
    if t == "seq":
        return [to_py(x) for x in d["xs"]]
    if t == "str":
        return d["s"]
    if t == "int":
        return d["n"]
    if t == "bool":
        return bool(d["n"])
    if t == "null":
        return None
    raise Machinery("no python value for node %r" % t)


def to_node(v):
    if isinstance(v, dict):
        return node("map", xs=[node("ent", s=k if isinstance(k, str) else "?" + repr(k), xs=[to_node(x)])
                               for k, x in v.items()])
    if isinstance(v, list):
        return node("seq", xs=[to_node(x) for x in v])
    if isinstance(v, bool):
        return node("bool", n=int(v))
    if isinstance(v, int) and abs(v) < 2 ** 31:
        return node("int", n=v)
    if isinstance(v, str):
        return node("str", s=v)
    if v is None:
        return node("null")
    return node("other", s=type(v).__name__ + ":" + repr(v)[:40])


PLAIN_OK = re.compile(r"^[A-Za-z][A-Za-z0-9_ -]*[A-Za-z0-9_]$|^[A-Za-z]$")
RESERVED = {"true", "false", "null", "yes", "no", "on", "off", "y", "n"}


def yaml_scalar(v, rng):
    if v is None:
        return rng.choice(["null", "~", "Null"])
    if isinstance(v, bool):
        return rng.choice(["true", "True"]) if v else rng.choice(["false", "False"])
    if isinstance(v, int):
        return str(v)
    q = rng.randrange(3)
    if q == 0 or '"' in v or "\\" in v:
        if "'" not in v:
            return "'%s'" % v
    if q == 2 and PLAIN_OK.match(v) and v.lower() not in RESERVED:
        return v
    return '"%s"' % v


def yaml_block(v, rng, ind=0):
    """own block-style emitter (several quoting styles); returns lines"""
    pad = " " * ind
    if isinstance(v, dict):
        if not v:
            return [pad + "{}"]
        out = []
        for key, x in v.items():
            if isinstance(x, (dict, list)) and x:
                out.append(pad + "%s:" % key)
                out.extend(yaml_block(x, rng, ind + 2))
            else:
                out.append(pad + "%s: %s" % (key, yaml_block(x, rng, 0)[0]))
        return out
    if isinstance(v, list):
        if not v:
            return [pad + "[]"]
        out = []
        for x in v:
            if isinstance(x, (dict, list)) and x:
                sub = yaml_block(x, rng, ind + 2)
                out.append(pad + "- " + sub[0][ind + 2:])
                out.extend(sub[1:])
            else:
                out.append(pad + "- " + yaml_block(x, rng, 0)[0])
        return out
    return [pad + yaml_scalar(v, rng)]


def render_doc(fmt, cdoc, rng):
    """text (list of lines) of a concrete document node"""
    t = cdoc["t"]
    if t == "empty":
        return []
    if t == "bad" and cdoc["n"] > 6:
        if fmt == "json":
            depth = JSON_DEPTH + rng.randrange(0, 1000)
            deep = "[" * depth + "]" * depth                                  # balanced, yet never loads
            return [rng.choice([deep, '{"a": ' + deep + "}", "[1, " + deep + "]"])]
        text = unloadable_yaml(cdoc["n"], rng)
        try:
            yaml.safe_load(text)
        except Exception:       # noqa
            return text.split("\n")
        raise Machinery("unloadable YAML rendering %r loads" % text)
    if t == "bad":
        return (BAD_JSON if fmt == "json" else BAD_YAML)[cdoc["n"]].split("\n")
    v = to_py(cdoc)
    if fmt == "json":
        style = rng.randrange(4)
        if style == 0:
            text = json.dumps(v)
        elif style == 1:
            text = json.dumps(v, indent=rng.choice([1, 2, 4]))
        elif style == 2:
            text = json.dumps(v, separators=(",", ":"))
        else:
            text = json.dumps(v, indent=2, separators=(", ", " : "))
        if json.loads(text) != v:
            raise Machinery("json rendering does not load to the value")
        return text.split("\n")
    if t in ("map", "seq"):
        style = rng.randrange(4)
        if style == 0:
            text = yaml.safe_dump(v, default_flow_style=False, sort_keys=False)
        elif style == 1:
            text = yaml.safe_dump(v, default_flow_style=True, sort_keys=False, width=1000)
        elif style == 2:
            text = "\n".join(yaml_block(v, rng))
        else:
            text = yaml.safe_dump(v, default_flow_style=False, sort_keys=False, explicit_start=True, indent=4)
    elif t == "null":
        text = rng.choice(["null", "~", "# only a comment", "---"])
    else:
        text = yaml_scalar(v, rng)
        if t == "str" and not text.startswith(("'", '"')) and yaml.safe_load(text) != v:
            text = '"%s"' % v
    text = text.rstrip("\n")
    got = yaml.safe_load(text)
    if got != v or type(got) is not type(v):
        raise Machinery("yaml rendering %r does not load to the value %r" % (text, v))
    return text.split("\n")


def run_doc(inp, rng, stats):
    fmt, noise = inp["fmt"], inp["noise"]
    cdoc = concretise_doc(inp["doc"], {}, rng) if not inp.get("concrete") else inp["doc"]
    lines = render_doc(fmt, cdoc, rng)
    indented = False
    blank_noise = False
    if fmt == "json" and cdoc["t"] not in ("empty", "bad"):
        # white space around JSON tokens is insignificant: indent the document's lines (all alike, or each on its
        # own), pad them on the right; the start line after noise may thus begin with blanks or a tab
        how = rng.randrange(5)
        if how in (1, 2):
            pre = rng.choice([" ", "  ", "   ", "    ", "\t"])
            lines = [pre + l for l in lines]
        elif how == 3:
            lines = [rng.choice(["", " ", "  ", "    ", "\t"]) + l for l in lines]
        if how == 4 or rng.random() < 0.2:
            lines = [l + rng.choice(["", " ", "  "]) for l in lines]
        indented = lines[0][:1] in (" ", "\t")
        if json.loads("\n".join(lines)) != to_py(cdoc):
            raise Machinery("indented json rendering does not load to the value")
    if fmt == "json":
        pool = ["WARNING: plugin loaded", "Loaded plugins: a, b", "  note: something (x)", "= header =",
                "time=12 level=info", "\"quoted\" noise", "12345 packages", "]{ not a start"]
        nl = [rng.choice(pool) for _ in range(noise)]
        if cdoc["t"] != "empty":
            # blank and white-space-only lines are noise too, in any position (not before an empty document: the
            # content would then be nothing but white space)
            nl = [rng.choice(["", " ", "    ", "\t"]) if rng.random() < 0.3 else l for l in nl]
        blank_noise = any(not l.strip() for l in nl)
        for l in nl:
            if not l.strip():
                continue
            if l.strip().startswith(("{", "[")):
                raise Machinery("noise line starts like JSON")
            try:
                json.loads(l)
            except ValueError:
                continue
            raise Machinery("noise line is a JSON document")
        lines = nl + lines
    else:
        for l in lines:
            if l.lstrip().lower().startswith(IGNORE):
                raise Machinery("document line looks like an ignored line")
        for _ in range(noise):
            kw = recase(rng, rng.choice(IGNORE))
            l = rng.choice(["", "  "]) + kw + rng.choice([" something: [", " x", ": {a", ""])
            # ignored lines are not part of the document wherever they stand; the first
            # line of the content is not indented (context_wrap strips the content)
            pos = rng.randrange(0, len(lines) + 1)
            if pos == 0:
                l = l.lstrip()
            lines = lines[:pos] + [l] + lines[pos:]

    class Js(JSONParser):
        pass

    class Ym(YAMLParser):
        ignore_lines = IGNORE if (noise or rng.random() < 0.5) else tuple()

    ctx = context_wrap("\n".join(lines)) if rng.random() < 0.7 else context_wrap(list(lines))
    value = node("null")
    try:
        obj = (Js if fmt == "json" else Ym)(ctx)
        outcome = "value"
        value = to_node(obj.data)
    except ParseException:
        outcome = "parse"
    except SkipComponent:
        outcome = "skip"
    except Exception as e:      # noqa
        outcome = exc_name(e)
    stats["doc_" + outcome.split(":")[0]] = stats.get("doc_" + outcome.split(":")[0], 0) + 1
    return [dict(ev="doc", fmt=fmt, noise=noise, doc=cdoc, outcome=outcome, value=value, ind=indented, bn=blank_noise,
                 text=[l[:200] for l in lines[:8]])]


# ---------------------------------------------------------------------------
# (3) line search
# ---------------------------------------------------------------------------
TERMS = ["Error", "eth0", "Failed to", "OOM-kill", "segfault at", "rc=1", "[crit]", "Timeout"]


def decoy(rng, term):
    """something that looks like the term but does not contain it"""
    c = [term.lower() if term.lower() != term else term.upper(), term[:-1], term[1:], term[0] + " " + term[1:]]
    return rng.choice(c)


def render_term_lines(flags_per_line, terms, rng):
    lines = []
    for i, flags in enumerate(flags_per_line):
        toks = [marker(i)] + [rng.choice(FILL) for _ in range(rng.randrange(0, 3))]
        for j, f in enumerate(flags):
            if j >= len(terms):
                continue
            if f:
                toks.insert(rng.randrange(0, len(toks) + 1), terms[j])
            elif rng.random() < 0.5:
                toks.insert(rng.randrange(0, len(toks) + 1), decoy(rng, terms[j]))
        text = " ".join(toks)
        for j, f in enumerate(flags):
            if j < len(terms) and (terms[j] in text) != bool(f):
                raise Machinery("search rendering: line %r term %r flag %r" % (text, terms[j], f))
        lines.append(text)
    if len(set(lines)) != len(lines):
        raise Machinery("search rendering produced duplicate lines")
    return lines


def run_search(inp, rng, stats):
    q = inp["q"]
    nterms = max([len(l) for l in inp["lines"]] + list(q["terms"]) + [2])
    terms = rng.sample(TERMS, nterms)
    lines = render_term_lines(inp["lines"], terms, rng)
    index = dict((t, i + 1) for i, t in enumerate(lines))
    s = terms[q["terms"][0] - 1] if q["single"] else [terms[t - 1] for t in q["terms"]]
    check = any if q["any"] else all
    num = None if q["num"] < 0 else q["num"]
    base = LogFileOutput if rng.random() < 0.5 else TextFileOutput

    class Log(base):
        pass

    Log.keep_scan("r_keep", s, check=check, num=num, reverse=bool(q["rev"]))
    Log.last_scan("r_last", s, check=check)
    Log.token_scan("r_tok", s, check=check)
    ctx = context_wrap("\n".join(lines)) if lines and rng.random() < 0.6 else context_wrap(list(lines))
    evs = []

    def idx(rows):
        return [index.get(r.get("raw_message"), 0) for r in rows]

    def record(via, fn):
        exc = ""
        res = []
        try:
            res = fn()
        except Exception as e:      # noqa
            exc = type(e).__name__
        evs.append(dict(ev="search", via=via, lines=inp["lines"], q=q, res=res, exc=exc, text=lines[:6], s=s))

    try:
        obj = Log(ctx)
    except Exception as e:      # noqa
        return [dict(ev="search", via="get", lines=inp["lines"], q=q, res=[], exc=type(e).__name__, text=lines[:6])]
    record("get", lambda: idx(obj.get(s, check=check, num=num, reverse=bool(q["rev"]))))
    record("keep_scan", lambda: idx(obj.r_keep))
    record("last_scan", lambda: idx([obj.r_last] if obj.r_last else []))
    record("token_scan", lambda: [0] if obj.r_tok else [])
    if not q["any"]:
        record("contains", lambda: [0] if (s in obj) else [])
    stats["search_calls"] = stats.get("search_calls", 0) + len(evs)
    return evs


# ---------------------------------------------------------------------------
# (4) get_after
# ---------------------------------------------------------------------------
FMT_YEAR = ["%Y-%m-%d %H:%M:%S", "%d/%b/%Y:%H:%M:%S", "%y%m%d %H:%M:%S", "%Y%m%d-%H%M%S", "%b %d %H:%M:%S %Y",
            "%a %b %d %H:%M:%S %Y", "%Y-%m-%dT%H:%M:%S"]
FMT_NOYEAR = ["%b %d %H:%M:%S", "%m-%d %H:%M:%S", "%m/%d %H:%M:%S", "%d %b %H:%M:%S"]
# list / dict formats: alternatives that cannot be confused with one another
LIST_YEAR = [["%Y-%m-%d %H:%M:%S", "%d/%b/%Y:%H:%M:%S"], ["%d/%b/%Y:%H:%M:%S", "%Y%m%d-%H%M%S"],
             ["%Y-%m-%dT%H:%M:%S", "%a %b %d %H:%M:%S %Y"]]
# a list / dict that MIXES a format with a year and one without (each stamp is rendered in the format of its kind)
LIST_MIXED = [["%Y-%m-%d %H:%M:%S", "%b %d %H:%M:%S"], ["%d/%b/%Y:%H:%M:%S", "%m/%d %H:%M:%S"],
              ["%Y-%m-%dT%H:%M:%S", "%d %b %H:%M:%S"], ["%Y%m%d-%H%M%S", "%b %d %H:%M:%S"],
              ["%y%m%d %H:%M:%S", "%b %d %H:%M:%S"]]
LIST_NOYEAR = [["%b %d %H:%M:%S", "%m/%d %H:%M:%S"], ["%m-%d %H:%M:%S", "%d %b %H:%M:%S"]]
YEAR_SHIFTS = [-16, -12, -8, -4, 0, 0, 4, 8, 20, 40]         # 2003..2061: two-digit years stay unambiguous


def stamp(y, mo, d, slot, slots):
    sec = slots[slot]
    return datetime.datetime(y, mo, d, sec // 3600, (sec // 60) % 60, sec % 60)


def shift_years(inp, k):
    """the same case k years later (k a multiple of 4: same leap pattern between 1901 and 2099)"""
    inp = json.loads(json.dumps(inp))
    inp["T"]["y"] += k
    for ln in inp["lines"]:
        if ln["has"] and ln["y"]:
            ln["y"] += k
    return inp


def fmt_stamp(dt, fmt, rng, spacepad):
    if spacepad and "%b %d" in fmt:
        # syslog style: the day of the month padded with a blank
        return dt.strftime(fmt.replace("%b %d", "%b @@")).replace("@@", "%2d" % dt.day)
    return dt.strftime(fmt)


def run_after(inp, rng, stats):
    hy = bool(inp["hy"])
    if not inp.get("concrete"):
        inp = shift_years(inp, rng.choice(YEAR_SHIFTS))
    slots = sorted(rng.sample(range(0, 86400), 3))
    if rng.random() < 0.3:
        slots = [0, rng.randrange(1, 86399), 86399]
    mixed = bool(inp.get("mx"))
    kind = rng.choice(["list", "dict"]) if mixed else rng.choice(["str", "str", "list", "dict"])
    if kind == "str":
        fmts = [rng.choice(FMT_YEAR if hy else FMT_NOYEAR)]
        tf = fmts[0]
    else:
        fmts = rng.choice(LIST_MIXED if mixed else (LIST_YEAR if hy else LIST_NOYEAR))
        fmt_year, fmt_noyear = fmts[0], fmts[1]
        if rng.random() < 0.5:
            fmts = fmts[::-1]
        tf = list(fmts) if kind == "list" else dict(("fmt_%d" % i, f) for i, f in enumerate(fmts))
    spacepad = rng.random() < 0.5
    T = inp["T"]
    Tdt = stamp(T["y"], T["mo"], T["d"], T["s"], slots)
    ords = []
    sterms = rng.sample(TERMS, 2)
    smode = rng.choice(["str", "list1", "list2"]) if inp["filt"] else "none"
    need = {"none": [], "str": sterms[:1], "list1": sterms[:1], "list2": sterms}[smode]
    lines = []
    for i, ln in enumerate(inp["lines"]):
        words = [rng.choice(FILL) for _ in range(rng.randrange(1, 3))]
        if not inp["filt"]:
            have = rng.sample(sterms, rng.randrange(0, 3))      # no search string given: irrelevant
        elif ln["m"]:
            have = list(need)
        else:
            # not matching: at most a proper part of what is asked for
            have = [] if len(need) < 2 else rng.choice([[], need[:1], need[1:]])
            if rng.random() < 0.5:
                words.append(decoy(rng, rng.choice([n for n in need if n not in have])))
        for h in have:
            words.insert(rng.randrange(0, len(words) + 1), h)
        body = " ".join(words)
        if ln["has"]:
            # a year-less stamp is rendered from its month / day in the sought year (never 29 February)
            dt = stamp(ln["y"] or T["y"], ln["mo"], ln["d"], ln["s"], slots)
            ords.append(dt.toordinal())
            use = rng.choice(fmts) if not mixed else (fmt_year if ln["y"] else fmt_noyear)
            ts = fmt_stamp(dt, use, rng, spacepad)
            if (dt.toordinal() == Tdt.toordinal()) and ((ln["s"] >= T["s"]) != (dt >= Tdt)):
                raise Machinery("slot rendering is not order preserving")
            style = rng.randrange(4)
            if style == 0:
                text = "%s %s %s" % (ts, marker(i), body)
            elif style == 1:
                text = "[%s] %s %s" % (ts, marker(i), body)
            elif style == 2:
                text = "%s %s: %s" % (marker(i), ts, body)
            else:
                text = "%s %s[%s] %s" % (marker(i), rng.choice(FILL), ts, body)
        else:
            ords.append(0)
            text = rng.choice(["", "    ", "\t"]) + "%s %s" % (marker(i), body)
            if i == 0 or rng.random() < 0.5:
                text = text.lstrip()
        if inp["filt"]:
            m = all(t in text for t in need)
            if m != bool(ln["m"]):
                raise Machinery("after rendering: line %r match %r flag %r" % (text, m, ln["m"]))
        lines.append(text)
    if len(set(lines)) != len(lines):
        raise Machinery("after rendering produced duplicate lines")
    index = dict((t, i + 1) for i, t in enumerate(lines))

    class Log(LogFileOutput):
        time_format = tf

    s = {"none": None, "str": need[0] if need else None, "list1": list(need), "list2": list(need)}[smode]
    ctx = context_wrap("\n".join(lines)) if lines and rng.random() < 0.6 else context_wrap(list(lines))
    exc, res = "", []
    try:
        obj = Log(ctx)
        res = [index.get(r.get("raw_message"), 0) for r in obj.get_after(Tdt, s)]
    except Exception as e:      # noqa
        exc = type(e).__name__
    stats["after_calls"] = stats.get("after_calls", 0) + 1
    inp.pop("concrete", None)
    return [dict(ev="after", inp=inp, res=res, exc=exc, tord=Tdt.toordinal(), ords=ords, text=lines[:6],
                 fmt_used=str(tf), T=str(Tdt))]


# ---------------------------------------------------------------------------
# random inputs beyond TLC's bounds (same abstract vocabulary)
# ---------------------------------------------------------------------------
def rand_cmd(rng):
    n = rng.choice([0, 1, 1, 1, 2, 2, 3, 5, 8])
    p = rng.choice([0.1, 0.3, 0.6])
    return dict(lines=[dict(sg=rng.random() < p, ml=rng.random() < p / 2, ex=rng.random() < p / 2)
                       for _ in range(n)], extra=rng.random() < 0.5)


def rand_node(rng, depth):
    r = rng.random()
    if depth <= 0 or r < 0.35:
        k = rng.randrange(5)
        if k == 0:
            return node("str", s=rng.choice(WORDS) + rng.choice(["", " b", "-9", ": x", " # y"]))
        if k == 1:
            return node("int", n=rng.choice([0, 1, -1, 443, 2147483647, -2147483000]))
        if k == 2:
            return node("bool", n=rng.randrange(2))
        if k == 3:
            return node("null")
        return node(rng.choice(["map", "seq"]))
    if r < 0.7:
        keys = rng.sample(WORDS, rng.randrange(0, 5))
        return node("map", xs=[node("ent", s=key, xs=[rand_node(rng, depth - 1)]) for key in keys])
    return node("seq", xs=[rand_node(rng, depth - 1) for _ in range(rng.randrange(0, 5))])


def rand_doc(rng):
    r = rng.random()
    if r < 0.7:
        d = rand_node(rng, rng.choice([1, 2, 3, 4]))
    elif r < 0.8:
        d = node("empty")
    else:
        d = node("bad", n=rng.randrange(1, 13))
    return dict(doc=d, fmt=rng.choice(["json", "yaml"]), noise=rng.choice([0, 0, 1, 2, 3]), concrete=True)


def rand_search(rng):
    nt = rng.choice([2, 3, 4])
    n = rng.randrange(0, 13)
    p = rng.choice([0.2, 0.5, 0.8])
    lines = [[rng.random() < p for _ in range(nt)] for _ in range(n)]
    single = rng.random() < 0.25
    terms = [rng.randrange(1, nt + 1)] if single else rng.sample(range(1, nt + 1), rng.randrange(1, nt + 1))
    return dict(lines=lines, q=dict(terms=terms, single=single, any=(not single and rng.random() < 0.5),
                                    num=rng.choice([-1, -1, 0, 1, 2, 3, 5, 20]), rev=rng.random() < 0.5))


SPECIAL_DAYS = [(1, 1), (1, 2), (1, 15), (2, 3), (2, 4), (2, 5), (2, 28), (3, 1), (6, 30), (11, 26), (11, 27), (11, 28),
                (12, 15), (12, 30), (12, 31)]


def rand_date(rng, year, allow_feb29):
    if rng.random() < 0.6:
        mo, d = rng.choice(SPECIAL_DAYS)
    else:
        day = datetime.date(year, 1, 1) + datetime.timedelta(days=rng.randrange(0, 365))
        mo, d = day.month, day.day
    if (mo, d) == (2, 29) and not allow_feb29:
        d = 28
    return mo, d


def rand_after(rng):
    mode = rng.choice(["year", "year", "noyear", "noyear", "noyear", "mixed", "mixed"])
    hy = mode == "year"
    filt = rng.random() < 0.4
    n = rng.randrange(0, 11)
    ty = rng.choice([2015, 2016, 2017, 2019, 2020, 2020, 2021, 2023, 2024, 2024, 2028])
    tmo, td = rand_date(rng, ty, False)
    T = dict(y=ty, mo=tmo, d=td, s=rng.randrange(3))
    tday = datetime.date(ty, tmo, td)
    lines = []
    for _ in range(n):
        if rng.random() < 0.4:
            lines.append(dict(has=False, y=0, mo=0, d=0, s=0, m=rng.random() < 0.6))
            continue
        if rng.random() < 0.5:
            day = tday + datetime.timedelta(days=rng.choice([-1, 0, 0, 0, 1]))        # around the sought time
            y, mo, d = day.year, day.month, day.day
        else:
            y = rng.choice([ty - 1, ty, ty, ty, ty + 1])
            mo, d = rand_date(rng, y, hy)
        with_year = hy or (mode == "mixed" and rng.random() < 0.5)
        if with_year and (mo, d) == (2, 29) and not (y % 4 == 0):
            d = 28
        if not with_year and (mo, d) == (2, 29):
            d = 28
        lines.append(dict(has=True, y=(y if with_year else 0), mo=mo, d=d, s=rng.randrange(3), m=rng.random() < 0.6))
    if not filt:
        for l in lines:
            l["m"] = True
    return dict(lines=lines, T=T, hy=hy, mx=(mode == "mixed"), filt=filt, concrete=True)


RUN = {"cmd": run_cmd, "doc": run_doc, "search": run_search, "after": run_after, "year": run_after,
       "mixed": run_after}
RAND = {"cmd": rand_cmd, "doc": rand_doc, "search": rand_search, "after": rand_after}


def main():
    with open(sys.argv[1]) as f:
        payload = json.load(f)
    seed = payload.get("seed", 0)
    nvar = payload.get("nvar", 1)
    stats = {}
    traces = []
    check_catalogue()
    try:
        for c in payload.get("cases", []):
            for v in range(nvar):
                rng = random.Random("%s/%s/%d" % (seed, c["id"], v))
                evs = RUN[c["fam"]](c["inp"], rng, stats)
                traces.append(dict(id="%s/v%d" % (c["id"], v), fam=c["fam"], events=evs))
        for fam, n in sorted(payload.get("random", {}).items()):
            for i in range(n):
                rng = random.Random("%s/rand/%s/%s/%d" % (seed, payload.get("chunk", 0), fam, i))
                inp = RAND[fam](rng)
                evs = RUN[fam](inp, rng, stats)
                traces.append(dict(id="rand-%s-%s-%d/v0" % (fam, payload.get("chunk", 0), i), fam=fam, events=evs))
    except Machinery as e:
        sys.stderr.write("MACHINERY: %s\n" % e)
        print("MACHINERY: %s" % e)
        sys.exit(3)
    with open(sys.argv[2], "w") as f:
        json.dump(dict(traces=traces, stats=stats), f, separators=(",", ":"))


if __name__ == "__main__":
    main()
