"""C15: shared text-format helpers.  Model: specs/TextHelpers.tla (+ TextHelpersMC
emission), trace validation: specs/TextHelpersTrace.tla, driver: harness/drive_texthelpers.py."""
import concurrent.futures
import copy
import hashlib
import json
import os
import random
import time

import lib

INVARIANTS = ["Admitted", "NormalIdempotent", "CommentsInert", "LaterWins", "SearchExact"]

# family -> (N quick, N thorough)
BOUNDS = {"kv": (3, 3), "active": (2, 2), "fixed": (2, 2), "delim": (2, 3), "search": (2, 2), "ini": (3, 4)}
DEEP = {"kv": True, "active": False, "fixed": True, "delim": False, "search": False, "ini": False}   # thorough only
NVAR = {"quick": {"kv": 1, "active": 2, "fixed": 1, "delim": 1, "search": 1, "ini": 1},
        "thorough": {"kv": 2, "active": 3, "fixed": 1, "delim": 2, "search": 2, "ini": 1}}
CAP = {"quick": {"kv": 4500, "active": 1000, "fixed": 6000, "delim": 2000, "search": 4000, "ini": 4000},
       "thorough": {"kv": 30000, "active": 10 ** 6, "fixed": 60000, "delim": 20000, "search": 10 ** 6, "ini": 40000}}
NRAND = {"quick": {"kv": 1000, "active": 500, "fixed": 1500, "delim": 1000, "search": 1000, "ini": 1000},
         "thorough": {"kv": 20000, "active": 8000, "fixed": 30000, "delim": 20000, "search": 20000, "ini": 20000}}

ASSUMPTIONS = [
    "documents are rendered by the driver (harness/drive_texthelpers.py); the characters, spacings, cell offsets and "
    "comment styles underneath an abstract document are sampled from VERIF_SEED, not enumerated",
    "Admits* (specs/TextHelpers.tla) delimits the quantifier: keys/values/cells stripped, no comment string inside "
    "values, cells fit their column, heading names without blanks and pairwise distinct, options inside sections, no "
    "section named like DEFAULT, INI values without '#', not starting with '[' and not ending in a backslash, all "
    "option lines of a document equally indented, no continuation lines",
    "row order is compared exactly; within a row / section / unordered key-value result only the mapping is compared",
    "bounds: exhaustive over tiny alphabets for the stated sizes only; larger documents are seeded random",
]


def cfg_text(fam, n, deep):
    lines = ["SPECIFICATION Spec", "CONSTANTS", '  Fam = "%s"' % fam, "  N = %d" % n,
             "  Deep = %s" % ("TRUE" if deep else "FALSE")]
    lines += ["INVARIANT %s" % i for i in INVARIANTS]
    lines += ["CONSTRAINT Emit", "CHECK_DEADLOCK FALSE"]
    return "\n".join(lines) + "\n"


DEBUG_FIELDS = ("text",)


def slim(trace):
    """the rendered text is kept for the replay file only; TLC gets the abstract event"""
    return dict(id=trace["id"], events=[dict((k, v) for k, v in e.items() if k not in DEBUG_FIELDS)
                                        for e in trace["events"]])


def mutate(trace, rng):
    """binding self-test: corrupt one observed field of an accepted trace"""
    t = copy.deepcopy(trace)
    e = t["events"][rng.randrange(len(t["events"]))]
    ev = e["ev"]
    if ev in ("kv",):
        if e["res"]:
            e["res"][rng.randrange(len(e["res"]))]["v"].append("!")
        else:
            e["res"] = [dict(k=["q"], v=[])]
    elif ev == "active":
        e["res"] = e["res"][:-1] if e["res"] else [["q"]]
    elif ev in ("fixed", "delim"):
        if e["res"]:
            r = e["res"][rng.randrange(len(e["res"]))]
            r[rng.randrange(len(r))]["v"].append("!")
        else:
            e["res"] = [[dict(k=["q"], v=[])]]
    elif ev == "search":
        e["res"] = e["res"][:-1] if e["res"] else [1]
    else:
        if e["secs"] and e["secs"][-1]["opts"]:
            e["secs"][-1]["opts"][0]["k"] = [c.upper() for c in e["secs"][-1]["opts"][0]["k"]] + ["!"]
        else:
            e["secs"] = e["secs"] + [dict(name=["q"], opts=[])]
    t["events"] = [e]
    t["id"] = "selftest/" + t["id"]
    return t


def inp_of(e):
    for k in ("doc", "tab", "inp"):
        if k in e:
            return e[k]
    return dict(lines=e.get("lines"), cc=e.get("cc"))


def nontrivial(e):
    i = inp_of(e)
    for k in ("lines", "rows", "items"):
        if k in i:
            return len(i[k]) > (1 if k == "items" else 0)
    return True


def run(prop, tier):
    rng = random.Random(lib.seed())
    quick = tier == "quick"
    t0 = time.time()
    gen = lib.subdir("gencfg")
    jobs = []
    for fam, (nq, nt) in sorted(BOUNDS.items()):
        cfgp = os.path.join(gen, "TextHelpersMC_%s.cfg" % fam)
        with open(cfgp, "w") as f:
            f.write(cfg_text(fam, nq if quick else nt, (not quick) and DEEP[fam]))
        jobs.append((fam, cfgp))
    # the long-running families first
    jobs.sort(key=lambda j: {"fixed": 0, "search": 1}.get(j[0], 2))

    def one(job):
        fam, cfgp = job
        r = lib.run_tlc("TextHelpersMC", cfgp, workers=(2 if lib.NCPU >= 4 else 1), tag="th-" + fam, timeout=3000, raw_cases=True)
        return fam, lib.require_ok(r, "TextHelpers model " + fam)

    models, cases, emitted, features = [], [], 0, {}
    with concurrent.futures.ThreadPoolExecutor(max_workers=max(1, min(len(jobs), lib.NCPU // 2))) as ex:
        for fam, r in ex.map(one, jobs):
            raw = r.cases
            emitted += len(raw)
            r.cases = []
            r.fam = fam
            models.append(r)
            idx = list(range(len(raw)))
            if len(idx) > CAP[tier][fam]:
                # the model run stays exhaustive; the replay takes a VERIF_SEED-determined sample
                rng.shuffle(idx)
                idx = sorted(idx[:CAP[tier][fam]])
            for i in idx:
                c = lib.parse_case(raw[i])
                cases.append(dict(id="%s#%d" % (fam, i), fam=fam, inp=c["inp"], feature=c.get("feature", "")))
                if c.get("feature"):
                    features[c["feature"]] = features.get(c["feature"], 0) + 1
    fams = set(c["fam"] for c in cases)
    if fams != set(BOUNDS):
        raise lib.MachineryError("no cases emitted for %s" % sorted(set(BOUNDS) - fams))
    print("timing: models %.1fs, %d abstract documents emitted, %d replayed" % (time.time() - t0, emitted, len(cases)))

    t1 = time.time()
    njobs = max(1, min(lib.NCPU, 8))
    payloads = []
    byfam = {}
    for c in cases:
        byfam.setdefault(c["fam"], []).append(dict(id=c["id"], fam=c["fam"], inp=c["inp"]))
    for fam, cs in sorted(byfam.items()):
        for ch in lib.chunks(cs, njobs):
            if ch:
                payloads.append(dict(cases=ch, seed=lib.seed(), nvar=NVAR[tier][fam]))
    for i in range(njobs):
        payloads.append(dict(cases=[], seed=lib.seed(), chunk=i,
                             random=dict((f, n // njobs) for f, n in NRAND[tier].items())))
    outs = lib.run_driver_parallel("drive_texthelpers.py", payloads, timeout=1500, jobs=njobs)
    traces, stats = [], {}
    for o in outs:
        traces.extend(o["traces"])
        for k, v in o["stats"].items():
            stats[k] = stats.get(k, 0) + v
    print("timing: drivers %.1fs, %d traces, %s" % (time.time() - t1, len(traces), json.dumps(stats, sort_keys=True)))
    for need in BOUNDS:
        if not stats.get(need):
            raise lib.MachineryError("driver never called the helper of family %s" % need)

    t1 = time.time()
    val = lib.validate_traces("TextHelpersTrace", "TextHelpersTrace.cfg", [slim(t) for t in traces])
    print("timing: validation %.1fs (%d events, %d JVMs)" % (time.time() - t1, val["events"], val["jvms"]))
    rejected = dict((r["id"], r) for r in val["rejected"])

    # documents outside what the formats admit are not in the property's quantifier: the enumerated ones are
    # admitted by construction (invariant Admitted), random ones are filtered by TLC
    skipped = {}
    for tid, rj in list(rejected.items()):
        if rj["clause"].startswith("not-admitted:"):
            if not tid.startswith("rand-"):
                raise lib.MachineryError("an enumerated document was rendered outside the admitted set: %s" % tid)
            skipped[rj["clause"]] = skipped.get(rj["clause"], 0) + 1
            del rejected[tid]
    nrand = sum(1 for t in traces if t["id"].startswith("rand-"))
    if nrand and sum(skipped.values()) > 0.5 * nrand:
        raise lib.MachineryError("more than half of the random documents are not admitted: %s" % skipped)

    # binding self-test: accepted traces with one corrupted observation must be rejected
    notadm = set(t["id"] for t in traces) - set(rejected)
    pool = [t for t in traces if t["events"] and t["id"] in notadm and not t["id"].startswith("rand-")]
    selftest = [mutate(t, rng) for t in rng.sample(pool, min(len(pool), 60 if quick else 400))]
    sval = lib.validate_traces("TextHelpersTrace", "TextHelpersTrace.cfg", [slim(t) for t in selftest], jobs=1)
    caught = set(r["id"] for r in sval["rejected"])
    missed = [t["id"] for t in selftest if t["id"] not in caught]
    if missed or not selftest:
        raise lib.MachineryError("binding self-test: %d corrupted traces were accepted, e.g. %s" % (len(missed), missed[:3]))

    bycase = dict((c["id"], c) for c in cases)
    verdict = lib.Verdict(prop, tier)
    for t in traces:
        rj = rejected.get(t["id"])
        if not rj:
            continue
        ev = t["events"][rj["line"] - 1]
        shown = dict((k, ev[k]) for k in ("res", "secs", "gets", "exc") if k in ev)
        what = "%s: %s on text %s; observed %s" % (rj["clause"], ev["ev"], json.dumps(ev.get("text"))[:300],
                                                   json.dumps(compact(shown))[:400])
        verdict.reject(lib.sig(prop, rj["clause"]), what,
                       dict(case=bycase.get(t["id"].rsplit("/", 1)[0]), trace=t, rejected=rj, seed=lib.seed()))

    seen = set()
    nontriv = 0
    for t in traces:
        for e in t["events"][:1]:
            kk = hashlib.sha1(json.dumps([t["fam"], inp_of(e)], sort_keys=True).encode()).hexdigest()
            if kk not in seen:
                seen.add(kk)
                if nontrivial(e):
                    nontriv += 1
    samples = []
    for fam in sorted(BOUNDS):
        for t in traces:
            if t["fam"] == fam and t["events"] and (t["events"][0].get("res") or t["events"][0].get("secs")):
                e = t["events"][0]
                samples.append(dict(trace_id=t["id"], text=e.get("text"), observed=compact(
                    dict((k, e[k]) for k in ("res", "secs") if k in e))))
                break
    ev = lib.evidence(
        prop, tier, models, val, evaluations=len(traces), distinct_nontrivial=nontriv,
        rule="abstract documents = every key/value document, line set, fixed-width table, delimited table, "
             "(rows, query) and INI document TLC enumerated within the bounds (sampled by VERIF_SEED where a family "
             "exceeds the replay cap; the model run itself is exhaustive) plus seeded random larger ones; each is "
             "rendered to text (letters renamed, spacings / offsets / comment styles chosen from the seed), parsed by "
             "the real helper, and the abstracted result is validated by TLC against Normal(x) / the search "
             "reference; distinct_nontrivial = distinct rendered documents with at least one line / row / item "
             "beyond the first section header",
        samples=samples, assumptions=ASSUMPTIONS,
        extra=dict(bounds=dict((f, (b[0] if quick else b[1])) for f, b in BOUNDS.items()),
                   abstract_documents_emitted=emitted, abstract_documents_replayed=len(cases),
                   random_documents=nrand, random_documents_not_admitted=skipped, helper_calls=stats,
                   enumerated_documents_with_feature=features,
                   selftest_corrupted_traces_rejected=len(selftest),
                   invariants_checked_on_model=INVARIANTS, exhaustive=False))
    return verdict.finish(ev)


def compact(o):
    """arrays of one-character strings back to strings, for messages"""
    if isinstance(o, list):
        if o and all(isinstance(x, str) and len(x) == 1 for x in o):
            return "".join(o)
        return [compact(x) for x in o]
    if isinstance(o, dict):
        return dict((k, compact(v)) for k, v in o.items())
    return o
