"""X05 (extra check, not one of the listed properties): the dependency-graph utilities of insights/core/dr.py.
Model: specs/DrGraph.tla (+ DrGraphMC emission / simulation), trace validation: specs/DrGraphTrace.tla,
driver: harness/drive_drgraph.py."""
import collections
import concurrent.futures
import copy
import hashlib
import json
import os
import random
import re
import threading
import time

import lib

INVARIANTS = ["TypeOK", "RegistryInverse", "RegistryIsDeclared", "ClosureLaws", "PointLaws", "GrowLaws", "PeelLaws",
              "BfsLaws", "HelperLaws", "SpecLaws", "CodeFormDeviatesOnlyInClasses"]
ACTIONS = ["Define", "EndDefine", "AddDep", "EndAdds", "Ask", "GrowStart", "GrowSpread", "GrowYield", "GrowEnd",
           "Peel", "PeelEnd", "Bfs", "BfsEnd"]
ALL_LABELS = ["none", "req", "g1", "g2", "opt", "req+opt", "g1+g2", "g1+opt"]
FIVE = ["none", "req", "g1", "g2", "opt"]
BIG = ("labels3", "edges4", "edges4any", "kinds3", "kinds4", "specs6p", "raw4", "sim7", "sim8")     # two TLC workers
COVERAGE_FROM = ("kinds3", "specs4", "raw3", "help3", "types3")
ALL_ASK = ["basic", "sub", "topo", "walk", "help", "specs"]


def fam(Fam="prog", MinN=3, N=3, KindSet=("comp",), TypSet=("base",), GrpSet=(1,), LabelSet=("none", "req"),
        PrioSet=(1,), MaxAdds=0, AskSet=("basic", "sub", "topo", "walk"), KeyMode="any", sim=None, depth=None,
        Prefix="NoPrefix", WalkMech="bfs"):
    return dict(Fam=Fam, MinN=MinN, N=N, KindSet=list(KindSet), TypSet=list(TypSet), GrpSet=list(GrpSet),
                LabelSet=list(LabelSet), PrioSet=list(PrioSet), MaxAdds=MaxAdds, AskSet=list(AskSet), KeyMode=KeyMode,
                sim=sim, depth=depth, Prefix=Prefix, WalkMech=WalkMech)


FAMILIES = {
    "quick": collections.OrderedDict([
        # every way of naming a dependency (incl. twice), one add_dependency, every key set
        ("labels3", fam(N=3, LabelSet=ALL_LABELS, MaxAdds=1)),
        # every required / at-least-one shape on four components, every key set
        ("edges4", fam(N=4, MinN=4, LabelSet=("none", "req", "g1"), AskSet=("basic", "sub", "walk"))),
        # components, datasources, registry points with priorities; implementations registered afterwards
        ("kinds3", fam(N=3, KindSet=("comp", "ds", "point"), PrioSet=(0, 1, 2), MaxAdds=2,
                       AskSet=("basic", "sub", "walk"))),
        # two component types (one a subclass of the other) and two groups
        ("types3", fam(N=3, TypSet=("base", "sub"), GrpSet=(1, 2), AskSet=("basic",))),
        ("help3", fam(N=3, LabelSet=FIVE, AskSet=("help",))),
        # get_dependency_specs: components over registry points, every required / at-least-one shape
        ("specs4", fam(N=4, MinN=3, KindSet=("comp", "point"), LabelSet=("none", "req", "g1"), AskSet=("specs",))),
        # ... and over two registry points with a parser each (what rules are written over): two more components
        # and a condition with both kinds of requirement: every sixth component
        ("specs6", fam(N=6, MinN=6, LabelSet=("none", "req", "g1"), AskSet=("specs",), Prefix="CondPrefix")),
        ("raw3", fam(Fam="raw", N=3)),
        ("sim7", fam(N=7, MinN=4, KindSet=("comp", "comp", "ds", "point"), TypSet=("base", "sub"), GrpSet=(1, 2),
                     LabelSet=FIVE, PrioSet=(0, 1, 2), MaxAdds=3, AskSet=ALL_ASK, sim=700, depth=80)),
    ]),
    "thorough": collections.OrderedDict([
        ("labels3", fam(N=3, LabelSet=ALL_LABELS, MaxAdds=2)),
        ("edges4", fam(N=4, MinN=4, LabelSet=FIVE, KeyMode="closed")),
        ("edges4any", fam(N=4, MinN=4, LabelSet=("none", "req", "g1"), MaxAdds=1)),
        ("kinds3", fam(N=3, KindSet=("comp", "ds", "point"), LabelSet=("none", "req", "g1"), PrioSet=(0, 1, 2), MaxAdds=2,
                       AskSet=("basic", "sub", "walk"))),
        ("kinds4", fam(N=4, MinN=4, KindSet=("comp", "ds", "point"), PrioSet=(0, 2), MaxAdds=2, AskSet=("basic", "sub"),
                       KeyMode="all")),
        ("types3", fam(N=3, TypSet=("base", "sub"), GrpSet=(1, 2), LabelSet=("none", "req", "g1"), MaxAdds=1,
                       AskSet=("basic",))),
        ("help3", fam(N=3, LabelSet=ALL_LABELS, AskSet=("help",))),
        ("specs4", fam(N=4, MinN=3, KindSet=("comp", "point"), LabelSet=("none", "req", "g1", "g2"), AskSet=("specs",))),
        ("specs6", fam(N=6, MinN=6, LabelSet=FIVE, AskSet=("specs",), Prefix="CondPrefix")),
        ("specs6p", fam(N=6, MinN=6, LabelSet=("none", "req", "g1"), AskSet=("specs",), Prefix="ParserPrefix")),
        ("specs3ds", fam(N=3, KindSet=("comp", "ds", "point"), LabelSet=FIVE, MaxAdds=1, AskSet=("specs",))),
        ("raw3", fam(Fam="raw", N=3)),
        ("raw4", fam(Fam="raw", N=4)),
        ("sim8", fam(N=8, MinN=4, KindSet=("comp", "comp", "ds", "point"), TypSet=("base", "sub"), GrpSet=(1, 2),
                     LabelSet=FIVE, PrioSet=(0, 1, 2), MaxAdds=4, AskSet=ALL_ASK, sim=12000, depth=100)),
    ]),
}
# transcriptions of the code: TLC must REFUTE the named invariant (one counterexample per recorded finding)
REFUTE = collections.OrderedDict([
    ("walk-depth-first", ("BfsLaws", fam(N=4, MinN=4, AskSet=("walk",), WalkMech="dfs"))),
    ("specs-spec-in-group", ("F_CodeRight_SpecInGroup", fam(N=3, MinN=2, KindSet=("comp", "point"),
                                                            LabelSet=("none", "req", "g1"), AskSet=("specs",)))),
    ("specs-odd-member", ("F_CodeRight_OddMember", fam(N=3, MinN=2, KindSet=("comp", "point"),
                                                        LabelSet=("none", "req", "g1"), AskSet=("specs",)))),
    ("specs-absorbed", ("F_CodeRight_Absorbed", fam(N=6, MinN=6, LabelSet=("none", "req", "g1"), AskSet=("specs",),
                                                     Prefix="CondPrefix"))),
])
THOROUGH_ONLY = ()
# replayed cases per family and question (the model runs stay exhaustive; the replay takes a VERIF_SEED sample)
CAP = {"quick": {"basic": 250, "sub": 900, "topo": 900, "walk": 500, "help": 900, "specs": 8000, "none": 729},
       "thorough": {"basic": 10 ** 7, "sub": 60000, "topo": 60000, "walk": 30000, "help": 20000, "specs": 60000,
                    "none": 10 ** 7}}
NVAR = {"quick": 1, "thorough": 1}
NSELF = {"quick": 120, "thorough": 600}

# what a run must have exercised (vacuity): stats keys of the driver
NEEDED = (["kind:comp", "kind:ds", "kind:point", "typ:base", "typ:sub", "grp:1", "grp:2", "item:req", "item:grp",
           "item:opt", "prio:-1", "prio:0", "prio:1", "add:direct", "add:specset", "with-adds", "name:early-lookup"]
          + ["q:" + t for t in ("basic", "sub", "topo", "walk", "help", "specs", "raw")]
          + ["ev:" + e for e in ("add", "deps", "name", "dgraph", "tree", "walk", "rps", "detc", "subg", "order", "help",
                                 "specs", "stranger")]
          + ["subg:several-parts", "subg:part-with-several-keys", "rps:non-empty", "walk:four-calls-or-more",
             "order:three-or-more", "order:raised:ValueError", "detc:single", "detc:list", "detc:set", "detc:type",
             "detc:group", "detc:dict", "dgraph:three-nodes-or-more", "help:missing-none", "help:missing-pair",
             "help:first_of-found", "specs:var", "specs:or", "specs:and", "specs:list-in-tuple", "deps:after-add", "tree:deps", "tree:dents", "raw:self-dependency", "raw:raised",
             "raw:int", "raw:str", "raw:obj", "raw:tuple"])

ASSUMPTIONS = [
    "components are generated by the driver (harness/drive_drgraph.py) with the real decorators: a ComponentType "
    "subclass of its own per program (and a subclass of it), plugins.datasource, RegistryPoint in a SpecSet subclass; "
    "implementations of a registry point are registered the way spec modules do it (a SpecSet subclass defining a "
    "datasource under the point's name), other add_dependency calls directly; the declared program of a trace is "
    "what the driver wrote in the decorators, never read back from dr's tables",
    "a dependency is only ever an earlier component (the decorators need the object); cycles arise through "
    "add_dependency only; nothing is demanded of the recursive walks (get_dependency_graph, walk_*, "
    "get_registry_points, get_subgraphs' prio lookup, the SpecSet registration) on a cyclic registration; "
    "add_dependency on a component without at-least-one group and self-dependencies of registered components are "
    "outside the model",
    "graphs handed to get_subgraphs / run_order carry, per key, the dependencies dr reports (what "
    "determine_components and the evaluation entry points build); get_subgraphs() over the process-wide default table, "
    "determine_components of the default group, of the datasource type and of unknown arguments, load_components and "
    "get_dependency_specs are not exercised",
    "where the docstrings are silent nothing or only bounds are demanded: registry points behind a registry point, "
    "components of a subtype in the graph of a type, dependencies outside a group in the graph of a group, keys joined "
    "only through a dependency that is no key, the order of parts of equal priority, the order within "
    "split_requirements, the text of stringify_requirements (only: the list form and the pair form agree)",
    "bounds: exhaustive for the stated families (3-4 components) only; larger programs (up to 7 / 8 components) come "
    "from TLC's simulator with RandomElement, seeded by VERIF_SEED",
]


_QT = re.compile(r'\\"q\\":\{[^}]*?\\"t\\":\\"(\w+)\\"')


def tla_set(xs):
    return "{%s}" % ", ".join('"%s"' % x if isinstance(x, str) else str(x) for x in sorted(set(xs), key=str))


def cfg_text(f, invariants, emit):
    lines = ["SPECIFICATION %s" % ("SpecSim" if f["sim"] else "Spec"), "CONSTANTS",
             '  Fam = "%s"' % f["Fam"], "  MinN = %d" % f["MinN"], "  N = %d" % f["N"],
             "  KindSet = %s" % tla_set(f["KindSet"]), "  TypSet = %s" % tla_set(f["TypSet"]),
             "  GrpSet = %s" % tla_set(f["GrpSet"]), "  LabelSet = %s" % tla_set(f["LabelSet"]),
             "  PrioSet = %s" % tla_set(f["PrioSet"]), "  MaxAdds = %d" % f["MaxAdds"],
             "  AskSet = %s" % tla_set(f["AskSet"]), '  KeyMode = "%s"' % f["KeyMode"],
             '  WalkMech = "%s"' % f["WalkMech"], "  Prefix <- %s" % f["Prefix"]]
    lines += ["INVARIANT %s" % i for i in invariants]
    if emit:
        lines.append("CONSTRAINT Emit")
    lines.append("CHECK_DEADLOCK FALSE")
    return "\n".join(lines) + "\n"


def write_cfgs():
    """static copies of the configurations next to the specs (the check generates its own from the same table)"""
    for tier, suffix in (("quick", ""), ("thorough", "_thorough")):
        for name, f in FAMILIES[tier].items():
            with open(os.path.join(lib.SPECS, "DrGraphMC_%s%s.cfg" % (name, suffix)), "w") as fh:
                if f["sim"]:
                    fh.write("\\* run with -simulate num=%d -depth %d\n" % (f["sim"], f["depth"]))
                fh.write(cfg_text(f, INVARIANTS, True))
    for name, (inv, f) in REFUTE.items():
        with open(os.path.join(lib.SPECS, "DrGraphMC_refute_%s.cfg" % name.replace("-", "_")), "w") as fh:
            fh.write("\\* a transcription of the code: TLC is EXPECTED to refute %s\n" % inv + cfg_text(f, [inv], False))


def model_runs(tier):
    gen = lib.subdir("gencfg-x05")
    jobs = []
    for name, f in FAMILIES[tier].items():
        p = os.path.join(gen, "mc_%s.cfg" % name)
        with open(p, "w") as fh:
            fh.write(cfg_text(f, INVARIANTS, True))
        # per-action counts (vacuity) from the small runs; they take every action between them
        big = name in BIG and lib.NCPU >= 4
        kw = dict(workers=2 if big else 1, raw_cases=True, coverage=name in COVERAGE_FROM, light=not big)
        if f["sim"]:
            kw.update(simulate=max(1, f["sim"] // kw["workers"]), depth=f["depth"], tlc_seed=lib.seed() + 1)
        jobs.append((name, p, kw))
    refute = [(n, v) for n, v in REFUTE.items() if tier == "thorough" or n not in THOROUGH_ONLY]
    for name, (inv, f) in refute:
        p = os.path.join(gen, "refute_%s.cfg" % name)
        with open(p, "w") as fh:
            fh.write(cfg_text(f, [inv], False))
        jobs.append(("refute-" + name, p, dict(workers=1, light=True)))
    order = {"edges4": 0, "sim8": 0, "kinds4": 0, "labels3": 1, "sim7": 1, "edges4any": 1, "raw4": 1, "kinds3": 2}
    jobs.sort(key=lambda j: order.get(j[0], 3))

    # at most min(4, VERIF_CPUS) TLC worker threads at a time
    budget = max(1, min(4, lib.NCPU))
    cond = threading.Condition()
    free = [budget]

    def one(job):
        name, cfgp, kw = job
        n = min(kw["workers"], budget)
        with cond:                      # all of a run's worker slots are taken at once
            while free[0] < n:
                cond.wait()
            free[0] -= n
        try:
            r = lib.run_tlc("DrGraphMC", cfgp, tag="x05-" + name, timeout=3000, **kw)
        finally:
            with cond:
                free[0] += n
                cond.notify_all()
        if not name.startswith("refute-"):
            lib.require_ok(r, "DrGraph model " + name)
        return name, r

    res = collections.OrderedDict()
    with concurrent.futures.ThreadPoolExecutor(max_workers=budget) as ex:
        for name, r in ex.map(one, jobs):
            res[name] = r
    refuted = {}
    for name, (inv, f) in refute:
        r = res["refute-" + name]
        if r.violation != inv:
            raise lib.MachineryError("the transcription of the code (%s) was expected to violate %s; TLC says "
                                     "violation=%s error=%s\n%s" % (name, inv, r.violation, r.error,
                                                                     "\n".join(r.out.splitlines()[-30:])))
        refuted[name] = dict(invariant=inv, refuted=True, states=r.generated)
    cov = {}
    for name in FAMILIES[tier]:
        for a, n in res[name].coverage.items():
            cov[a] = cov.get(a, 0) + n
    missing = [a for a in ACTIONS if not cov.get(a) and not cov.get(a + "Sim")]
    if missing:
        raise lib.MachineryError("vacuity: actions never taken in the model runs: %s (coverage %s)" % (missing, cov))
    return res, refuted, cov


# ---------------------------------------------------------------------------
# binding self-test: corrupt one observed field of an accepted trace
# ---------------------------------------------------------------------------
def candidates(trace):
    """the corruptions a trace offers: (event index, kind)"""
    evs = trace["events"]
    cands = []
    for i, e in enumerate(evs):
        k = e["ev"]
        if e.get("exc"):
            continue
        if k == "deps":
            cands.append((i, "deps:extra-dependent"))
            if e["deps"]:
                cands += [(i, "deps:drop-dependency"), (i, "deps:table-lags")]
        elif k == "name":
            cands += [(i, "name:import-fails"), (i, "name:by-name-other")]
        elif k == "dgraph" and e["g"]:
            cands.append((i, "dgraph:drop-node"))
            if any(r["vs"] for r in e["g"]):
                cands.append((i, "dgraph:drop-edge"))
        elif k == "tree" and e["nodes"]:
            cands.append((i, "tree:drop-node"))
        elif k == "walk" and e["calls"]:
            cands.append((i, "walk:no-root-call"))
            if len(e["calls"]) > 1:
                cands.append((i, "walk:drop-call"))
        elif k == "rps":
            cands.append((i, "rps:unknown-object"))
            if e["rps"]:
                cands.append((i, "rps:drop-point"))
        elif k == "detc" and e["g"] and e["how"] != "type":       # (a type's graph is only bounded)
            cands.append((i, "detc:drop-node"))
        elif k == "subg" and e["parts"]:
            cands.append((i, "subg:drop-key"))
            if any(len(p) >= 2 for p in e["parts"]):
                cands.append((i, "subg:split-part"))
            cands.append((i, "subg:key-twice"))
        elif k in ("order", "rorder") and e["order"]:
            cands += [(i, k + ":drop-item"), (i, k + ":item-twice")]
        elif k in ("order", "rorder") and not e["order"]:
            pass
        elif k == "help":
            cands += [(i, "help:missing-flipped"), (i, "help:first-other")]
        elif k == "specs":
            cands.append((i, "specs:never-met"))
        elif k == "stranger":
            cands.append((i, "stranger:graph-returned"))
    # cyclic inputs whose exception is demanded
    for i, e in enumerate(evs):
        if e["ev"] in ("order", "rorder") and e.get("exc") == "ValueError":
            cands.append((i, e["ev"] + ":cycle-ordered"))
    return cands


def corrupt(trace, i, how):
    """one observation of an accepted trace changed into an answer that is wrong under every reading"""
    t = copy.deepcopy(trace)
    evs = t["events"]
    e = evs[i]
    if how == "deps:extra-dependent":
        e["dents"] = sorted(e["dents"] + [0])
    elif how == "deps:drop-dependency":
        e["deps"] = e["deps"][1:]
    elif how == "deps:table-lags":
        e["reg"] = e["reg"][:-1]
    elif how == "name:import-fails":
        e["imp"] = 0
    elif how == "name:by-name-other":
        e["byn"] = e["c"] % len(evs[0]["prog"]) + 1 if len(evs[0]["prog"]) > 1 else 0
    elif how == "dgraph:drop-node":
        e["g"] = e["g"][:-1]
    elif how == "dgraph:drop-edge":
        r = [r for r in e["g"] if r["vs"]][0]
        r["vs"] = r["vs"][1:]
    elif how == "tree:drop-node":
        x = e["nodes"][0]
        e["nodes"] = [n for n in e["nodes"] if n != x]
    elif how == "walk:no-root-call":
        e["calls"] = e["calls"][1:]
    elif how == "walk:drop-call":
        x = e["calls"][-1]
        e["calls"] = [c for c in e["calls"] if c != x]
    elif how == "rps:unknown-object":
        e["rps"] = [0] + e["rps"]
    elif how == "rps:drop-point":
        e["rps"] = e["rps"][1:]
    elif how == "detc:drop-node":
        e["g"] = e["g"][1:]
    elif how == "subg:drop-key":
        p = [p for p in e["parts"] if p][0]
        p.pop()
        e["parts"] = [p for p in e["parts"] if p]
    elif how == "subg:split-part":
        p = [p for p in e["parts"] if len(p) >= 2][0]
        e["parts"].append([p.pop()])
    elif how == "subg:key-twice":
        e["parts"].append([copy.deepcopy(e["parts"][0][0])])
    elif how.endswith(":drop-item"):
        e["order"] = e["order"][:-1]
    elif how.endswith(":item-twice"):
        e["order"] = e["order"] + e["order"][:1]
    elif how.endswith(":cycle-ordered"):
        e["exc"] = ""
        e["islist"] = True
        keys = e.get("keys") or [r["k"] for r in evs[0]["g"]]
        e["order"] = list(keys)
    elif how == "help:missing-flipped":
        if e["missk"] == "none":
            e["missk"], e["mall"], e["many"] = "pair", [], []
        else:
            e["missk"], e["mall"], e["many"] = "none", [], []
    elif how == "help:first-other":
        e["first"] = 0 if e["first"] else 1
    elif how == "specs:never-met":
        e["f"] = e["f"] + [dict(t="or", n=0, xs=[])]
    elif how == "stranger:graph-returned":
        e["gexc"], e["isgraph"] = "", True
    t["events"] = [evs[0]] + [x for x in evs[1:i] if x["ev"] == "add"] + [e]
    t["id"] = "selftest/%s/%s" % (how, t["id"])
    return t


def case_features(c):
    """a coarse key for counting distinct non-trivial cases"""
    return any(p["decl"] and any(it["ds"] for it in p["decl"]) for p in c.get("prog", [])) or bool(c.get("raw"))


def run(prop, tier):
    rng = random.Random(lib.seed())
    t0 = time.time()
    res, refuted, cov = model_runs(tier)
    models = [res[n] for n in FAMILIES[tier]]
    cases, emitted = [], {}
    for name in FAMILIES[tier]:
        raw = sorted(set(res[name].cases))
        res[name].cases = []
        byq = {}
        for line in raw:
            # the question type is read without parsing the whole record
            m = _QT.search(line)
            qt = m.group(1) if m else "none"
            byq.setdefault(qt, []).append(line)
        emitted[name] = dict((qt, len(v)) for qt, v in sorted(byq.items()))
        for qt, lines in sorted(byq.items()):
            idx = list(range(len(lines)))
            cap = CAP[tier].get(qt, 500)
            if len(idx) > cap:
                rng.shuffle(idx)
                idx = sorted(idx[:cap])
            for i in idx:
                c = lib.parse_case(lines[i])
                c["id"] = "%s#%s" % (name, hashlib.sha1(lines[i].encode()).hexdigest()[:10])
                c["kind"] = "sim" if FAMILIES[tier][name]["sim"] else "enum"
                cases.append(c)
    nem = sum(sum(v.values()) for v in emitted.values())
    print("timing: models %.1fs (%d states, %d runs [%s] + %d refutations), %d cases emitted, %d replayed"
          % (time.time() - t0, sum(m.distinct for m in models), len(models),
             " ".join("%s %.0fs" % (n, res[n].wall) for n in FAMILIES[tier]), len(refuted), nem, len(cases)))

    t1 = time.time()
    njobs = max(1, min(lib.NCPU, 4))
    rng.shuffle(cases)
    payloads = [dict(cases=ch, seed=lib.seed(), nvar=NVAR[tier]) for ch in lib.chunks(cases, njobs) if ch]
    outs = lib.run_driver_parallel("drive_drgraph.py", payloads, hashseeds=[0, 1, 2, 3], timeout=3000, jobs=njobs)
    traces, stats = [], {}
    for o in outs:
        traces.extend(o["traces"])
        for k, v in o["stats"].items():
            stats[k] = stats.get(k, 0) + v
    nev = sum(len(t["events"]) for t in traces)
    print("timing: drivers %.1fs, %d traces, %d events" % (time.time() - t1, len(traces), nev))
    missing = [k for k in NEEDED if not stats.get(k)]
    if missing:
        raise lib.MachineryError("vacuity: the driver never exercised %s" % missing)

    t1 = time.time()
    val = lib.validate_traces("DrGraphTrace", "DrGraphTrace.cfg", [dict(id=t["id"], events=t["events"]) for t in traces],
                              jobs=max(1, min(lib.NCPU, 4)))
    print("timing: validation %.1fs (%d events, %d JVMs)" % (time.time() - t1, val["events"], val["jvms"]))
    rejected = {}
    for r in val["rejected"]:
        rejected.setdefault(r["id"], []).append(r)
    for tid, rjs in rejected.items():
        if any(r["clause"] in ("not-admitted", "malformed-event") for r in rjs):
            raise lib.MachineryError("a case outside the admitted set / a malformed event was produced: %s %s" % (tid, rjs))

    # binding self-test: accepted traces with one corrupted observation must be rejected
    t1 = time.time()
    verdict = lib.Verdict(prop, tier)
    # every kind of corruption must have been tried - unless the run is a VIOLATION anyway and the accepted
    # traces no longer offer every kind of observation
    strict = all(lib.sig(prop, r["clause"]) in verdict.known for r in val["rejected"])
    pool = [t for t in traces if t["id"] not in rejected]
    rng.shuffle(pool)
    selftest = []
    kinds_seen = collections.Counter()
    per_kind = max(3, NSELF[tier] // 27)
    for t in pool:                      # the whole pool is scanned: rare kinds of observation are found too
        cands = [c for c in candidates(t) if kinds_seen[c[1]] < per_kind]
        if not cands:
            continue
        least = min(kinds_seen[h] for _, h in cands)
        i, how = rng.choice([c for c in cands if kinds_seen[c[1]] == least])
        kinds_seen[how] += 1
        selftest.append(corrupt(t, i, how))
        if len(selftest) >= NSELF[tier] + 27:
            break
    sval = lib.validate_traces("DrGraphTrace", "DrGraphTrace.cfg", [dict(id=t["id"], events=t["events"]) for t in selftest],
                               jobs=1)
    caught = set(r["id"] for r in sval["rejected"])
    missed = [t["id"] for t in selftest if t["id"] not in caught]
    if missed or not selftest or (strict and len(kinds_seen) < 24):
        raise lib.MachineryError("binding self-test: %d corrupted traces were accepted, e.g. %s (kinds exercised: %d)"
                                 % (len(missed), missed[:3], len(kinds_seen)))
    kinds = sorted(kinds_seen)
    print("timing: self-test %.1fs (%d corrupted traces rejected, %d kinds)" % (time.time() - t1, len(selftest), len(kinds)))

    bycase = dict((c["id"], c) for c in cases)
    rejected_events = 0
    for t in traces:
        for rj in sorted(rejected.get(t["id"], []), key=lambda r: r["line"]):
            rejected_events += 1
            ev = t["events"][rj["line"] - 1]
            head = t["events"][0]
            what = "%s: %s event %d of %s; input %s; observed %s" % (
                rj["clause"], ev["ev"], rj["line"], t["id"],
                json.dumps(dict((k, head[k]) for k in ("prog", "adds", "g") if k in head))[:700], json.dumps(ev)[:500])
            verdict.reject(lib.sig(prop, rj["clause"]), what,
                           dict(case=bycase.get(t["id"].rsplit("/", 1)[0]), trace=t, rejected=rj, seed=lib.seed()))

    seen, nontriv = set(), 0
    for c in cases:
        kk = hashlib.sha1(json.dumps([c.get("prog"), c.get("adds"), c.get("q"), c.get("raw")], sort_keys=True).encode()).hexdigest()
        if kk not in seen:
            seen.add(kk)
            if case_features(c):
                nontriv += 1
    samples = []
    for qt in ("sub", "topo", "walk", "specs", "basic", "help", "none"):
        for t in traces:
            h = t["events"][0]
            if t["id"] not in rejected and (h.get("q", {}).get("t") == qt or (qt == "none" and h["ev"] == "raw")) \
                    and len(json.dumps(h)) > 330:
                samples.append(dict(trace_id=t["id"], declared=h, observed_last=t["events"][-1]))
                break
    ev = lib.evidence(
        prop, tier, models, val, evaluations=nev - len(traces), distinct_nontrivial=nontriv,
        rule="cases = every (program, add_dependency calls, question) TLC enumerated within the bounds of the families "
             "(a VERIF_SEED sample per family and question where the replay cap is exceeded; the model runs themselves "
             "are exhaustive) plus programs of up to 7 / 8 components from TLC's simulator plus plain dicts for "
             "run_order; each program is built with the real decorators, the real functions of insights/core/dr.py are "
             "asked, and every answer is validated by TLC against the reference operators of specs/DrGraph.tla; "
             "evaluations = observations (events other than the declaration); distinct_nontrivial = distinct cases "
             "with at least one dependency",
        samples=samples, assumptions=ASSUMPTIONS,
        extra=dict(bounds=dict((n, dict((k, v) for k, v in f.items() if v is not None)) for n, f in FAMILIES[tier].items()),
                   cases_emitted=emitted, cases_replayed=len(cases), driver_stats=stats, model_action_coverage=cov,
                   code_transcription_refuted=refuted,
                   rejected_events=rejected_events, selftest_corrupted_traces_rejected=len(selftest),
                   selftest_kinds=kinds, invariants_checked_on_model=INVARIANTS, exhaustive=False))
    return verdict.finish(ev)
