"""Driver for LsListing (X04): render abstract directory listings to `ls -l`
style text in seed-chosen ways (words for letters, numbers, dates, owners,
permission strings, column alignment, indentation, blank lines), read the text
with the REAL insights.parsers.ls.FileListing / LsBoot / LsDev / LsSysFirmware /
insights.core.ls_parser.parse and record what the accessors return, abstracted
back to the records of specs/LsListing.tla.  No oracle here: the records are
judged by specs/LsListingTrace.tla.

R4: `real` cases build a scratch directory (files, directories, symlinks,
fifos, sockets), take its abstract listing from lstat, run the real `ls -la`,
`-lan`, `-laR`, `-laZ`, compare this module's renderer with ls's text token by
token (a disagreement is a machinery failure) and feed ls's OWN text through
the parser.

usage: drive_lslisting.py <in.json> <out.json>
in : {"cases":[{"id":..,"inp":{..}}], "seed": n, "nvar": k, "random": n, "real": n, "chunk": i, "scratch": dir}
out: {"traces":[{"id":..,"kind":..,"events":[..]}], "stats":{..}}

Text travels as arrays of one-character strings (TLA+ takes it apart).
"""
import grp
import json
import os
import pwd
import random
import re
import shutil
import socket
import stat
import subprocess
import sys
import time

from insights.core import ls_parser
from insights.parsers import ls as ls_mod
from insights.parsers.ls_boot import LsBoot
from insights.parsers.ls_dev import LsDev
from insights.parsers.ls_sys_firmware import LsSysFirmware
from insights.tests import context_wrap

NONE = "<None>"
NSFD = ": No such file or directory"
WRAPPERS = {"LsBoot": LsBoot, "LsDev": LsDev, "LsSysFirmware": LsSysFirmware}
PLAIN_READERS = ["FileListing", "LSla", "LSlan", "LSlanR", "LSlanL", "LSlaZ", "LSlaRZ", "LSlaFiltered"]
INT_MAX = 2 ** 31 - 1


class Machinery(Exception):
    pass


def S(chars):
    return "".join(chars)


def C(x):
    if x is None:
        return list(NONE)
    if isinstance(x, str):
        return list(x)
    return list("<%s>" % type(x).__name__)


def bump(stats, key, n=1):
    stats[key] = stats.get(key, 0) + n


# ---------------------------------------------------------------------------
# concretisation: an abstract listing of the model -> one with real-looking values
# ---------------------------------------------------------------------------
WORDS = ["grub2", "config-3.10.0-229.14.1.el7.x86_64", "vmlinuz", "menu.lst", "hosts", "cbq", "console", "rc3.d",
         "K50netconsole", "dm-10", "lv_data01", "openssl.cnf", ".pwd.lock", "file_1", "README", "Makefile", "x86_64",
         "geany_socket.c46453c2", "a", "Zz", "9lives", "Ünïcode☃", "ÅÍÎ", "sysconfig", "pki", "tls", "lost+found",
         "#backup#", "core.1234", "name~", "semi;colon", "quo'te", "dq\"x", "back\\slash", "tab\there", "eq=1", "(1)",
         "100%", "@home", "$HOME", "*", "[x]", "{y}", "a&b", "ex!", "q?x", "pipe|x", "lt<gt>"]
OWNERS = ["root", "apache", "qemu", "nfsnobody", "user.name", "a-b_c", "Domain^Users", "x", "u1000", "_chrony"]
NUMS = ["0", "6", "26214", "1000", "4294967294", "993", "48"]
PERMS = {"-": ["rw-r--r--", "rwxr-xr-x", "rw-------", "---------", "rwsr-xr-x", "rwxr-sr-x", "rw-rw-r--", "r--r--r--",
               "rwSr--r--", "rwxr-xr-t", "rw-r--r-T"],
         "d": ["rwxr-xr-x", "r-xr-xr-x", "rwxrwxrwt", "rwx------", "rwxr-s---", "rwxrwxrwx"],
         "l": ["rwxrwxrwx"], "c": ["rw-------", "rw-rw-rw-", "rw--w----"], "b": ["rw-rw----"],
         "p": ["rw-------", "rw-r--r--"], "s": ["rw-------", "rwxrwxrwx", "rw-rw-rw-"]}
MONTHS = ["Jan", "Feb", "Mar", "Apr", "May", "Jun", "Jul", "Aug", "Sep", "Oct", "Nov", "Dec"]
SE_HEADS = ["system_u:object_r:boot_t", "unconfined_u:object_r:var_lib_t", "system_u:object_r:svirt_image_t",
            "unconfined_u:object_r:user_home_t", "system_u:object_r:unlabeled_t"]
SE_CATS = ["s0:c1,c2", "s0:c12,c34", "s0-s0:c0.c1023", "s0:c512,c768"]


def draw_date(rng, base):
    """another date of the same form (time / year, one- or two-digit day)"""
    base = S(base)
    day = rng.randrange(1, 10) if base[4] == " " else rng.randrange(10, 32)
    head = "%s %2d" % (rng.choice(MONTHS), day)
    if base[7] == " ":
        return head + "  %d" % rng.choice([1970, 1999, 2008, 2015, 2023, 2026, 2038])
    return head + " %02d:%02d" % (rng.randrange(24), rng.randrange(60))


def draw_ctx(rng, ctx):
    ctx = S(ctx)
    parts = ctx.split(":")
    if len(parts) < 4:
        return ctx
    head = rng.choice(SE_HEADS)
    if len(parts) == 4:
        return head + ":" + rng.choice(["s0", "s0", "s15", "s0-s3"])
    return head + ":" + rng.choice(SE_CATS)


def word_map(rng):
    """single letters of the model's names stand for words; injective"""
    letters = list("abdexyzr")
    words = rng.sample(WORDS, len(letters))
    return dict(zip(letters, words))


def rename(chars, wm):
    """replace every maximal run of letters that is ONE letter long and has a word; everything else
    (blanks, arrows, `total`, digits, punctuation) stays"""
    if not wm:
        return list(chars)
    text = S(chars)
    out = re.sub(r"(?<![A-Za-z])([a-z])(?![A-Za-z])", lambda m: wm.get(m.group(1), m.group(1)), text)
    return list(out)


def concretise(inp, rng, identity):
    wm = None if identity else word_map(rng)
    numeric_pool = rng.sample(NUMS, 2)
    name_pool = rng.sample(OWNERS, 2)
    doc = dict(fmt=inp["fmt"], cls=inp["cls"], root=list(inp["root"]), hl=bool(inp["hl"]), noise=bool(inp["noise"]),
               dirs=[])
    for d in inp["dirs"]:
        ents = []
        for e in d["ents"]:
            t = e["t"]
            numeric = S(e["owner"])[:1].isdigit()
            pool = numeric_pool if numeric else name_pool
            if identity:
                ne = dict(e)
                ne = dict((k, (list(v) if isinstance(v, list) else v)) for k, v in ne.items())
            else:
                ne = dict(t=t, perms=list(rng.choice(PERMS[t])), mark=list(e["mark"]),
                          links=rng.choice([1, 1, 2, rng.randrange(3, 400)]),
                          owner=list(pool[0]), group=list(rng.choice(pool)),
                          size=rng.choice([0, 1, 41, 4096, rng.randrange(INT_MAX), INT_MAX]),
                          major=rng.choice([0, 1, 8, 10, 253, rng.randrange(1000)]),
                          minor=rng.choice([0, 3, 10, 236, rng.randrange(1 << 20)]),
                          date=list(draw_date(rng, e["date"])), name=rename(e["name"], wm),
                          target=rename(e["target"], wm), ctx=list(draw_ctx(rng, e["ctx"])))
            ents.append(ne)
        doc["dirs"].append(dict(name=rename(d["name"], wm), total=d["total"] if d["total"] <= 0 or identity
                                else rng.choice([d["total"], 4, 96, 187380]), ents=ents))
    return doc


# ---------------------------------------------------------------------------
# rendering
# ---------------------------------------------------------------------------
def size_field(e, style, wmin):
    if e["t"] in "bc":
        if style == "single":
            return "%d, %d" % (e["major"], e["minor"])
        return "%d, %*d" % (e["major"], wmin, e["minor"])
    return str(e["size"])


def tail_of(e):
    return S(e["name"]) + ((" -> " + S(e["target"])) if e["t"] == "l" else "")


def render_dir(ents, fmt, style, rng):
    """the entry lines of one directory.  style: ls (columns padded to their widest member, as ls does),
    single (one blank everywhere), wide (extra blanks between the columns)"""
    if not ents:
        return []
    pad = style != "single"
    anymark = any(e["mark"] for e in ents)
    firsts = [e["t"] + S(e["perms"]) + S(e["mark"]) for e in ents]
    wfirst = 10 + (1 if anymark else 0)
    wl = max(len(str(e["links"])) for e in ents)
    wo = max(len(S(e["owner"])) for e in ents)
    wg = max(len(S(e["group"])) for e in ents)
    wc = max(len(S(e["ctx"])) for e in ents)
    wmin = max([len(str(e["minor"])) for e in ents if e["t"] in "bc"] + [3 if style == "ls" else 1])
    sizes = [size_field(e, style, wmin) for e in ents]
    ws = max(len(x) for x in sizes)
    lines = []
    for e, first, sz in zip(ents, firsts, sizes):
        def gap():
            return " " * (1 if style != "wide" else rng.randrange(1, 4))
        if fmt == "oldZ":
            cols = [first.ljust(wfirst) if pad else first, S(e["owner"]).ljust(wo) if pad else S(e["owner"]),
                    S(e["group"]).ljust(wg) if pad else S(e["group"]), S(e["ctx"]).ljust(wc) if pad else S(e["ctx"])]
            line = cols[0]
            for c in cols[1:]:
                line += gap() + c
            line += gap() + tail_of(e)
        else:
            cols = [first.ljust(wfirst) if pad else first, str(e["links"]).rjust(wl) if pad else str(e["links"]),
                    S(e["owner"]).ljust(wo) if pad else S(e["owner"]), S(e["group"]).ljust(wg) if pad else S(e["group"])]
            if fmt == "newZ":
                cols.append(S(e["ctx"]).ljust(wc) if pad else S(e["ctx"]))
            cols.append(sz.rjust(ws) if pad else sz)
            line = cols[0]
            for c in cols[1:]:
                line += gap() + c
            # the date is twelve characters and exactly one blank separates it from the name
            line += gap() + S(e["date"]) + " " + tail_of(e)
        lines.append(line)
    return lines


def render(doc, rng, style=None, plain_layout=False):
    """-> (all lines, [[stripped entry line per entry] per directory], [the lines of each directory alone])"""
    style = style or rng.choice(["ls", "ls", "single", "wide"])
    indent = "" if plain_layout else rng.choice(["", "", "    ", "        ", "\t"])
    nblank = 1 if plain_layout else rng.choice([1, 1, 1, 0, 2])

    def dress(x):
        if plain_layout:
            return x
        return (indent + x + rng.choice(["", "", " ", "  "])) if x else rng.choice(["", "", "  "])
    lines, per, groups = [], [], []
    if doc["noise"]:
        lines.append(dress(rng.choice(["ls: cannot access '_non_existing_'", "/bin/ls: cannot access /nonexist",
                                       "ls: cannot access ' _non_existing_'"]) + NSFD))
    for i, d in enumerate(doc["dirs"]):
        g = []
        if not doc["hl"]:
            g.append(S(d["name"]) + ":")
        if d["total"] >= 0:
            g.append("total %d" % d["total"])
        el = render_dir(d["ents"], doc["fmt"], style, rng)
        per.append([x.strip() for x in el])
        g = [dress(x) for x in g + el]
        groups.append(g)
        lines.extend(g)
        if i < len(doc["dirs"]) - 1:
            lines.extend([dress("")] * nblank)
    return lines, per, groups


# ---------------------------------------------------------------------------
# reading with the real code, abstraction of what the accessors return
# ---------------------------------------------------------------------------
def num(d, k):
    if k not in d:
        return -1
    v = d[k]
    if isinstance(v, int) and not isinstance(v, bool) and 0 <= v <= INT_MAX:
        return v
    return -2


NONE_REC = dict(some=False, type="", perms=[], links=-1, owner=[], group=[], size=-1, major=-1, minor=-1, date=[],
                name=[], haslink=False, link=[], se=[], dir=[], hasraw=False, raw="")


def a_entry(d):
    if not isinstance(d, dict) or not d:
        return dict(NONE_REC)
    t = d.get("type")
    return dict(some=True, type=t if isinstance(t, str) else "<%s>" % type(t).__name__, perms=C(d.get("perms")),
                links=num(d, "links"), owner=C(d.get("owner")), group=C(d.get("group")), size=num(d, "size"),
                major=num(d, "major"), minor=num(d, "minor"), date=C(d["date"]) if "date" in d else [],
                name=C(d.get("name")), haslink="link" in d, link=C(d["link"]) if "link" in d else [],
                se=[C(d.get(k)) for k in ("se_user", "se_role", "se_type", "se_mls")] if "se_user" in d else [],
                dir=C(d.get("dir")), hasraw="raw_entry" in d,
                raw=d["raw_entry"] if isinstance(d.get("raw_entry"), str) else "")


def a_total(tot):
    return tot if isinstance(tot, int) and not isinstance(tot, bool) and 0 <= tot <= INT_MAX else -2


NO_PERM = dict(type="", po=[], pg=[], pt=[], owner=[], group=[])


def kind(x):
    if x is None:
        return "none"
    if isinstance(x, str):
        return "str"
    if isinstance(x, dict):
        return "some" if x else "empty"
    return "obj"


def guarded(fn, *a):
    try:
        return fn(*a), ""
    except Exception as ex:     # noqa
        return None, "exc:" + type(ex).__name__


def names(lst):
    return [C(x) for x in lst]


def read(doc, lines, rng, stats):
    """construct the reader on the text; -> (object with FileListing's accessors, exception name)"""
    cls = doc["cls"]
    content = list(lines) if rng.random() < 0.7 else "\n".join(lines)
    try:
        if cls == "parse":
            # the core function with an explicit root; FileListing's accessors over its result
            obj = ls_mod.FileListing.__new__(ls_mod.FileListing)
            text = content if isinstance(content, list) else content.splitlines()
            dict.update(obj, ls_parser.parse(text, S(doc["root"]) if doc["root"] else None))
            bump(stats, "reader:parse")
        elif cls in WRAPPERS:
            obj = WRAPPERS[cls](context_wrap(content))
            bump(stats, "reader:" + cls)
        else:
            name = rng.choice(PLAIN_READERS)
            obj = getattr(ls_mod, name)(context_wrap(content))
            bump(stats, "reader:FileListing")
        return obj, ""
    except Exception as ex:     # noqa
        return None, type(ex).__name__


def key_of(doc, i):
    if doc["hl"]:
        return S(doc["root"]) if doc["root"] else None
    return S(doc["dirs"][i]["name"])


def path_of(key, name):
    return (key + name) if key == "/" else (key + "/" + name)


def count_features(doc, stats):
    """what the inputs exercised (vacuity), counted whether or not the parser survives them"""
    bump(stats, "fmt:" + doc["fmt"])
    for d in doc["dirs"]:
        for e in d["ents"]:
            name = S(e["name"])
            bump(stats, "type:" + e["t"])
            bump(stats, "date:" + ("year" if S(e["date"])[7:8] == " " else "time"))
            if e["t"] in "bc":
                bump(stats, "device-numbers")
            if e["mark"]:
                bump(stats, "mark:" + S(e["mark"]))
            for key, yes in (("name:blank", " " in name), ("name:arrow", " -> " in name), ("name:dash", name.startswith("-")),
                             ("target:arrow", " -> " in S(e["target"])), ("name:total-like", name.startswith("total")),
                             ("name:header-like", name.endswith(":")), ("owner:numeric", S(e["owner"])[:1].isdigit())):
                if yes:
                    bump(stats, key)
    if len(doc["dirs"]) > 1:
        bump(stats, "several-directories")
    if doc["hl"]:
        bump(stats, "head-less")
    if any(d["total"] < 0 for d in doc["dirs"]):
        bump(stats, "no-total-line")


def observe(doc, lines, per, rng, stats, groups=None):
    evs = []
    count_features(doc, stats)
    obj, exc = read(doc, lines, rng, stats)
    keys0 = [key_of(doc, i) for i in range(len(doc["dirs"]))]
    first = keys0[0]
    if isinstance(first, str):
        adir = rng.choice([first + "x", first.rsplit("/", 1)[0] or "/nonexist", first + "/", "/non-exist", "relative"])
    else:
        adir = "/non-exist"
    p = dict(ev="parse", doc=doc, exc=exc, keys=[], adir=C(adir), ain=False, alens=[0, 0, 0, 0], acontains=False,
             text=lines[:40])
    evs.append(p)
    if obj is None:
        bump(stats, "parse-exception")
        return evs
    p["keys"] = [C(k) for k in obj.keys()]
    try:
        p["ain"] = adir in obj
        p["alens"] = [len(obj.files_of(adir)), len(obj.dirs_of(adir)), len(obj.specials_of(adir)), len(obj.listing_of(adir))]
        p["acontains"] = bool(obj.dir_contains(adir, "x"))
    except Exception as ex:     # noqa
        p["exc"] = "absent-dir:" + type(ex).__name__
    for i, d in enumerate(doc["dirs"]):
        key = keys0[i]
        aname = rng.choice(["zz-absent", "", "x ", " -> ", "total 0"])
        dv = dict(ev="dir", d=i + 1, exc="", isin=False, lkeys=[], files=[], dirs=[], specials=[], aname=C(aname),
                  acontains=False, ape="none", araw="none")
        try:
            dv["isin"] = key in obj
            dv["lkeys"] = names(obj.listing_of(key).keys())
            dv["files"] = names(obj.files_of(key))
            dv["dirs"] = names(obj.dirs_of(key))
            dv["specials"] = names(obj.specials_of(key))
            dv["acontains"] = bool(obj.dir_contains(key, aname))
            if isinstance(key, str):
                r, x = guarded(obj.path_entry, path_of(key, aname))
                dv["ape"] = x or kind(r)
            r, x = guarded(obj.raw_entry_of, key, aname)
            dv["araw"] = x or kind(r)
            bump(stats, "acc:files_of/dirs_of/specials_of/listing_of/in")
        except Exception as ex:     # noqa
            dv["exc"] = type(ex).__name__
        evs.append(dv)
        tv = dict(ev="total", d=i + 1, exc="", total=-2, solo=-3)
        try:
            tv["total"] = a_total(obj.total_of(key))
            bump(stats, "acc:total_of")
            if groups is not None and len(doc["dirs"]) > 1 and d["total"] < 0:
                # the same lines of this directory, listed alone (a listing is a concatenation of listings)
                alone, x = read(dict(doc, noise=False), groups[i], rng, {})
                tv["solo"] = a_total(alone.total_of(key)) if alone is not None else -2
                bump(stats, "acc:total_of-listed-alone")
        except Exception as ex:     # noqa
            tv["exc"] = type(ex).__name__
        evs.append(tv)
        for j, e in enumerate(d["ents"]):
            name = S(e["name"])
            ev = dict(ev="ent", d=i + 1, e=j + 1, exc="", inlist=False, contains=False, de=dict(NONE_REC),
                      le=dict(NONE_REC), pe=dict(NONE_REC), pep=False, rawkind="none", raw=[], permkind="skip",
                      perm=dict(NO_PERM), line=per[i][j])
            try:
                ev["inlist"] = name in obj.listing_of(key)
                ev["contains"] = bool(obj.dir_contains(key, name))
            except Exception as ex:     # noqa
                ev["exc"] = type(ex).__name__
            if ev["inlist"] and not ev["exc"]:
                try:
                    ev["de"] = a_entry(obj.dir_entry(key, name))
                    ev["le"] = a_entry(obj.listing_of(key)[name])
                    bump(stats, "acc:dir_entry")
                    if isinstance(key, str):
                        ev["pep"] = True
                        ev["pe"] = a_entry(obj.path_entry(path_of(key, name)))
                        bump(stats, "acc:path_entry")
                except Exception as ex:     # noqa
                    ev["exc"] = type(ex).__name__
                r, x = guarded(obj.raw_entry_of, key, name)
                ev["rawkind"] = x or kind(r)
                if isinstance(r, str):
                    ev["raw"] = r.split()
                bump(stats, "acc:raw_entry_of")
                r, x = guarded(obj.permissions_of, key, name)
                ev["permkind"] = x or kind(r)
                if ev["permkind"] == "obj":
                    ev["perm"] = dict(type=r.type if isinstance(r.type, str) else "?", po=C(r.perms_owner),
                                      pg=C(r.perms_group), pt=C(r.perms_other), owner=C(r.owner), group=C(r.group))
                bump(stats, "acc:permissions_of")
            evs.append(ev)
    return evs


# ---------------------------------------------------------------------------
# random listings beyond TLC's bounds (TLC decides whether they are admitted)
# ---------------------------------------------------------------------------
TRICKY = ["File name with spaces in it!", "link with spaces", "total 5", "total", "x:", "file_name_ending_with_colon:",
          "-dash", "--", "-> x", "a -> b", "x,y", "10, 3", "a:b", "?", ".", "..", ".hidden", "x  y", "Unicode ÅÍÎÏÓÔÒÚÆ☃ madness.txt",
          "tab\tin", "d?", "drwxr-xr-x", "1", "Jan  1  2000", "ls: cannot access", "a:"]
BAD_NAMES = ["/", "b ", " c", "a/b", "x: No such file or directory"]        # outside Admits: TLC must say so
TARGETS = ["/etc/default/grub", "../init.d/netconsole", "./grub.conf", "../file with spaces", "a -> b", "x,y", "..", "/",
           "ÅÍÎ", "total 5", "x:"]
DIRS = ["/", "/boot", "/boot/grub2", "/etc/sysconfig", "/etc/rc.d/rc3.d", "/var/lib/nova/instances", "/dev/mapper",
        "/tmp/a b", "/tmp/x:", "/tmp/total 3", "/mnt/Ünï", "/etc", "/tmp/-", "/dev", "/sys/firmware", "/proc/1"]


def rand_doc(rng):
    fmt = rng.choice(["plain", "plain", "newZ", "oldZ"])
    hl = rng.random() < 0.12
    cls = rng.choice(["FileListing"] * 6 + ["LsBoot", "LsDev", "LsSysFirmware", "parse"])
    root = {"LsBoot": "/boot", "LsDev": "/dev", "LsSysFirmware": "/sys/firmware", "FileListing": "",
            "parse": rng.choice(["", "/some/root"])}[cls]
    ndirs = 1 if hl else rng.choice([1, 1, 2, 3, 4])
    dnames = rng.sample(DIRS, ndirs)
    # one listing in twenty-five is deliberately outside Admits (TLC must say so): a directory named with a
    # trailing slash, an inadmissible entry name, a four-digit major number
    bad = rng.choice(["slash", "name", "major"]) if rng.random() < 0.04 else ""
    if bad == "slash":
        dnames[0] = "/tmp/a/"
    numeric = rng.random() < 0.5 and fmt != "oldZ"
    dirs = []
    for dn in dnames:
        ents = []
        used = set()
        for _ in range(rng.choice([0, 1, 2, 3, 5, 8])):
            name = rng.choice(TRICKY) if rng.random() < 0.45 else rng.choice(WORDS)
            if bad == "name" and not ents:
                name = rng.choice(BAD_NAMES)
            if name in used:
                continue
            used.add(name)
            t = rng.choice("--ddlcbps-d")
            if fmt == "plain":
                ctx = ""
            else:
                ctx = rng.choice(["?"] + [h + ":s0" for h in SE_HEADS] * 2 + [SE_HEADS[2] + ":" + rng.choice(SE_CATS)])
            pool = NUMS if numeric else OWNERS
            ents.append(dict(t=t, perms=list(rng.choice(PERMS[t])), mark=list(rng.choice(["", ".", ".", "+"])),
                             links=rng.choice([1, 2, 19, 102]), owner=list(rng.choice(pool)), group=list(rng.choice(pool)),
                             size=rng.choice([0, 6, 4096, 123891, INT_MAX]),
                             major=1000 if bad == "major" else rng.choice([1, 10, 253, 999]),
                             minor=rng.choice([0, 10, 236, 1048575]),
                             date=list(draw_date(rng, rng.choice(["Jul  6 23:32", "Jul 16 23:32", "Sep 16  2015", "Sep  6  2015"]))),
                             name=list(name), target=list(rng.choice(TARGETS)) if t == "l" else [], ctx=list(ctx)))
        dirs.append(dict(name=[] if hl else list(dn), total=rng.choice([-1, 0, 0, 4, 96, 187380]), ents=ents))
    return dict(fmt=fmt, cls=cls, root=list(root), hl=hl, noise=rng.random() < 0.2, dirs=dirs)


# ---------------------------------------------------------------------------
# R4: the real ls on a real directory
# ---------------------------------------------------------------------------
REAL_NAMES = ["plain", "File name with spaces", "a -> b", "-dash", "--", "total 5", "x:", "x,y", "a:b", "?", ".hidden",
              "x  y", "Ünï☃", "10, 3", "sub", "drwx", "-> x", "z'q", "tab\tin"]
REAL_TARGETS = ["plain", "/etc/default/grub", "../file with spaces", "a -> b", "x,y", "nowhere", "sub", ".", "Ünï"]
HALF_YEAR = 15778476
LS_ENV = {"LC_ALL": "C", "TZ": "UTC", "PATH": os.environ.get("PATH", "/usr/bin:/bin")}


def run_ls(args):
    p = subprocess.run(["ls"] + args, env=LS_ENV, stdin=subprocess.DEVNULL, stdout=subprocess.PIPE,
                       stderr=subprocess.STDOUT, timeout=60)
    return p.returncode, p.stdout.decode("utf-8", "surrogateescape").split("\n")


def ls_date(mtime, now):
    tm = time.gmtime(mtime)
    head = "%s %2d" % (MONTHS[tm.tm_mon - 1], tm.tm_mday)
    if now - HALF_YEAR < mtime <= now:
        return head + " %02d:%02d" % (tm.tm_hour, tm.tm_min)
    return head + "  %d" % tm.tm_year


def who(uid, numeric, db):
    if numeric:
        return str(uid)
    try:
        return (pwd.getpwuid(uid).pw_name if db == "u" else grp.getgrgid(uid).gr_name)
    except KeyError:
        return str(uid)


def ctx_of(path):
    try:
        return os.getxattr(path, "security.selinux", follow_symlinks=False).decode().rstrip("\0")
    except OSError:
        return "?"


def stat_entry(path, name, numeric, fmt, now):
    st = os.lstat(path)
    mode = stat.filemode(st.st_mode)
    return dict(t=mode[0], perms=list(mode[1:]), mark=[], links=st.st_nlink, owner=list(who(st.st_uid, numeric, "u")),
                group=list(who(st.st_gid, numeric, "g")), size=st.st_size, major=os.major(st.st_rdev),
                minor=os.minor(st.st_rdev), date=list(ls_date(st.st_mtime, now)), name=list(name),
                target=list(os.readlink(path)) if mode[0] == "l" else [],
                ctx=list(ctx_of(path)) if fmt == "newZ" else []), st.st_blocks


def stat_dir(path, numeric, fmt, now):
    nm = sorted(os.listdir(path) + [".", ".."], key=os.fsencode)      # LC_ALL=C
    ents, blocks = [], 0
    for n in nm:
        e, b = stat_entry(os.path.join(path, n), n, numeric, fmt, now)
        ents.append(e)
        blocks += b
    return ents, blocks // 2


def walk(path):
    """the directories ls -R visits, in its order"""
    out = [path]
    for n in sorted(os.listdir(path), key=os.fsencode):
        p = os.path.join(path, n)
        if os.path.isdir(p) and not os.path.islink(p):
            out.extend(walk(p))
    return out


def populate(d, rng, depth, now):
    os.makedirs(d)
    for name in rng.sample(REAL_NAMES, rng.choice([0, 1, 2, 3, 4, 6])):
        p = os.path.join(d, name)
        k = rng.choice(["f", "f", "d", "l", "l", "p", "s"])
        if k == "l" and " -> " in name:
            k = "f"         # an arrow in the NAME of a symlink is ambiguous in any listing (outside Admits)
        try:
            if k == "f":
                with open(p, "wb") as f:
                    f.truncate(rng.choice([0, 3, 4096, 123891, INT_MAX]))
                os.chmod(p, rng.choice([0o644, 0o755, 0o600, 0o4755, 0o2644, 0o1644, 0]))
            elif k == "d":
                if depth > 0 and rng.random() < 0.6:
                    populate(p, rng, depth - 1, now)
                else:
                    os.mkdir(p)
                os.chmod(p, rng.choice([0o755, 0o1777, 0o700, 0o2750]))
            elif k == "l":
                os.symlink(rng.choice(REAL_TARGETS), p)
            elif k == "p":
                os.mkfifo(p)
            else:
                # bound by its relative name: the absolute path may exceed what a socket address holds
                s = socket.socket(socket.AF_UNIX)
                here = os.getcwd()
                try:
                    os.chdir(d)
                    s.bind(name)
                finally:
                    os.chdir(here)
                    s.close()
        except OSError:
            continue
        when = now - rng.randrange(3600, 100 * 86400) if rng.random() < 0.5 else rng.choice([0, 1441584000, 86400 * 365 * 30])
        os.utime(p, (when, when), follow_symlinks=False)
    when = now - rng.randrange(3600, 100 * 86400) if rng.random() < 0.5 else 1441584000
    os.utime(d, (when, when))


def tokens_agree(mine, theirs):
    return len(mine) == len(theirs) and all(a.split() == b.split() for a, b in zip(mine, theirs))


def real_traces(base, rng, tag, stats, have_z):
    now = time.time()
    parent = os.path.join(base, tag)
    root = os.path.join(parent, rng.choice(["r", "r 1", "r:x", "total 5", "r"]))
    os.makedirs(parent)
    populate(root, rng, 2, now)
    os.utime(parent, (1441584000, 1441584000))
    missing = os.path.join(parent, "_non_existing_")
    subs = [p for p in walk(root)[1:]]
    cmds = [("la", ["-la", root], False, "plain", [root], True),
            ("lan", ["-lan", root, missing], True, "plain", [root], False),
            ("laR", ["-laR", root], False, "plain", walk(root), False)]
    if subs:
        two = sorted([root, subs[-1]], key=os.fsencode)
        cmds.append(("la2", ["-la"] + two[::-1], False, "plain", two, False))
    if have_z:
        cmds.append(("laZ", ["-laZ", root, missing], False, "newZ", [root], False))
    traces = []
    for name, args, numeric, fmt, dirs, hl in rng.sample(cmds, min(len(cmds), 3)):
        rc, text = run_ls(args)
        while text and text[-1] == "":
            text.pop()
        noise = any(NSFD in x for x in text)
        body = [x for x in text if NSFD not in x]
        ddocs = []
        for dp in dirs:
            ents, total = stat_dir(dp, numeric, fmt, now)
            ddocs.append(dict(name=[] if hl else list(dp), total=total, ents=ents))
        cls = "FileListing"
        if hl and rng.random() < 0.3:
            cls = rng.choice(sorted(WRAPPERS))
        root = {"LsBoot": "/boot", "LsDev": "/dev", "LsSysFirmware": "/sys/firmware"}.get(cls, "")
        doc = dict(fmt=fmt, cls=cls, root=list(root), hl=hl, noise=noise, dirs=ddocs)
        # two things are the environment's and not lstat's: the mark after the permissions (taken from ls's own
        # token) and, on some file systems, the block total (kept only when lstat's block count agrees with ls)
        k, per, ls_totals = 0, [], []
        for d in ddocs:
            if not hl:
                k += 1
            m = re.match(r"^total (\d+)$", body[k]) if k < len(body) else None
            if not m:
                raise Machinery("R4: no total line where ls -l prints one: %r" % body[:k + 1])
            ls_totals.append(int(m.group(1)))
            if ls_totals[-1] != d["total"]:
                bump(stats, "r4:total-not-derivable-from-lstat")
                d["total"] = -1
            k += 1
            mine = []
            for e in d["ents"]:
                if k >= len(body):
                    raise Machinery("R4: ls printed fewer lines than lstat has entries: %r" % body)
                tok = body[k].split()[0]
                want = e["t"] + S(e["perms"])
                if tok[:10] != want or len(tok) > 11:
                    raise Machinery("R4: permissions of %r: lstat %r, ls %r" % (S(e["name"]), want, tok))
                e["mark"] = list(tok[10:])
                bump(stats, "r4:type:" + e["t"])
                mine.append(body[k].strip())
                k += 1
            per.append(mine)
            if k < len(body) and body[k] == "":
                k += 1
        if k != len(body):
            raise Machinery("R4: ls printed %d more lines than expected: %r" % (len(body) - k, body[k:k + 3]))
        cmp_doc = dict(doc, noise=False, dirs=[dict(d, total=t) for d, t in zip(ddocs, ls_totals)])
        mine, _, _ = render(cmp_doc, rng, style="ls", plain_layout=True)
        if not tokens_agree(mine, body):
            bad = [(a, b) for a, b in zip(mine, body) if a.split() != b.split()][:2]
            raise Machinery("R4: this driver's renderer and the real ls disagree on `ls %s`: %r (lines %d vs %d)"
                            % (args[0], bad, len(mine), len(body)))
        bump(stats, "r4:renderer-identical-to-ls" if mine == body else "r4:renderer-equal-up-to-spacing")
        bump(stats, "r4:ls-" + name)
        evs = observe(doc, text, per, rng, stats)
        traces.append(dict(id="real-%s-%s/v0" % (tag, name), kind="real", events=evs))
    shutil.rmtree(parent, True)
    return traces


def z_works(base):
    d = os.path.join(base, "zprobe")
    os.makedirs(d, exist_ok=True)
    try:
        rc, text = run_ls(["-laZ", d])
    except Exception:       # noqa
        return False
    shutil.rmtree(d, True)
    # the format with link count, context and size (coreutils >= 8.27)
    return rc == 0 and any(re.match(r"^d\S+\s+\d+\s+\S+\s+\S+\s+\S+\s+\d+\s", x) for x in text)


def main():
    with open(sys.argv[1]) as f:
        payload = json.load(f)
    seed = payload.get("seed", 0)
    nvar = payload.get("nvar", 1)
    chunk = payload.get("chunk", 0)
    stats = {}
    traces = []
    for c in payload.get("cases", []):
        for v in range(nvar):
            rng = random.Random("%s/%s/%d" % (seed, c["id"], v))
            doc = concretise(c["inp"], rng, identity=(v == 0 and seed % 2 == 0 and rng.random() < 0.5))
            lines, per, groups = render(doc, rng)
            evs = observe(doc, lines, per, rng, stats, groups)
            traces.append(dict(id="%s/v%d" % (c["id"], v), kind="enum", events=evs))
    for i in range(payload.get("random", 0)):
        rng = random.Random("%s/rand/%s/%d" % (seed, chunk, i))
        doc = rand_doc(rng)
        lines, per, groups = render(doc, rng)
        evs = observe(doc, lines, per, rng, stats, groups)
        traces.append(dict(id="rand-%s-%d/v0" % (chunk, i), kind="rand", events=evs))
    nreal = payload.get("real", 0)
    if nreal:
        base = os.path.join(payload["scratch"], "x04real-%s" % chunk)
        os.makedirs(base, exist_ok=True)
        if not shutil.which("ls", path=LS_ENV["PATH"]):
            bump(stats, "r4:no-ls")
        else:
            have_z = z_works(base)
            bump(stats, "r4:ls-Z-available" if have_z else "r4:ls-Z-unavailable")
            try:
                for i in range(nreal):
                    rng = random.Random("%s/real/%s/%d" % (seed, chunk, i))
                    traces.extend(real_traces(base, rng, "k%s-c%d" % (chunk, i), stats, have_z))
            except Machinery as ex:
                print("MACHINERY: %s" % ex)
                sys.exit(3)
        shutil.rmtree(base, True)
    with open(sys.argv[2], "w") as f:
        json.dump(dict(traces=traces, stats=stats), f, separators=(",", ":"))


if __name__ == "__main__":
    main()
