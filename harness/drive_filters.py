"""Driver for Filters (C07).  Contains no oracle: the records are judged by
specs/FiltersTrace.tla.

usage: drive_filters.py <in.json> <out.json>
in : {"mode": "hist",    "cases": [{"id", "g": {"p2f","q2","k"}, "hist": [{"op","k","pats","mx"}...]}], "seed": n}
     {"mode": "content", "cases": [{"id", "lines": [{"blank","has"}], "allow": [budget per filter]}], "seed": n,
      "paths": [...], "grep_check_every": k}
     {"mode": "content-tests", ...}   same cases, through the helpers of insights.tests (imported only here:
                                      importing it monkeypatches filters.add_filter)
out: {"traces": [...], "stats": {...}}

hist   : real SpecSet / RegistryPoint / parser / combiner objects, insights.core.filters.add_filter / get_filters.
content: the filters are registered with the real add_filter; the content is written to a temp file and pushed
         through  host-file  (simple_file under a HostContext: the real `grep -F` pre-filter),
                  host-cmd   (simple_command under a HostContext: `cat file | grep -F`),
                  host-write (ContentProvider.write with the real Cleaner: grep, then the cleaner's allow-list),
                  archive    (simple_file under a HostArchiveContext: AllowFilter.filter_content),
                  archive-glob / host-glob  (glob_file, a multi-output spec: one event per file of the list),
                  serialized-file / serialized-glob  (a single-result and a multi-output spec stored with
                             Hydration.dehydrate and loaded back with Hydration.hydrate, filters registered
                             before or after the archive was written, by seed),
                  cleaner    (Cleaner.clean_content with the allow-list),
                  helper     (insights.core.filters.apply_filters).
R7: every external process is started through subprocess with stdin closed and a timeout (the code under test
uses insights.util.subproc.Pipeline, which closes stdin, and `timeout`).
"""
import json
import logging
import os
import random
import shutil
import subprocess
import sys
import tempfile
import types

os.environ.pop("INSIGHTS_FILTERS_ENABLED", None)

from insights.core import dr, filters                                       # noqa: E402
from insights.core.context import HostArchiveContext, HostContext, SerializedArchiveContext    # noqa: E402
from insights.core.plugins import combiner, datasource, parser              # noqa: E402
from insights.core.serde import Hydration                                   # noqa: E402
from insights.core.spec_factory import (RegistryPoint, SpecSet, first_of, glob_file, simple_command,    # noqa: E402
                                        simple_file)

OTHER = 99

# Filter strings: regular-expression metacharacters, leading dashes, blanks, quotes, shell characters,
# non-ASCII.  No digits, '#' or ';' (they make up the line markers), no line separators.
POOL_PLAIN = ["ERROR", "kernel:", "Failed to", "segfault at", "oom-killer", "WARN"]
POOL_META = ["a.*b", "[crit]", "^start", "end$", "(core)|", "x\\y", "+?{}", "$HOME", "`id`", "'q'", "\"dq\"",
             "*.log", "\\n", "%s %d", "a|b", "[[:alpha:]]", "\\(", "/var/log/", "<=>", "~!@"]
POOL_DASH = ["-x", "-v", "--opt=val", "- item", "-e", "--", "-E foo", "-- marker", "-f", "---"]
POOL_BLANK = ["foo bar", " lead", "trail ", "a  b", "tab\there", " - "]
POOL_UNI = ["été", "日本", "naïve"]
FILL = ["", " ", "  ", "zz", " qq ", "_", "::", " = ", ", ", "uvw ", ".", " | "]

ALL_POOLS = [POOL_PLAIN, POOL_META, POOL_DASH, POOL_BLANK, POOL_UNI]


def cleanup(created):
    for o in created:
        dr.DELEGATES.pop(o, None)
        dr.DEPENDENCIES.pop(o, None)
        dr.DEPENDENTS.pop(o, None)
        dr.ENABLED.pop(o, None)
        dr.IGNORE.pop(o, None)
        dr.MODULE_NAMES.pop(o, None)
        dr.BASE_MODULE_NAMES.pop(o, None)
        dr.HIDDEN.discard(o)
        for grp in list(dr.COMPONENTS):
            dr.COMPONENTS[grp].pop(o, None)
        for t in list(dr.COMPONENTS_BY_TYPE):
            dr.COMPONENTS_BY_TYPE[t].discard(o)
        filters.FILTERS.pop(o, None)
        filters._CACHE.pop(o, None)
    for c in (HostContext, HostArchiveContext):
        dep = dr.DEPENDENTS.get(c)
        if dep:
            dep.difference_update(created)
    dr.COMPONENTS_BY_NAME.clear()


WRAPS = [("", " tail"), ("", ": Out of memory"), ("head ", ""), ("net_", ""), ("pre ", " post"), ("x", "y"),
         ("", "_"), (" ", "")]


def pick_filters(rng, n, style=None, nested=False):
    """n distinct filter strings, none containing another - except, with nested, one pair (or a chain of
    three) in which a filter is a prefix / suffix / infix of a longer one."""
    for _ in range(200):
        out = []
        pools = [rng.choice(ALL_POOLS) if style is None else style for _ in range(n)]
        for p in pools:
            out.append(rng.choice(p))
        if len(set(out)) == n and not any(a != b and a in b for a in out for b in out):
            if nested and n >= 2:
                idx = list(range(n))
                rng.shuffle(idx)
                chain = idx[:3] if n >= 3 and rng.random() < 0.3 else idx[:2]
                for a, b in zip(chain, chain[1:]):
                    pre, post = rng.choice(WRAPS)
                    out[b] = pre + out[a] + post
                if len(set(out)) != n:
                    continue
            return out
    raise RuntimeError("cannot draw %d independent filter strings" % n)


# ---------------------------------------------------------------------------
# histories
# ---------------------------------------------------------------------------

UID = [0]


class Graph(object):
    def __init__(self, g, rng):
        UID[0] += 1
        u = UID[0]
        self.created = []
        base = type("FBase%d" % u, (SpecSet,), {"P": RegistryPoint(filterable=True),
                                                "P2": RegistryPoint(filterable=bool(g["p2f"]))})
        self.base = base

        def mkds(name, ctx):
            def body(broker):
                return None
            body.__name__ = name
            body.__module__ = "verif_generated"
            return datasource(ctx)(body)

        # I1 is built on further datasources (D0 <- D1 <- I1), the way first_of(...) implementations are
        d0 = simple_file("/var/log/verif-%d" % u, context=HostContext)

        def d1body(broker):
            return broker[d0]
        d1body.__name__ = "d1"
        d1body.__module__ = "verif_generated"
        d1 = datasource(d0)(d1body)
        alt = simple_file("var/log/verif-%d" % u, context=HostArchiveContext)
        if rng.random() < 0.6:
            i1 = first_of([d1, alt])
        else:
            def i1body(broker):
                return broker[d1]
            i1body.__name__ = "i1"
            i1body.__module__ = "verif_generated"
            i1 = datasource(d1, optional=[alt])(i1body)
        def mkcls(name):
            return type("%s_%d" % (name, u), (object,), {"__init__": lambda self, *a: None,
                                                         "__module__": "verif_generated"})

        q1 = parser(base.P)(mkcls("Q1"))
        i2 = mkds("i2", HostArchiveContext)
        # g.x: the implementation of the SECOND spec is a datasource built on a parser of the first spec
        # (spec -> parser -> datasource -> other filterable spec); filters must not travel along that path
        self.x = bool(g["x"]) if "x" in g else rng.random() < 0.5
        if self.x:
            def i3body(broker):
                return None
            i3body.__name__ = "i3"
            i3body.__module__ = "verif_generated"
            i3 = datasource(HostContext, q1)(i3body)
        else:
            i3 = mkds("i3", HostContext)
        type("FImplA%d" % u, (base,), {"P": i1, "P2": i3})
        type("FImplB%d" % u, (base,), {"P": i2})
        self.comp = {"P": base.P, "P2": base.P2, "I1": i1, "I2": i2, "I3": i3, "D1": d1, "D0": d0}
        self.extra = [alt]

        self.comp["Q1"] = q1
        q2 = sorted(g["q2"])
        if len(q2) == 1:
            self.comp["Q2"] = parser(self.comp[q2[0]])(mkcls("Q2"))
        elif rng.random() < 0.5:
            self.comp["Q2"] = combiner(base.P, base.P2)(mkcls("Q2"))
        else:
            self.comp["Q2"] = combiner([base.P, base.P2])(mkcls("Q2"))
        ks = [self.comp[x] for x in sorted(g["k"])]
        if rng.random() < 0.3:
            # K consumes Q1 through a plain component built on it (a condition component), not directly
            from insights.core.plugins import component as plain_component
            cond = plain_component(q1)(mkcls("Cond"))
            ks = [cond if x is q1 else x for x in ks]
            self.extra.append(cond)
        if rng.random() < 0.5:
            self.comp["K"] = combiner(*ks)(mkcls("K"))
        else:
            self.comp["K"] = combiner(ks[0], optional=ks[1:])(mkcls("K"))
        self.created = list(self.comp.values()) + self.extra


def run_hist(case, rng):
    gr = Graph(case["g"], rng)
    try:
        npat = max([p for op in case["hist"] for p in op["pats"]] + [1])
        strings = dict((i + 1, s) for i, s in enumerate(pick_filters(rng, npat)))
        strings[0] = ""
        back = dict((v, k) for k, v in strings.items())
        events = []
        for op in case["hist"]:
            comp = gr.comp[op["k"]]
            if op["op"] == "add":
                pats = [strings[p] for p in op["pats"]]
                form = rng.randint(0, 2)
                arg = pats[0] if len(pats) == 1 and form == 0 else (set(pats) if form == 1 else list(pats))
                raised = False
                try:
                    if op["mx"] == filters.MAX_MATCH and rng.random() < 0.5:
                        filters.add_filter(comp, arg)
                    else:
                        filters.add_filter(comp, arg, max_match=op["mx"])
                except Exception:
                    raised = True
                events.append({"ev": "add", "k": op["k"], "pats": sorted(op["pats"]), "mx": op["mx"],
                               "raised": raised})
            else:
                wm = bool(op["wm"]) if "wm" in op else rng.random() < 0.5
                r = filters.get_filters(comp, with_matches=wm)
                if wm:
                    ret = sorted([back.get(p, OTHER), int(b)] for p, b in r.items())
                else:
                    ret = sorted([back.get(p, OTHER), 0] for p in r)
                events.append({"ev": "get", "c": op["k"], "wm": wm, "ret": ret})
        return {"id": case["id"], "kind": "hist", "g": {"p2f": bool(case["g"]["p2f"]), "q2": sorted(case["g"]["q2"]),
                                                        "k": sorted(case["g"]["k"]), "x": gr.x}, "events": events}
    finally:
        cleanup(gr.created)


# ---------------------------------------------------------------------------
# contents
# ---------------------------------------------------------------------------

class RecHostContext(HostContext):
    """A HostContext that records the commands it is asked to run."""
    calls = []

    def check_output(self, cmd, timeout=None, keep_rc=False, env=None, signum=None):
        RecHostContext.calls.append(cmd)
        return super(RecHostContext, self).check_output(cmd, timeout=timeout, keep_rc=keep_rc, env=env,
                                                        signum=signum)


def build_lines(case, strings, rng):
    """Concrete text for the abstract line classes; every non-blank line carries a unique marker."""
    texts = []
    for i, ln in enumerate(case["lines"]):
        if ln["blank"]:
            texts.append("")
            continue
        marker = "#%d;" % (i + 1)
        parts = [strings[p] for p in ln["has"]]
        rng.shuffle(parts)
        body = rng.choice(FILL)
        for p in parts:
            body += p + rng.choice(FILL)
        if not parts and rng.random() < 0.5:
            body += rng.choice(["nothing here", "plain text", "xyz"])
        form = rng.randint(0, 2)
        texts.append(marker + body if form == 0 else (body + marker if form == 1 else
                                                       rng.choice(FILL) + marker + " " + body))
    return texts


def abstract_lines(texts, strings):
    return [{"blank": t == "", "has": sorted(p for p, s in strings.items() if s in t) if t != "" else []}
            for t in texts]


def index_out(out, texts):
    """Output lines -> indices of input lines (0: not an input line)."""
    pos = dict((t, i + 1) for i, t in enumerate(texts) if t != "")
    blanks = [i + 1 for i, t in enumerate(texts) if t == ""]
    res, last = [], 0
    for o in out:
        if o == "":
            nxt = [b for b in blanks if b > last]
            k = nxt[0] if nxt else 0
        else:
            k = pos.get(o, 0)
        res.append(k)
        if k:
            last = k
    return res


def features(allow_strings):
    """Abstract features of the filter set for signatures."""
    if not allow_strings:
        return "no-filters"
    f = []
    if sorted(allow_strings, reverse=True)[0].startswith("-"):
        f.append("first-sorted-filter-leading-dash")
    if any(a != b and a in b for a in allow_strings for b in allow_strings):
        f.append("nested-filters")          # one registered filter is a substring of another
    return "+".join(f) or "plain"


def grep_reference(path, s):
    """The environment's own `grep -F` on one filter string, in its safe form (R4)."""
    env = {"PATH": "/bin:/usr/bin", "LC_ALL": "C"}
    p = subprocess.run(["grep", "-n", "-F", "-e", s, "--", path], stdin=subprocess.DEVNULL, stdout=subprocess.PIPE,
                       stderr=subprocess.PIPE, env=env, timeout=20)
    if p.returncode not in (0, 1):
        raise RuntimeError("reference grep failed rc=%s: %r" % (p.returncode, p.stderr[:200]))
    return sorted(int(l.split(b":", 1)[0]) for l in p.stdout.splitlines() if l)


class ContentBench(object):
    def __init__(self, tmp, rng):
        from insights.cleaner import Cleaner
        self.tmp = tmp
        self.rng = rng
        conf = types.SimpleNamespace(obfuscate=False, obfuscate_hostname=False, obfuscate_ipv6=False,
                                     obfuscate_mac=False)
        self.cleaner = Cleaner(conf, None, fqdn="verif.example.com")
        self.n = 0
        self.grep_runs = 0
        self.grep_checked = 0
        self.hydrated = 0

    def run(self, case, paths, grep_check):
        self.n += 1
        rng = self.rng
        nf = len(case["allow"])
        style = None
        r = rng.random()
        if r < 0.25:
            style = POOL_DASH
        elif r < 0.45:
            style = POOL_META
        strings = dict((i + 1, s) for i, s in enumerate(pick_filters(rng, nf, style, nested=rng.random() < 0.3)))
        texts = build_lines(case, strings, rng)
        lines_abs = abstract_lines(texts, strings)
        allow = dict((strings[p + 1], b) for p, b in enumerate(case["allow"]) if b)
        feat = features(list(allow))
        root = os.path.join(self.tmp, "c%d" % self.n)
        os.makedirs(os.path.join(root, "var", "log"))
        rel = "var/log/messages"
        fpath = os.path.join(root, rel)
        with open(fpath, "w", encoding="utf-8") as f:
            f.write("".join(t + "\n" for t in texts))
        if grep_check:
            # R4: the model's line semantics ("contains the string") against the real grep -F
            for p, s in strings.items():
                mine = [i + 1 for i, t in enumerate(texts) if s in t]
                if grep_reference(fpath, s) != mine:
                    raise RuntimeError("R4: grep -F and containment disagree on %r in %r" % (s, texts))
            self.grep_checked += 1

        UID[0] += 1
        u = UID[0]
        base = type("CBase%d" % u, (SpecSet,), {"pt": RegistryPoint(filterable=True),
                                                "cmd": RegistryPoint(filterable=True)})
        hostf = simple_file("/" + rel, context=HostContext)
        hostc = simple_command("/bin/cat %s" % fpath, context=HostContext)
        arch = simple_file(rel, context=HostArchiveContext)
        type("CHost%d" % u, (base,), {"pt": hostf, "cmd": hostc})
        type("CArch%d" % u, (base,), {"pt": arch})
        qcls = type("CQ_%d" % u, (object,), {"__init__": lambda self, *a: None, "__module__": "verif_generated"})
        q = parser(base.pt)(qcls)
        created = [base.pt, base.cmd, hostf, hostc, arch, q]
        events = []
        multi = "serialized" in paths
        if multi:
            # a multi-output spec: two files, the case's lines and the same line classes bottom-up
            caseB = {"lines": list(reversed(case["lines"]))}
            textsB = build_lines(caseB, strings, rng)
            files = {"var/log/multi/a.log": (texts, lines_abs),
                     "var/log/multi/b.log": (textsB, abstract_lines(textsB, strings))}
            os.makedirs(os.path.join(root, "var", "log", "multi"))
            for frel, (tx, _) in files.items():
                with open(os.path.join(root, frel), "w", encoding="utf-8") as f:
                    f.write("".join(t + "\n" for t in tx))
            sbase = type("CSBase%d" % u, (SpecSet,), {"one": RegistryPoint(filterable=True),
                                                      "many": RegistryPoint(multi_output=True, filterable=True)})
            sone = simple_file(rel, context=HostArchiveContext)
            smany = glob_file("var/log/multi/*.log", context=HostArchiveContext)
            hmany = glob_file("/var/log/multi/*.log", context=HostContext)
            type("CSArch%d" % u, (sbase,), {"one": sone, "many": smany})
            type("CSHost%d" % u, (sbase,), {"many": hmany})
            sq = parser(sbase.many)(type("CSQ_%d" % u, (object,), {"__init__": lambda self, *a: None,
                                                                   "__module__": "verif_generated"}))
            created += [sbase.one, sbase.many, sone, smany, hmany, sq]
            sroot = os.path.join(root, "serialized")
            store_first = rng.random() < 0.65     # the archive was written before the filters were registered

            def store():
                b = dr.Broker()
                b[HostArchiveContext] = HostArchiveContext(root=root)
                dr.run(dr.get_dependency_graph(sone), broker=b)
                dr.run(dr.get_dependency_graph(smany), broker=b)
                h = Hydration(sroot)
                for comp in (sone, smany):
                    h.dehydrate(comp, b)
        try:
            if multi and store_first:
                store()
            # registration: on the spec, through a parser, or on the implementations (by VERIF_SEED)
            how = rng.randint(0, 1 if "tests-inputdata" in paths else 2)
            for s, b in allow.items():
                kw = {} if b == filters.MAX_MATCH and rng.random() < 0.5 else {"max_match": b}
                if how == 0:
                    filters.add_filter(base.pt, s, **kw)
                elif how == 1:
                    filters.add_filter(q, s, **kw)
                else:
                    filters.add_filter(hostf, s, **kw)
                    filters.add_filter(arch, s, **kw)
                filters.add_filter(base.cmd, s, **kw)
                if multi:
                    if how == 0:
                        filters.add_filter(sbase.one, s, **kw)
                        filters.add_filter(sbase.many, s, **kw)
                    elif how == 1:
                        filters.add_filter(sbase.one, s, **kw)
                        filters.add_filter(sq, s, **kw)
                    else:
                        for comp in (sone, smany, hmany):
                            filters.add_filter(comp, s, **kw)
            allow_abs = list(case["allow"])
            if multi and not store_first:
                store()

            def event(path, collected, out, note="", tx=texts, la=lines_abs):
                events.append({"ev": "content", "path": path, "lines": la, "allow": allow_abs,
                               "collected": bool(collected), "out": index_out(out, tx) if collected else [],
                               "feat": feat, "note": note})

            def file_events(path, provs, note):
                """one event per file of a multi-output spec"""
                byrel = dict((p.relative_path.lstrip("/"), p) for p in (provs or []))
                for frel, (tx, la) in sorted(files.items()):
                    pr = byrel.get(frel)
                    if pr is None:
                        event(path, False, [], note or "no-provider", tx, la)
                        continue
                    try:
                        event(path, True, list(pr.content), note, tx, la)
                    except Exception as ex:
                        event(path, False, [], type(ex).__name__, tx, la)

            def provider_content(point, broker):
                if point not in broker:
                    excs = [type(e).__name__ for lst in broker.exceptions.values() for e in lst]
                    return False, [], ",".join(sorted(set(excs)))
                try:
                    return True, list(broker[point].content), ""
                except Exception as ex:      # e.g. ContentException("Empty (after filtering)")
                    return False, [], type(ex).__name__

            if any(p.startswith("host") for p in paths):
                broker = dr.Broker()
                broker[HostContext] = RecHostContext(root=root, timeout=120)
                broker["cleaner"] = self.cleaner
                before = len(RecHostContext.calls)
                dr.run(dr.get_dependency_graph(q), broker=broker)
                dr.run(dr.get_dependency_graph(base.cmd), broker=broker)
                if "host-file" in paths:
                    event("host-file", *provider_content(base.pt, broker))
                if "host-cmd" in paths:
                    event("host-cmd", *provider_content(base.cmd, broker))
                ran = RecHostContext.calls[before:]
                self.grep_runs += sum(1 for c in ran if any(isinstance(x, list) and x[:2] == ["grep", "-F"] for x in c))
                if "host-write" in paths:
                    for name, point in (("host-write", base.pt), ("host-cmd-write", base.cmd)):
                        b2 = dr.Broker()
                        b2[HostContext] = RecHostContext(root=root, timeout=120)
                        b2["cleaner"] = self.cleaner
                        dr.run(dr.get_dependency_graph(point), broker=b2)
                        if point not in b2:
                            event(name, False, [], "not-in-broker")
                            continue
                        dst = os.path.join(root, "out", name)
                        try:
                            b2[point].write(dst)
                            with open(dst, encoding="utf-8") as f:
                                data = f.read()
                            event(name, True, data.split("\n"))
                        except Exception as ex:
                            event(name, False, [], type(ex).__name__)
            if "archive" in paths:
                broker = dr.Broker()
                broker[HostArchiveContext] = HostArchiveContext(root=root)
                dr.run(dr.get_dependency_graph(q), broker=broker)
                event("archive", *provider_content(base.pt, broker))
            if multi:
                note = "stored-before-registration" if store_first else "stored-after-registration"
                ctx = SerializedArchiveContext(root=sroot) if rng.random() < 0.5 else None
                loaded = Hydration(sroot, ctx=ctx).hydrate()
                pr = loaded.get(sone)
                if pr is None:
                    event("serialized-file", False, [], note + ",no-provider")
                else:
                    try:
                        event("serialized-file", True, list(pr.content), note)
                    except Exception as ex:
                        event("serialized-file", False, [], note + "," + type(ex).__name__)
                lst = loaded.get(smany)
                file_events("serialized-glob", lst if isinstance(lst, list) else None, note)
                self.hydrated += len(lst) if isinstance(lst, list) else 0
                broker = dr.Broker()
                broker[HostArchiveContext] = HostArchiveContext(root=root)
                dr.run(dr.get_dependency_graph(sq), broker=broker)
                lst = broker.get(sbase.many)
                file_events("archive-glob", lst if isinstance(lst, list) else None, "")
                if any(p.startswith("host") for p in paths) and self.n % 3 == 0:
                    broker = dr.Broker()
                    broker[HostContext] = RecHostContext(root=root, timeout=120)
                    broker["cleaner"] = self.cleaner
                    dr.run(dr.get_dependency_graph(hmany), broker=broker)
                    lst = broker.get(hmany)
                    excs = ",".join(sorted(set(type(e).__name__ for l2 in broker.exceptions.values() for e in l2)))
                    file_events("host-glob", lst if isinstance(lst, list) else None, excs)
            if "cleaner" in paths:
                al = filters.get_filters(hostf, True)
                out = self.cleaner.clean_content(list(texts), allowlist=al)
                event("cleaner", True, list(out))
            if "helper" in paths:
                event("helper", True, list(filters.apply_filters(rng.choice([hostf, arch] if how == 2 else [base.pt, hostf, arch]),
                                                                    list(texts))))
            if "tests-inputdata" in paths:
                from insights.tests import InputData, context_wrap
                d = InputData().add(base.pt, list(texts))
                event("tests-inputdata", True, list(d.data[base.pt].content))
                if how != 2:
                    event("tests-context-wrap", True, list(context_wrap(list(texts), filtered_spec=base.pt).content))
            conc = {"filters": allow, "lines": texts}
            if multi:
                conc["files"] = dict((k, v[0]) for k, v in files.items())     # "-glob" events: one per file
            return {"id": case["id"], "kind": "content", "events": events, "concrete": conc}
        finally:
            cleanup(created)
            shutil.rmtree(root, True)


def main():
    logging.disable(logging.CRITICAL)
    with open(sys.argv[1]) as f:
        inp = json.load(f)
    if not filters.ENABLED:
        raise RuntimeError("filters.ENABLED is off")
    rng = random.Random(inp.get("seed", 0))
    traces, stats = [], {}
    if inp["mode"] == "hist":
        for case in inp["cases"]:
            traces.append(run_hist(case, rng))
        stats["histories"] = len(traces)
    else:
        tmp = tempfile.mkdtemp(prefix="verif-c07-", dir=os.environ.get("VERIF_TMP") or None)
        try:
            bench = ContentBench(tmp, rng)
            every = inp.get("grep_check_every", 1)
            paths = inp["paths"]
            for i, case in enumerate(inp["cases"]):
                traces.append(bench.run(case, paths, bool(every) and i % every == 0))
            stats = {"contents": len(traces), "grep_runs": bench.grep_runs, "grep_checked": bench.grep_checked,
                     "hydrated": bench.hydrated}
            if inp["mode"] == "content-tests":
                import insights.tests
                stats["add_filter_patched"] = filters.add_filter is not filters._add_filter
        finally:
            shutil.rmtree(tmp, True)
    with open(sys.argv[2], "w") as f:
        json.dump({"traces": traces, "stats": stats}, f, separators=(",", ":"))


if __name__ == "__main__":
    main()
