#!/usr/bin/env python3
"""Run the repository's pinned test suite (command from /root/.vp/BASELINE.json, guard off)
and compare with the recorded stable passes.  exit 0 iff every stable test still passes."""
import json
import os
import subprocess
import sys
import tempfile
import xml.etree.ElementTree as ET

base = json.load(open("/root/.vp/BASELINE.json")) if os.path.exists("/root/.vp/BASELINE.json") else None
out = tempfile.mkdtemp(prefix="verif-baseline-")
xml = os.path.join(out, "junit.xml")
env = dict(os.environ)
for k in ("INSIGHTS_CORE_VERIF", "INSIGHTS_CORE_VERIF_TRACE"):
    env.pop(k, None)
cmd = ["/venv/bin/python", "-m", "pytest", "-ra", "-q", "-p", "no:cacheprovider", "--timeout=900",
       "--continue-on-collection-errors", "--junitxml=" + xml]
p = subprocess.run(cmd, cwd=os.environ.get("VERIF_REPO", "/repo"), env=env, stdin=subprocess.DEVNULL, stdout=subprocess.PIPE,
                   stderr=subprocess.STDOUT, universal_newlines=True)
print(p.stdout[-1500:])
passed = set()
for tc in ET.parse(xml).getroot().iter("testcase"):
    if not any(ch.tag in ("failure", "error", "skipped") for ch in tc):
        passed.add("%s::%s" % (tc.get("classname"), tc.get("name")))
import shutil
shutil.rmtree(out, True)
if base is None:
    print("no BASELINE.json; %d passed" % len(passed))
    sys.exit(0)
missing = [t for t in base["stable_pass"] if t not in passed]
print("stable tests: %d, passing now: %d, missing: %d" % (len(base["stable_pass"]), len(base["stable_pass"]) - len(missing), len(missing)))
for t in missing[:40]:
    print("  NOT PASSING:", t)
sys.exit(1 if missing else 0)
