"""C17: client identity and registration markers.
Model: specs/ClientState.tla (property = step relation StepOK, design = deterministic
functions; TLC explores every finite history of the design), emission wrapper
specs/ClientStateMC.tla, trace validation specs/ClientStateTrace.tla, driver
harness/drive_clientstate.py."""
import collections
import concurrent.futures
import json
import os
import random
import time

import lib

CLIENT_OPS = ("ReadId", "NewId", "Register", "Unregister", "DeleteMarker")
ACTIONS = ("ReadId", "NewId", "Register", "Unregister", "DeleteMarker", "PlantSymlink")
FORMS = ("canonical", "legacy", "newline", "upper", "nonv4", "spaced")
RHSM_KINDS = ("canonical", "unhyphenated", "upper", "nonv4", "spaced")

# (name, InitSel, OpsSel, Depth): every history of that shape is emitted by TLC and replayed
FAMILIES = {
    "quick": [("main1", "main", "client", 1), ("ident4", "ident", "ident", 4), ("rhsm3", "rhsm", "ids", 3),
              ("markers2", "markers", "markers", 2), ("plant3", "bare", "plant", 3)],
    "thorough": [("all2", "plain", "client", 2), ("ident6", "ident", "ident", 6), ("rhsm5", "rhsm", "ident", 5),
                 ("markers3", "markers", "markers", 3), ("plant4", "bare", "plant", 4)],
}
# TLC -simulate from every initial state, every operation: (depth, behaviours, cap on replayed histories)
SIM = {"quick": (4, 320, 4000), "thorough": (6, 4000, 60000)}

ASSUMPTIONS = [
    "the helpers are exercised in one process with constants.registered_files / unregistered_files / "
    "machine_id_file (and generate_machine_id's default destination) redirected to a temp world; "
    "cert_auth.RHSM_CONFIG / rhsmCertificate.read are stubbed: module absent, certificate unreadable, or an identity "
    "spelled canonically (v4), un-hyphenated, in upper case, as a non-version-4 UUID, or with white space around it",
    "identifier file states: absent, empty, canonical, un-hyphenated (upper or lower case by seed), trailing newline, "
    "white space around it; a dangling marker link points (by seed) to a missing file in an existing directory or "
    "into a missing directory; Unregister uses (by seed) write_unregistered_file() or write_unregistered_file(date); "
    "files that hold something that is not a UUID are not explored (the code exits with an error there)",
    "a read 'rewrites' the file when its bytes change or when it is opened for writing / replaced "
    "(observed through a sentinel mtime and the inode)",
    "model level: every finite history of the design is explored (finite state space, MaxFresh=3 regenerations); "
    "replay: every history of the listed families plus TLC -simulate histories from every initial state",
    "directories themselves are never created, removed or symlinked during a history",
]


def mc_cfg(init, ops, depth):
    return ("SPECIFICATION MCSpec\nCONSTANTS\n  MaxFresh = 8\n  InitSel = \"%s\"\n  OpsSel = \"%s\"\n  Depth = %d\n"
            "CONSTRAINT Emit\nCHECK_DEADLOCK FALSE\n" % (init, ops, depth))


def has_id(idf):
    return idf["form"] in FORMS


def antecedents(trace, counts):
    """Which clause antecedents a recorded history exercises (vacuity accounting only)."""
    pre = trace["init"]
    cur = has_id(pre["idf"])
    hit = False
    for e in trace["events"]:
        op = e["op"]
        if op in ("Register", "Unregister"):
            own, opp = ("reg", "unreg") if op == "Register" else ("unreg", "reg")
            for d in ("main", "legacy"):
                if pre["dir"][d] == "absent":
                    continue
                if pre[opp][d] != "absent":
                    counts["exclusive:opposite-present"] += 1
                    hit = True
                if pre[own][d] in ("link", "dangling"):
                    counts["link-at-own-marker:" + pre[own][d]] += 1
                    if e["k"] == "dated":
                        counts["link-at-own-marker:unregister-with-date"] += 1
                    hit = True
                if pre[opp][d] in ("link", "dangling"):
                    counts["link-at-opposite-marker:" + pre[opp][d]] += 1
                    hit = True
        elif op == "ReadId":
            if cur:
                counts["read-with-identity-established"] += 1
                hit = True
            if has_id(pre["idf"]):
                counts["read-with-identifier-file:" + pre["idf"]["form"]] += 1
            else:
                counts["read-without-identifier-file:" + pre["idf"]["form"]] += 1
        elif op == "DeleteMarker":
            if any(pre["reg"][d] in ("link", "dangling") or pre["unreg"][d] in ("link", "dangling")
                   for d in ("main", "legacy")):
                counts["delete-with-link"] += 1
        if op in ("ReadId", "NewId") and trace["init"]["rhsm"] != "none" and (op == "NewId" or not has_id(pre["idf"])):
            counts["obtained-from-subscription-identity:" + trace["init"]["rhsm"]] += 1
            hit = True
        if op in ("ReadId", "NewId") and e["ret"]["k"] == "id":
            cur = True
            counts["id-returned"] += 1
        pre = e["post"]
    return hit


REQUIRED = ["exclusive:opposite-present", "link-at-own-marker:link", "link-at-own-marker:dangling",
            "link-at-opposite-marker:link", "link-at-opposite-marker:dangling", "read-with-identity-established",
            "read-with-identifier-file:canonical", "read-with-identifier-file:legacy",
            "read-with-identifier-file:newline", "read-without-identifier-file:absent",
            "read-without-identifier-file:empty", "id-returned"] + \
           ["obtained-from-subscription-identity:" + k for k in RHSM_KINDS] + \
           ["read-with-identifier-file:" + f for f in ("upper", "nonv4", "spaced")] + \
           ["link-at-own-marker:unregister-with-date"]


def selftests(traces):
    """Binding self-test (R5): copies of recorded histories with ONE observation corrupted; the trace
    specification must reject each at that step with the named clause, else the machinery is vacuous."""
    import copy
    want = {}
    out = []

    def add(tag, t, i, clause, mutate):
        if "selftest/" + tag in want:
            return
        c = copy.deepcopy(t)
        c["id"] = "selftest/" + tag
        mutate(c["events"][i])
        want[c["id"]] = (i + 1, clause, t["id"])
        out.append(c)

    for t in traces:
        pre = t["init"]
        for i, e in enumerate(t["events"]):
            if e["op"] == "Register" and pre["dir"]["main"] != "absent":
                add("both-markers", t, i, "MarkersExclusive",
                    lambda ev: (ev["post"]["reg"].update(main="file"), ev["post"]["unreg"].update(main="file")))
                if pre["reg"]["main"] in ("link", "dangling"):
                    add("link-kept", t, i, "LinkReplaced", lambda ev: ev["post"]["reg"].update(main="link"))
                    add("target-written", t, i, "NotFollowed",
                        lambda ev: ev["post"]["tgt"]["main"]["reg"].update(live="changed"))
            if e["op"] == "ReadId" and has_id(pre["idf"]) and e["ret"]["k"] == "id":
                other = "00000000-0000-4000-8000-000000000000"
                add("other-id", t, i, "IdStable", lambda ev: ev["ret"].update(s=other, chars=list(other)))
                add("touched", t, i, "ReadDoesNotRewrite", lambda ev: ev.update(touched=True))
                add("upper", t, i, "IdCanonical",
                    lambda ev: ev["ret"].update(chars=[ch.upper() for ch in ev["ret"]["chars"]]))
                if pre["idf"]["form"] == "legacy":
                    add("normalised", t, i, "ReadDoesNotRewrite",
                        lambda ev: ev["post"]["idf"].update(form="canonical"))
            pre = e["post"]
        if len(want) == 7:
            break
    return out, want, 7 - len(want)


def check_selftests(val, want):
    """Remove the self-test rejections from the validation result; fail if a corruption went unnoticed."""
    mine = [r for r in val["rejected"] if r["id"].startswith("selftest/")]
    val["rejected"] = [r for r in val["rejected"] if not r["id"].startswith("selftest/")]
    real_bad = set(r["id"] for r in val["rejected"] if not r["clause"].startswith("NOTE:"))
    done = 0
    for tid, (line, clause, base) in sorted(want.items()):
        if base in real_bad:
            continue        # the recorded history itself is rejected (code under test broken): not a usable base
        if not any(r["id"] == tid and r["line"] == line and r["clause"].startswith(clause) for r in mine):
            raise lib.MachineryError("self-test: corrupted history %s was not rejected at step %d by %s (got %s)"
                                     % (tid, line, clause, [r for r in mine if r["id"] == tid]))
        done += 1
    return done


def emit_all(tier, rng):
    gen = lib.subdir("c17cfg")
    jobs = []
    for name, init, ops, depth in FAMILIES[tier]:
        p = os.path.join(gen, "ClientStateMC_%s.cfg" % name)
        with open(p, "w") as f:
            f.write(mc_cfg(init, ops, depth))
        jobs.append((name, p, dict(workers=4)))
    depth, num, cap = SIM[tier]
    p = os.path.join(gen, "ClientStateMC_sim.cfg")
    with open(p, "w") as f:
        f.write(mc_cfg("all", "any", depth))
    jobs.append(("sim", p, dict(workers=4, simulate=max(1, num // 4), depth=depth + 1, tlc_seed=lib.seed() + 101)))

    def one(job):
        name, cfgp, kw = job
        r = lib.run_tlc("ClientStateMC", cfgp, tag="c17-" + name, timeout=1800, raw_cases=True, **kw)
        return name, lib.require_ok(r, "ClientStateMC " + name)

    models, cases, emitted = [], [], {}
    with concurrent.futures.ThreadPoolExecutor(max_workers=2) as ex:
        for name, r in ex.map(one, jobs):
            lines = sorted(set(r.cases))
            r.cases = []
            emitted[name] = len(lines)
            if name == "sim" and len(lines) > cap:
                lines = rng.sample(lines, cap)
            for i, line in enumerate(lines):
                c = lib.parse_case(line)
                c["id"] = "%s#%d" % (name, i)
                cases.append(c)
            models.append(r)
    return models, cases, emitted


def execute(cases):
    payloads = [dict(cases=ch, seed=lib.seed()) for ch in lib.chunks(cases, min(lib.NCPU, 8))]
    outs = lib.run_driver_parallel("drive_clientstate.py", payloads, timeout=1500, jobs=min(lib.NCPU, 8))
    traces, stats = [], {}
    for o in outs:
        traces.extend(o["traces"])
        for k, v in o["stats"].items():
            stats[k] = stats.get(k, 0) + v
    return traces, stats


def judge(prop, verdict, val, traces, cases):
    bytrace = dict((t["id"], t) for t in traces)
    bycase = dict((c["id"], c) for c in cases)
    notes = {}
    first_bad = {}
    for rj in val["rejected"]:
        if not rj["clause"].startswith(("NOTE:", "ENV:")):
            first_bad[rj["id"]] = min(rj["line"], first_bad.get(rj["id"], rj["line"]))
    for rj in sorted(val["rejected"], key=lambda r: (r["id"], r["line"])):
        clause = rj["clause"]
        if clause.startswith("ENV:"):
            if first_bad.get(rj["id"], rj["line"]) < rj["line"]:
                # the world was already damaged by a rejected step of the code under test
                notes["ENV-after-violation"] = notes.get("ENV-after-violation", 0) + 1
                continue
            raise lib.MachineryError("environment step not reproduced by the harness (%s) in %s line %d"
                                     % (clause, rj["id"], rj["line"]))
        if clause.startswith("NOTE:"):
            notes[clause] = notes.get(clause, 0) + 1
            continue
        t = bytrace[rj["id"]]
        ev = t["events"][rj["line"] - 1]
        what = ("history %s: step %d (%s) violates %s; operations so far: %s"
                % (rj["id"], rj["line"], ev["op"], clause,
                   " ".join(e["op"] + ("(%s,%s,%s)" % (e["d"], e["m"], e["k"]) if e["op"] == "PlantSymlink" else
                                       "(%s)" % e["m"] if e["op"] == "DeleteMarker" else "")
                            for e in t["events"][:rj["line"]])))
        verdict.reject(lib.sig(prop, clause), what, dict(case=bycase.get(rj["id"]), trace=t, rejected=rj))
    for cl, n in sorted(notes.items()):
        if cl.startswith("NOTE:"):
            print("note: %d accepted step(s) differ from the design function of ClientState.tla (%s)" % (n, cl))
        else:
            print("note: %d environment step(s) could not be planted after an earlier violation damaged the world" % n)
    return notes


def run(prop, tier):
    verdict = lib.Verdict(prop, tier)       # starts the wall clock of the evidence record
    rng = random.Random(lib.seed())
    t0 = time.time()
    with concurrent.futures.ThreadPoolExecutor(max_workers=1) as ex:     # the complete design model runs beside the emission
        fut = ex.submit(lib.run_tlc, "ClientState", "ClientState_full.cfg", workers=4, coverage=True,
                        tag="c17-full", timeout=1800)
        models, cases, emitted = emit_all(tier, rng)
        full = lib.require_ok(fut.result(), "ClientState design model")
    missing = [a for a in ACTIONS if not full.coverage.get(a)]
    if missing:
        raise lib.MachineryError("vacuity: actions never taken in the model: %s" % missing)
    print("timing: models %.1fs (design: %d distinct states, all finite histories), %d histories to replay %s"
          % (time.time() - t0, full.distinct, len(cases), emitted))
    t1 = time.time()
    traces, stats = execute(cases)
    print("timing: driver %.1fs, %d traces, operations %s" % (time.time() - t1, len(traces), stats))
    if len(traces) != len(cases):
        raise lib.MachineryError("driver returned %d traces for %d cases" % (len(traces), len(cases)))
    for a in ACTIONS + ("dangling:target-directory-missing", "dangling:target-file-missing"):
        if not stats.get(a):
            raise lib.MachineryError("vacuity: operation %s never replayed" % a)
    if not stats.get("rhsm_calls"):
        print("note: the subscription identity stub was never consulted")
    t1 = time.time()
    corrupted, want, lacking_self = selftests(traces)
    val = lib.validate_traces("ClientStateTrace", "ClientStateTrace.cfg", traces + corrupted, jobs=min(lib.NCPU, 8))
    print("timing: validation %.1fs (%d events, %d JVMs)" % (time.time() - t1, val["events"], val["jvms"]))
    if val["events"] != sum(len(t["events"]) for t in traces + corrupted):
        raise lib.MachineryError("trace validation judged %d of %d events"
                                 % (val["events"], sum(len(t["events"]) for t in traces + corrupted)))
    nself = check_selftests(val, want)
    val["traces"] -= len(corrupted)
    val["events"] -= sum(len(t["events"]) for t in corrupted)

    notes = judge(prop, verdict, val, traces, cases)
    if lacking_self and not verdict.violations:
        raise lib.MachineryError("self-test: no recorded history to corrupt for %d of 7 mutations" % lacking_self)

    counts = collections.defaultdict(int)
    nontrivial = set()
    for t, c in zip(traces, cases):
        try:
            hit = antecedents(t, counts)
        except KeyError as ex:
            raise lib.MachineryError("trace %s has an unexpected shape: %s" % (t["id"], ex))
        if hit:
            nontrivial.add(json.dumps([c["init"], c["steps"]], sort_keys=True))
    counts = dict(counts)
    lacking = [k for k in REQUIRED if not counts.get(k)]
    if lacking:
        raise lib.MachineryError("vacuity: clause antecedents never exercised by a replayed history: %s" % lacking)

    samples = [dict(init=c["init"], steps=[s["op"] for s in c["steps"]]) for c in cases[:2]]
    if traces:
        samples.append(dict(trace_id=traces[-1]["id"], init=traces[-1]["init"], events=traces[-1]["events"][:3]))
    ev = lib.evidence(
        prop, tier, [full] + models, val, evaluations=len(traces), distinct_nontrivial=len(nontrivial),
        rule="model: every finite history of the design from every initial state (complete state graph), action "
             "properties = the five clauses of C17; replay: every history of the families %s (initial-state "
             "family x operations per position x depth, enumerated exhaustively by TLC) plus TLC -simulate "
             "histories of depth %d over all initial states and all operations including the environment's "
             "PlantSymlink; each history runs against the real helpers in a temp world and every step is judged "
             "by TLC (ClientStateTrace); distinct_nontrivial = distinct (initial state, operation sequence) in "
             "which a clause antecedent is active (register/unregister with the opposite marker present or a "
             "symlink at a marker; a read after the identifier was established)"
             % ([f[0] for f in FAMILIES[tier]], SIM[tier][0]),
        samples=samples, assumptions=ASSUMPTIONS,
        extra=dict(histories_emitted=emitted, operations_replayed=stats, antecedents_exercised=counts,
                   design_divergence_notes=notes, model_action_coverage=full.coverage,
                   selftest_corrupted_traces_rejected=nself,
                   clauses=["MarkersExclusive", "LinkReplacedNotFollowed", "IdCanonical", "IdStable",
                            "ReadDoesNotRewrite"],
                   exhaustive=False))
    return verdict.finish(ev)


def replay(prop, path):
    """Re-run the recorded history against the current tree and re-validate it."""
    with open(path) as f:
        rec = json.load(f)
    case = (rec.get("replay") or {}).get("case")
    if not case:
        print(json.dumps(rec, indent=1)[:20000])
        return 0
    traces, _ = execute([case])
    val = lib.validate_traces("ClientStateTrace", "ClientStateTrace.cfg", traces, jobs=1)
    print(json.dumps(dict(case=case, trace=traces[0], rejected=val["rejected"]), indent=1))
    bad = [r for r in val["rejected"] if not r["clause"].startswith("NOTE:")]
    known = set(k["signature"] for k in lib.load_known() if k.get("property") == prop and k.get("status") == "open")
    for r in bad:
        tag = "KNOWN-FINDING" if lib.sig(prop, r["clause"]) in known else "VIOLATION"
        print("%s property=%s step %d clause %s" % (tag, prop, r["line"], r["clause"]))
    return 1 if any(lib.sig(prop, r["clause"]) not in known for r in bad) else 0
