"""C11: what collection persists is what analysis loads.  Model: specs/Serde.tla
(+ SerdeMC emission / simulation), trace validation: specs/SerdeTrace.tla,
driver: harness/drive_serde.py."""
import concurrent.futures
import copy
import json
import os
import random
import re
import time

import lib

INVS = ["RoundTrip", "ErrorsPersisted", "FaultIsolation", "JoinSplitLaw"]

ASSUMPTIONS = [
    "lines contain no character that Python treats as a line break; text is valid Unicode (no lone surrogates)",
    "json, the file system, Python's text-mode line iteration and str.join are trusted; the model's Join / Lines "
    "operators are cross-checked against the interpreter on every data file written (R4)",
    "cmd / args are compared for the kinds that carry a command (command, container command); args compare as "
    "none / string / sequence of strings (a tuple comes back as a list)",
    "relative location = the location recorded by the serializer in the metadata document (DESIGN section 5, C11)",
    "command output is supplied by a canned host context (no process is started); container engine presence is "
    "simulated by patching which()",
    "the order in which hydrate meets the metadata files is permuted by wrapping glob (seeded); the model explores "
    "every order",
    "a corrupted entry itself is not constrained, only the entries that were not touched",
    "bounds: exhaustive inside the listed TLC configurations; TLC -simulate archives (4 entries, 3 elements, "
    "4 lines, every corruption mode) beyond them",
]


def subst_cfg(name, out, **kv):
    with open(os.path.join(lib.SPECS, name)) as f:
        txt = f.read()
    for k, v in kv.items():
        txt, n = re.subn(r"(?m)^(\s*%s\s*=).*$" % re.escape(k), lambda m: m.group(1) + " " + v, txt)
        if n != 1:
            raise lib.MachineryError("cfg %s: constant %s not found" % (name, k))
    path = os.path.join(lib.subdir("gencfg"), out)
    with open(path, "w") as f:
        f.write(txt)
    return path


def model_jobs(tier):
    q = tier == "quick"
    all_kinds = '{"text", "raw", "command", "cfile", "ccmd", "datasource"}'
    jobs = [
        ("content", "SerdeMC", "SerdeMC_content.cfg" if q else subst_cfg("SerdeMC_content.cfg", "content.cfg", MaxLines="4"), {}),
        ("multi", "SerdeMC", "SerdeMC_multi.cfg" if q else subst_cfg("SerdeMC_multi.cfg", "multi.cfg", MaxElems="3"), {}),
        ("faults", "SerdeMC", "SerdeMC_faults.cfg" if q else subst_cfg("SerdeMC_faults.cfg", "faults.cfg", Kinds=all_kinds), {}),
        # every hydration order of three entries under every corruption (model only)
        ("orders", "Serde", "Serde_orders.cfg", {}),
        ("sim", "SerdeMC", "SerdeMC_sim.cfg",
         dict(simulate=60 if q else 1500, depth=16, tlc_seed=lib.seed() + 23)),
    ]
    return jobs


def run_models(tier):
    models, raw = [], []

    def one(job):
        name, mod, cfg, kw = job
        r = lib.run_tlc(mod, cfg, workers=4, tag="serde-" + name, timeout=1800, raw_cases=True,
                        coverage=(name in ("faults", "multi")), **kw)
        return name, lib.require_ok(r, "Serde model " + name)

    with concurrent.futures.ThreadPoolExecutor(max_workers=3) as ex:
        for name, r in ex.map(one, model_jobs(tier)):
            raw.extend((name, i, line) for i, line in enumerate(r.cases))
            r.cases = []
            models.append(r)
    return models, raw


REQUIRED_ACTIONS = ["Dehydrate", "Corrupt", "HydrateEntry", "Finish"]


def features(case):
    kinds = sorted(set(e["kind"] for e in case["entries"]))
    return "kinds=%s" % "+".join(kinds)


def nontrivial_key(case):
    return json.dumps([[(e["kind"], e["multi"], e["failed"], e["saveas"], [el["lines"] for el in e["elems"]])
                        for e in case["entries"]], case["fault"]], sort_keys=True)


def run(prop, tier):
    rng = random.Random(lib.seed())
    t0 = time.time()
    models, raw = run_models(tier)
    cov = {}
    for m in models:
        for k, v in m.coverage.items():
            cov[k] = cov.get(k, 0) + v
    for a in REQUIRED_ACTIONS:
        if not cov.get(a):
            raise lib.MachineryError("vacuity: action %s of Serde.tla was never taken (coverage %s)" % (a, cov))
    cases = []
    for name, i, line in raw:
        c = lib.parse_case(line)
        c["id"] = "%s#%d" % (name, i)
        cases.append(c)
    rng.shuffle(cases)
    print("timing: models %.1fs; %d archives emitted" % (time.time() - t0, len(cases)))

    t1 = time.time()
    jobs = min(lib.NCPU, 8)
    longlen = 70000 if tier == "quick" else 1048576
    payloads = [dict(base=os.path.join(lib.subdir("c11fs"), "p%d" % j), seed=lib.seed() * 1000 + j, longlen=longlen,
                     cases=ch) for j, ch in enumerate(lib.chunks(cases, jobs * 2))]
    outs = lib.run_driver_parallel("drive_serde.py", payloads, timeout=1800, jobs=jobs)
    traces, stats = [], {}
    for o in outs:
        traces.extend(o["traces"])
        for k, v in o["stats"].items():
            stats[k] = stats.get(k, 0) + v
    nev = sum(len(t["events"]) for t in traces)
    print("timing: drivers %.1fs, %d traces, %d events; %s" % (time.time() - t1, len(traces), nev, stats))
    for what, ok in (("metadata documents with results were written", stats.get("docs_with_results", 0) > 0),
                     ("metadata documents with errors were written", stats.get("docs_with_errors", 0) > 0),
                     ("data files were written", stats.get("datafiles", 0) > 0),
                     ("archives were damaged", stats.get("faults", 0) > 0),
                     ("entries were loaded into the fresh broker", stats.get("loaded", 0) > 0)):
        if not ok:
            raise lib.MachineryError("vacuity: never observed that %s (%s)" % (what, stats))

    t1 = time.time()
    mutants = selftest_traces(traces)
    val = lib.validate_traces("SerdeTrace", "SerdeTrace.cfg", traces + mutants, jobs=jobs)
    print("timing: validation %.1fs (%d events, %d JVMs)" % (time.time() - t1, val["events"], val["jvms"]))
    byid = dict((t["id"], t) for t in traces + mutants)
    bycase = dict((c["id"], c) for c in cases)
    verdict = lib.Verdict(prop, tier)
    mut_rejected = set()
    for rj in val["rejected"]:
        t = byid[rj["id"]]
        clause = rj["clause"]
        if rj["id"].startswith("selftest/"):
            mut_rejected.add((rj["id"], clause.split(":")[0]))
            continue
        ev = t["events"][rj["line"] - 1]
        if clause.startswith("R4."):
            raise lib.MachineryError("R4: the model's text operators and the interpreter disagree (%s) on trace %s: %s"
                                     % (clause, rj["id"], json.dumps(ev)[:800]))
        brief = dict((k, v) for k, v in ev.items() if k not in ("env",))
        what = "archive %s (%s), corruption %s: %s event rejected, clause %s; observed %s" % (
            rj["id"], features(bycase[rj["id"]]), t["events"][2]["how"] if len(t["events"]) > 2 else "-",
            ev["ev"], clause, json.dumps(brief)[:700])
        verdict.reject(lib.sig(prop, clause), what, dict(case=bycase[rj["id"]], trace=t, rejected=rj))
    need = set((m["id"], m["expect"]) for m in mutants)
    if need - mut_rejected:
        raise lib.MachineryError("binding self-test: corrupted traces were not rejected: %s" % sorted(need - mut_rejected))

    distinct = set(nontrivial_key(c) for c in cases
                   if any(f != "none" for f in c["fault"]) or any(e["failed"] or e["multi"] or
                                                                  any(len(el["lines"]) > 0 for el in e["elems"])
                                                                  for e in c["entries"]))
    samples = []
    for t in traces:
        if len(samples) < 2 and any(f != "none" for f in t["events"][2]["fault"]):
            samples.append(dict(case=bycase[t["id"]], corruption=t["events"][2]["how"],
                                hydrated=dict((k, v) for k, v in t["events"][3].items())))
    samples.append(dict(case=bycase[traces[0]["id"]], events=[dict((k, v) for k, v in e.items() if k != "env")
                                                              for e in traces[0]["events"]]))
    ev = lib.evidence(
        prop, tier, models, val, evaluations=len(traces), distinct_nontrivial=len(distinct),
        rule="cases = every (archive, corruption assignment) TLC explored in the listed exhaustive configurations plus "
             "-simulate archives; each is built with the real providers, persisted with Hydration.dehydrate through "
             "the broker observer, damaged on disk and loaded with Hydration.hydrate / initialize_broker into a fresh "
             "broker; distinct_nontrivial = distinct (entries, corruption) having content, several elements, a failed "
             "component or a corrupted entry",
        samples=samples, assumptions=ASSUMPTIONS,
        extra=dict(archives=len(cases), driver_stats=stats, invariants_checked_on_model=INVS, action_coverage=cov,
                   selftest_corrupted_traces_rejected=len(need), long_line_chars=longlen, exhaustive=False))
    return verdict.finish(ev)


def selftest_traces(traces):
    """Binding demonstration (R5): corrupt one recorded field; SerdeTrace must reject."""
    out = []

    def add(t, expect, tag, fn):
        m = copy.deepcopy(t)
        fn(m)
        m["id"] = "selftest/" + tag
        m["expect"] = expect
        out.append(m)

    want = {"lines": None, "drop": None, "errors": None, "args": None, "order": None}
    for t in traces:
        ev = t["events"]
        col, per, cor, hyd = ev[0], ev[1], ev[2], ev[3]
        intact = [i for i, f in enumerate(cor["fault"]) if f == "none" and hyd["loaded"][i]["present"]]
        if want["lines"] is None and intact and any(len(el["lines"]) > 1 for el in hyd["loaded"][intact[0]]["elems"]):
            def fn(m, i=intact[0]):
                for el in m["events"][3]["loaded"][i]["elems"]:
                    if len(el["lines"]) > 1:
                        el["lines"] = el["lines"][1:]
            want["lines"] = 1
            add(t, "RoundTrip", "lines", fn)
        if want["drop"] is None and intact and any(f != "none" for f in cor["fault"]):
            def fn(m, i=intact[0]):
                m["events"][3]["loaded"][i] = dict(present=False, multi=False, elems=[])
            want["drop"] = 1
            add(t, "FaultIsolation", "drop", fn)
        if want["errors"] is None and any(c["failed"] for c in col["comps"]):
            def fn(m):
                for i, c in enumerate(m["events"][0]["comps"]):
                    if c["failed"]:
                        m["events"][1]["docs"][i]["nerrors"] = 0
            want["errors"] = 1
            add(t, "ErrorsPersisted", "errors", fn)
        if want["args"] is None and intact and col["comps"][intact[0]]["kind"] == "ccmd":
            def fn(m, i=intact[0]):
                m["events"][3]["loaded"][i]["elems"][0]["args"] = {"shape": "none", "v": []}
            want["args"] = 1
            add(t, "RoundTrip", "args", fn)
        if want["order"] is None and intact:
            i = intact[0]
            els = hyd["loaded"][i]["elems"]
            if len(els) >= 2 and els[0]["lines"] != els[-1]["lines"] and all(
                    LinesDiffer(a, b) for a in (els[0],) for b in (els[-1],)):
                def fn(m, i=i):
                    e = m["events"][3]["loaded"][i]["elems"]
                    e[0]["lines"], e[-1]["lines"] = e[-1]["lines"], e[0]["lines"]
                want["order"] = 1
                add(t, "RoundTrip", "order", fn)
        if all(v is not None for v in want.values()):
            break
    return out


def LinesDiffer(a, b):
    """the two elements' contents differ by more than one trailing empty line"""
    def norm(ls):
        return ls[:-1] if ls and ls[-1] == [] else ls
    return norm(a["lines"]) != norm(b["lines"]) and a["lines"] != norm(b["lines"]) and norm(a["lines"]) != b["lines"]
