"""C11: what collection persists is what analysis loads.  Model: specs/Serde.tla
(+ SerdeMC emission / simulation), trace validation: specs/SerdeTrace.tla,
driver: harness/drive_serde.py."""
import concurrent.futures
import copy
import json
import os
import random
import re
import time

import lib

INVS = ["RoundTrip", "ErrorsPersisted", "FaultIsolation", "JoinSplitLaw"]

ASSUMPTIONS = [
    "lines contain no character that Python treats as a line break; text is valid Unicode (no lone surrogates); "
    "U+FEFF is an ordinary character (atoms f: line starts with it, g: elsewhere)",
    "json, the file system, Python's text-mode line iteration and str.join are trusted; the model's Join / Lines "
    "operators are cross-checked against the interpreter on every data file written (R4)",
    "cmd / args are compared for the kinds that carry a command (command, container command); args compare as "
    "none / string / sequence of strings (a tuple comes back as a list)",
    "relative location = the location recorded by the serializer in the metadata document (DESIGN section 5, C11)",
    "command output is supplied by a canned host context (no process is started); container engine presence is "
    "simulated by patching which()",
    "the order in which hydrate meets the metadata files is permuted by wrapping glob (seeded); the model explores "
    "every order",
    "a corrupted entry itself is not constrained, only the entries that were not touched",
    "thread-pool persistence (Hydration(pool=...), as insights.collect does): the canned commands of a multi-output "
    "value answer with decreasing latency (15 ms steps), so a completion-order dependence shows as a re-ordering; "
    "sampled, not every interleaving of the real threads",
    "process history: a driver process handles its archives one after the other; 'late' components come from a plugin "
    "module loaded with dr.load_components() after the process has loaded at least one archive; a name is never "
    "looked up before its component is registered (dr caches a miss)",
    "bounds: exhaustive inside the listed TLC configurations; TLC -simulate archives (4 entries, 3 elements, "
    "4 lines, every corruption mode) beyond them",
]


def subst_cfg(name, out, **kv):
    with open(os.path.join(lib.SPECS, name)) as f:
        txt = f.read()
    for d in kv.pop("drop", []):
        txt = "\n".join(l for l in txt.splitlines() if l.strip() != d) + "\n"
    for k, v in kv.items():
        txt, n = re.subn(r"(?m)^(\s*%s\s*=).*$" % re.escape(k), lambda m: m.group(1) + " " + v, txt)
        if n != 1:
            raise lib.MachineryError("cfg %s: constant %s not found" % (name, k))
    path = os.path.join(lib.subdir("gencfg"), out)
    with open(path, "w") as f:
        f.write(txt)
    return path


def model_jobs(tier):
    q = tier == "quick"
    all_kinds = '{"text", "raw", "command", "cfile", "ccmd", "datasource"}'
    jobs = [
        ("content", "SerdeMC", "SerdeMC_content.cfg" if q else subst_cfg("SerdeMC_content.cfg", "content.cfg", MaxLines="4"), {}),
        # content that starts with / contains U+FEFF, every kind
        ("bom", "SerdeMC", "SerdeMC_bom.cfg" if q else subst_cfg("SerdeMC_bom.cfg", "bom.cfg", MaxLines="3"), {}),
        # every way of not producing a value x stand-alone / spec-backed datasource
        ("outcomes", "SerdeMC", "SerdeMC_outcomes.cfg", {}),
        # a filterable spec with a max-match budget: several elements, every line matches, within the budget
        ("filtered", "SerdeMC", "SerdeMC_filtered.cfg", {}),
        # components registered (plugin loaded) after the process has already loaded an earlier archive
        ("late", "SerdeMC", "SerdeMC_late.cfg", {}),
        ("multi", "SerdeMC", "SerdeMC_multi.cfg" if q else subst_cfg("SerdeMC_multi.cfg", "multi.cfg", MaxElems="3"), {}),
        ("faults", "SerdeMC", "SerdeMC_faults.cfg" if q else subst_cfg("SerdeMC_faults.cfg", "faults.cfg", Kinds=all_kinds), {}),
        # every hydration order of three entries under every corruption (model only)
        ("orders", "Serde", "Serde_orders.cfg", {}),
        ("sim", "SerdeMC", "SerdeMC_sim.cfg",
         dict(simulate=60 if q else 1500, depth=40, tlc_seed=lib.seed() + 23)),
        # RoundTrip can fail: results assembled in the pool's completion order violate it
        ("neg-points-only", "Serde", subst_cfg("SerdeMC_outcomes.cfg", "negr.cfg", RecordMode='"points-only"', N="1",
                                               Modes="{}", MaxFaults="0", drop=["CONSTRAINT Emit"]), {}),
        ("neg-shared-budget", "Serde", subst_cfg("SerdeMC_filtered.cfg", "negb.cfg", BudgetMode='"shared"',
                                                 drop=["CONSTRAINT Emit"]), {}),
        ("neg-snapshot", "Serde", subst_cfg("SerdeMC_late.cfg", "negl.cfg", LookupMode='"snapshot"',
                                            drop=["CONSTRAINT Emit"]), {}),
        ("neg-completion", "Serde", subst_cfg("Serde_orders.cfg", "negc.cfg", AssembleMode='"completion"', N="1",
                                              MaxElems="2", PoolSet="{TRUE}", Modes="{}", MaxFaults="0"), {}),
    ]
    return jobs


def run_models(tier):
    models, raw = [], []

    def one(job):
        name, mod, cfg, kw = job
        r = lib.run_tlc(mod, cfg, workers=4, tag="serde-" + name, timeout=1800, raw_cases=True,
                        coverage=(name in ("faults", "multi")), **kw)
        if name.startswith("neg-"):
            want = {"neg-completion": "RoundTrip", "neg-points-only": "ErrorsPersisted", "neg-snapshot": "FaultIsolation",
                    "neg-shared-budget": "RoundTrip"}[name]
            if r.violation != want:
                raise lib.MachineryError("model %s: expected TLC to find a violation of %s for the transcription of "
                                         "the flawed design, got violation=%s error=%s"
                                         % (name, want, r.violation, r.error))
            return name, None
        return name, lib.require_ok(r, "Serde model " + name)

    with concurrent.futures.ThreadPoolExecutor(max_workers=3) as ex:
        for name, r in ex.map(one, model_jobs(tier)):
            if r is None:
                continue
            raw.extend((name, i, line) for i, line in enumerate(r.cases))
            r.cases = []
            models.append(r)
    return models, raw


REQUIRED_ACTIONS = ["Dehydrate", "SerializeAny", "DehydrateEnd", "Corrupt", "HydrateEntry", "Finish"]


def features(case):
    kinds = sorted(set(e["kind"] for e in case["entries"]))
    return "kinds=%s" % "+".join(kinds)


def nontrivial_key(case):
    return json.dumps([[(e["kind"], e["multi"], e.get("outcome"), e.get("backed"), e.get("late"), e["saveas"], [el["lines"] for el in e["elems"]])
                        for e in case["entries"]], case["fault"], case.get("pooled", False)], sort_keys=True)


def run(prop, tier):
    rng = random.Random(lib.seed())
    t0 = time.time()
    models, raw = run_models(tier)
    cov = {}
    for m in models:
        for k, v in m.coverage.items():
            cov[k] = cov.get(k, 0) + v
    for a in REQUIRED_ACTIONS:
        if not cov.get(a):
            raise lib.MachineryError("vacuity: action %s of Serde.tla was never taken (coverage %s)" % (a, cov))
    cases = []
    for name, i, line in raw:
        c = lib.parse_case(line)
        c["id"] = "%s#%d" % (name, i)
        cases.append(c)
    rng.shuffle(cases)
    print("timing: models %.1fs; %d archives emitted" % (time.time() - t0, len(cases)))

    t1 = time.time()
    jobs = min(lib.NCPU, 8)
    longlen = 70000 if tier == "quick" else 1048576
    payloads = [dict(base=os.path.join(lib.subdir("c11fs"), "p%d" % j), seed=lib.seed() * 1000 + j, longlen=longlen,
                     cases=ch) for j, ch in enumerate(lib.chunks(cases, jobs * 2))]
    outs = lib.run_driver_parallel("drive_serde.py", payloads, timeout=1800, jobs=jobs)
    traces, stats = [], {}
    for o in outs:
        traces.extend(o["traces"])
        for k, v in o["stats"].items():
            stats[k] = stats.get(k, 0) + v
    nev = sum(len(t["events"]) for t in traces)
    print("timing: drivers %.1fs, %d traces, %d events; %s" % (time.time() - t1, len(traces), nev, stats))
    for what, ok in (("metadata documents with results were written", stats.get("docs_with_results", 0) > 0),
                     ("metadata documents with errors were written", stats.get("docs_with_errors", 0) > 0),
                     ("data files were written", stats.get("datafiles", 0) > 0),
                     ("archives were damaged", stats.get("faults", 0) > 0),
                     ("filterable specs with a budget were persisted and loaded", stats.get("filtered", 0) > 0),
                     ("stand-alone and spec-backed datasources failed", stats.get("failed_alone", 0) > 0 and
                      stats.get("failed_backed", 0) > 0),
                     ("results of components registered after an earlier load of the same process were persisted",
                      stats.get("late", 0) > 0 and stats.get("late_persisted", 0) > 0),
                     ("archives were persisted with a thread pool", stats.get("pooled", 0) > 0),
                     ("entries were loaded into the fresh broker", stats.get("loaded", 0) > 0)):
        if not ok:
            raise lib.MachineryError("vacuity: never observed that %s (%s)" % (what, stats))

    t1 = time.time()
    mutants = selftest_traces(traces)
    val = lib.validate_traces("SerdeTrace", "SerdeTrace.cfg", traces + mutants, jobs=jobs)
    print("timing: validation %.1fs (%d events, %d JVMs)" % (time.time() - t1, val["events"], val["jvms"]))
    byid = dict((t["id"], t) for t in traces + mutants)
    bycase = dict((c["id"], c) for c in cases)
    verdict = lib.Verdict(prop, tier)
    verdict.t0 = t0                      # wall time of the whole run, not only of the verdict step
    mut_rejected = set()
    for rj in val["rejected"]:
        t = byid[rj["id"]]
        clause = rj["clause"]
        if rj["id"].startswith("selftest/"):
            mut_rejected.add((rj["id"], clause.split(":")[0]))
            continue
        ev = t["events"][rj["line"] - 1]
        if clause.startswith("R4."):
            raise lib.MachineryError("R4: the model's text operators and the interpreter disagree (%s) on trace %s: %s"
                                     % (clause, rj["id"], json.dumps(ev)[:800]))
        brief = dict((k, v) for k, v in ev.items() if k not in ("env",))
        what = "archive %s (%s), corruption %s: %s event rejected, clause %s; observed %s" % (
            rj["id"], features(bycase[rj["id"]]), t["events"][2]["how"] if len(t["events"]) > 2 else "-",
            ev["ev"], clause, json.dumps(brief)[:700])
        verdict.reject(lib.sig(prop, clause), what, dict(case=bycase[rj["id"]], trace=t, rejected=rj))
    need = set((m["id"], m["expect"]) for m in mutants if m["expect"] != "accepted")
    if need != mut_rejected:
        raise lib.MachineryError("binding self-test: expected rejections %s, got %s"
                                 % (sorted(need), sorted(mut_rejected)))

    distinct = set(nontrivial_key(c) for c in cases
                   if any(f != "none" for f in c["fault"]) or any(e["failed"] or e["multi"] or
                                                                  any(len(el["lines"]) > 0 for el in e["elems"])
                                                                  for e in c["entries"]))
    samples = []
    for t in traces:
        if len(samples) < 2 and any(f != "none" for f in t["events"][2]["fault"]):
            samples.append(dict(case=bycase[t["id"]], corruption=t["events"][2]["how"],
                                hydrated=dict((k, v) for k, v in t["events"][3].items())))
    samples.append(dict(case=bycase[traces[0]["id"]], events=[dict((k, v) for k, v in e.items() if k != "env")
                                                              for e in traces[0]["events"]]))
    ev = lib.evidence(
        prop, tier, models, val, evaluations=len(traces), distinct_nontrivial=len(distinct),
        rule="cases = every (archive, corruption assignment) TLC explored in the listed exhaustive configurations plus "
             "-simulate archives; each is built with the real providers, persisted with Hydration.dehydrate through "
             "the broker observer, damaged on disk and loaded with Hydration.hydrate / initialize_broker into a fresh "
             "broker; distinct_nontrivial = distinct (entries, corruption) having content, several elements, a failed "
             "component or a corrupted entry",
        samples=samples, assumptions=ASSUMPTIONS,
        extra=dict(archives=len(cases), driver_stats=stats, invariants_checked_on_model=INVS, action_coverage=cov,
                   selftest_corrupted_traces_rejected=len(need), long_line_chars=longlen, exhaustive=False))
    return verdict.finish(ev)


def _elem(lines, cmd="", args=None, rel=None):
    d = dict(lines=lines, cmd=cmd, args=args or {"shape": "none", "v": []})
    if rel is not None:
        d["rel"] = rel
    return d


def selftest_traces(traces):
    """Binding demonstration (R5).  A hand-written archive trace (independent of the code under test) must be
    accepted; the same trace with one recorded field changed must be rejected with the clause of the property
    the change breaks."""
    a1 = {"shape": "str", "v": ["a1"]}
    a2 = {"shape": "str", "v": ["a2"]}
    comps = [dict(kind="text", multi=False, failed=False, outcome="ok", backed=True, filtered=False, late=False, saveas="none",
                  elems=[_elem([["p1"], [], ["n1"], []])]),
             dict(kind="command", multi=True, failed=False, outcome="ok", backed=False, filtered=False, late=False, saveas="none",
                  elems=[_elem([["p2"]], "/bin/echo 1", a1), _elem([["b2"], ["L2"]], "/bin/echo 2", a2)]),
             dict(kind="none", multi=False, failed=True, outcome="timeout", backed=False, filtered=False, late=False, saveas="none",
                  elems=[])]

    def doc(name, nerr, res, multi):
        return dict(present=True, readable=True, shape=True, name=name, nerrors=nerr, hasres=bool(res), multi=multi,
                    res=res)
    docs = [doc(1, 0, [dict(rel="p1/f1", cmd="", args={"shape": "none", "v": []})], False),
            doc(2, 0, [dict(rel="insights_commands/echo_1", cmd="/bin/echo 1", args=a1),
                       dict(rel="insights_commands/echo_2", cmd="/bin/echo 2", args=a2)], True),
            doc(3, 1, [], False)]
    env = [dict(lines=[["p1"], [], ["n1"], []], joined=["p1", "NL", "NL", "n1", "NL"],
                file=["p1", "NL", "NL", "n1", "NL"], split=[["p1"], [], ["n1"]])]
    loaded = [dict(present=True, multi=False, elems=[_elem([["p1"], [], ["n1"]], rel="p1/f1")]),
              dict(present=True, multi=True, elems=[_elem([["p2"]], "/bin/echo 1", a1, "insights_commands/echo_1"),
                                                    _elem([["b2"], ["L2"]], "/bin/echo 2", a2, "insights_commands/echo_2")]),
              dict(present=False, multi=False, elems=[])]
    base = dict(id="selftest/base", expect="accepted", events=[
        dict(ev="collected", comps=comps), dict(ev="persisted", docs=docs, env=env),
        dict(ev="corrupt", fault=["none", "none", "deleted"], how=["none", "none", "deleted"]),
        dict(ev="hydrated", via="hydrate", escaped=False, exc="", order=[], loaded=loaded)])
    out = [base]

    def variant(tag, expect, fn):
        m = copy.deepcopy(base)
        fn(m["events"])
        m["id"], m["expect"] = "selftest/" + tag, expect
        out.append(m)

    variant("lines", "RoundTrip", lambda e: e[3]["loaded"][0]["elems"][0].update(lines=[["p1"], ["n1"]]))
    variant("two-trailing", "RoundTrip", lambda e: e[3]["loaded"][0]["elems"][0].update(lines=[["p1"], []]))
    variant("order", "RoundTrip", lambda e: e[3]["loaded"][1]["elems"].reverse())
    variant("args", "RoundTrip", lambda e: e[3]["loaded"][1]["elems"][0].update(args={"shape": "none", "v": []}))
    variant("cmd", "RoundTrip", lambda e: e[3]["loaded"][1]["elems"][1].update(cmd=""))
    variant("rel", "RoundTrip", lambda e: e[3]["loaded"][0]["elems"][0].update(rel="elsewhere/f1"))
    variant("dropped", "FaultIsolation", lambda e: e[3]["loaded"].__setitem__(1, dict(present=False, multi=False, elems=[])))
    variant("escaped", "FaultIsolation", lambda e: e[3].update(escaped=True))
    variant("errors", "ErrorsPersisted", lambda e: e[1]["docs"][2].update(nerrors=0))
    variant("nodoc", "ErrorsPersisted", lambda e: e[1]["docs"][2].update(present=False, readable=False, nerrors=0))
    variant("split", "R4.split", lambda e: e[1]["env"][0].update(split=[["p1"], [], ["n1"], []]))
    return out


def replay(prop, path):
    """Re-execute a recorded violation against the current tree and re-validate it."""
    with open(path) as f:
        rec = json.load(f)
    rp = rec["replay"]
    case = dict(rp["case"], id="replay", via=rp["trace"]["events"][-1].get("via", "hydrate"))
    same = False
    print("replay of %s (%s)" % (path, rec["signature"]))
    for k in range(4):                      # the concretisation below an abstract case is seeded: try a few
        out = lib.run_driver("drive_serde.py", dict(base=os.path.join(lib.subdir("c11fs"), "replay%d" % k),
                                                    seed=lib.seed() + k, longlen=70000, cases=[case]))
        val = lib.validate_traces("SerdeTrace", "SerdeTrace.cfg", out["traces"], jobs=1)
        for rj in val["rejected"]:
            print("  rejected: clause %s" % rj["clause"])
            same = same or lib.sig(prop, rj["clause"]) == rec["signature"]
        if same:
            break
    print("  %s" % ("REPRODUCED" if same else "not reproduced on the current tree"))
    return 1 if same else 0
