"""X06 (extra check, not one of the listed properties): life cycle of the client's upload archive
(insights/client/archive.py, class InsightsArchive).
Model: specs/ArchiveLife.tla (property = step relation StepOK, design = one deterministic function per
method; TLC explores every order of calls of the design), emission wrapper specs/ArchiveLifeMC.tla,
trace validation specs/ArchiveLifeTrace.tla, driver harness/drive_archivelife.py."""
import collections
import concurrent.futures
import copy
import json
import os
import random
import re
import time

import lib

ACTIONS = ["New", "CreateArchiveDir", "GetFullArchivePath", "CopyFile", "CopyDir", "AddMetadata", "CreateTarFile",
           "DeleteTmpDir", "DeleteArchiveDir", "CleanupTmp", "ExitProcess", "CleanupPrevious", "StoringArchive",
           "ToolBreak", "ToolFix"]
OPS = [a if a != "ExitProcess" else "Exit" for a in ACTIONS]
INVARIANTS = ["TypeOK", "I_Structure", "I_Confined", "I_PrevOnlyOld", "I_AdirIsAdded", "I_TarIsPacked",
              "I_KeptIsPacked", "I_AfterCleanup", "I_GhostRt"]
CLAUSES = ["Confined", "Bystanders", "PreviousCleaned", "KeptFaithful", "Frame", "NewMakesTmp", "ExitRegistered",
           "NameShape", "ArchiveDirEnsured", "Added", "TarWhere", "TarReadable", "TarFaithful", "TarSucceeds",
           "TarNoLoss", "Deleted", "Cleanup", "Stored"]
COMPS = ("gz", "bz2", "xz", "none")
PREV = ("old", "recent", "other", "link", "keptold")

ALL_CONST = ['CopyArgs = {"f1", "f2", "missing", "glob"}', 'DirArgs = {"dir", "missing"}',
             'PathForms = {"plain", "slash", "dslash"}',
             'PlantSets = {{}, {"old"}, {"old", "recent", "other", "link", "keptold"}, {"recent", "link"}, '
             '{"old", "other", "keptold"}}']
# the complete design model: every order of calls (finite state graph); the alphabet of things to add is
# what bounds it
FULL_CONST = {
    "quick": ['CopyArgs = {"f1", "missing"}', 'DirArgs = {"missing"}', 'PathForms = {"plain", "slash"}',
              'PlantSets = {{}, {"old", "recent", "other", "link", "keptold"}}'],
    "thorough": ['CopyArgs = {"f1", "missing"}', 'DirArgs = {"dir", "missing"}', 'PathForms = {"plain", "slash"}',
                 'PlantSets = {{}, {"old", "recent", "other", "link", "keptold"}}'],
}
# the same machine over the smallest alphabet, run with TLC's coverage report (which slows TLC by a factor of
# five): every action must have been taken
COV_CONST = ['CopyArgs = {"f1"}', 'DirArgs = {"missing"}', 'PathForms = {"plain"}', 'PlantSets = {{"old", "link"}}']
# (name, InitSel, OpsSel, Depth, cap on replayed histories): every history of that shape is emitted by TLC
FAMILIES = {
    "quick": [("life4", "bare", "life", 4, 700), ("fill5", "keepon", "fill", 5, 650), ("prev3", "prev", "prev", 3, 300),
              ("fail5", "fail", "fail", 5, 400), ("twice4", "bare", "twice", 4, 250), ("name3", "bare", "name", 3, 32)],
    "thorough": [("life5", "bare", "life", 5, 25000), ("fill5", "keepon", "fill", 5, 10 ** 7),
                 ("fill6", "keepon", "fill", 6, 15000), ("prev4", "prev", "prev", 4, 10 ** 7),
                 ("fail6", "fail", "fail", 6, 10 ** 7), ("twice4", "fail", "twice", 4, 10 ** 7),
                 ("name3", "fail", "name", 3, 10 ** 7)],
}
# TLC -simulate over all calls, configurations and worlds: (depth, behaviours, cap on replayed histories)
SIM = {"quick": (8, 200, 300), "thorough": (12, 3000, 10000)}

ASSUMPTIONS = [
    "the class is exercised in one process per batch, one fresh sandbox directory per history; every path it uses is "
    "pointed into the sandbox: constants.insights_tmp_path -> <root>/var/tmp, the object's keep_archive_dir (and "
    "constants.cache_dir) -> <root>/var/cache/insights-client, PATH -> <root>/bin (links to the real tar, gzip, bzip2, "
    "xz), working directory -> <root>/cwd; atexit / signal / determine_hostname inside archive.py are recorders / a "
    "stub; the configuration is a real InsightsConfig(compressor, keep_archive, no_upload, obfuscate, obfuscate_hostname)",
    "an audit hook refuses and records every file-system write outside the sandbox while a method runs (observation of "
    "'nothing outside', and the safety net of the harness); writes by the child tar process are seen only through the "
    "sandbox listing after the call",
    "'the compressor programs cannot be executed' (gzip, bzip2, xz removed from PATH) stands for every way tar can "
    "fail; other failures (disk full, unreadable members, a vanished file) are not produced",
    "stale = not modified for 25 h .. 40 days; recent = modified within the last 20 h; the clock is not manipulated and "
    "the 24 h boundary itself is not probed",
    "members are small regular files (one with a blank in its directory name in 30 % of the histories); symlinks, "
    "devices, very large or sparse files, non-UTF-8 names and metadata that is not ASCII are not explored; host names "
    "are well-formed (letters, digits, '-', '.')",
    "model level: every order of calls of the design is explored for the small alphabet of the full model (finite "
    "state graph); replay: every history of the listed families (a VERIF_SEED sample in the quick tier) plus TLC "
    "-simulate histories over all calls; one object per world (a second constructor call is not explored)",
]


_COV = re.compile(r"^<(\w+) line \d+, col \d+ to line \d+, col \d+ of module ArchiveLife(?: \([\d ]+\))?>: (\d+):(\d+)")


def action_coverage(res):
    """per-action counts of TLC's coverage report: name -> states generated by that action
    (lib's pattern does not match the report lines of actions under a quantifier)"""
    cov = {}
    for line in res.out.splitlines():
        m = _COV.match(line)
        if m:
            cov[m.group(1)] = cov.get(m.group(1), 0) + int(m.group(3))
    return cov


def cfg_text(consts, extra, invariants=INVARIANTS, spec="Spec", emit=False):
    lines = ["SPECIFICATION " + spec, "CONSTANTS"] + ["  " + c for c in consts] + ["  " + c for c in extra]
    lines += ["INVARIANT " + i for i in invariants]
    if emit:
        lines.append("CONSTRAINT Emit")
    lines.append("CHECK_DEADLOCK FALSE")
    return "\n".join(lines) + "\n"


def mc_cfg(init, ops, depth):
    return cfg_text(ALL_CONST, ['Depth = %d' % depth, 'OpsSel = "%s"' % ops, 'InitSel = "%s"' % init],
                    invariants=[i for i in INVARIANTS], spec="MCSpec", emit=True)


def write_cfgs():
    """static copies of the quick-tier configurations next to the specs (the check generates its own)"""
    with open(os.path.join(lib.SPECS, "ArchiveLife_full.cfg"), "w") as f:
        f.write(cfg_text(FULL_CONST["quick"], []))
    for name, init, ops, depth, _ in FAMILIES["quick"]:
        with open(os.path.join(lib.SPECS, "ArchiveLifeMC_%s.cfg" % name), "w") as f:
            f.write(mc_cfg(init, ops, depth))
    with open(os.path.join(lib.SPECS, "ArchiveLifeMC_sim.cfg"), "w") as f:
        f.write(mc_cfg("all", "sim", SIM["quick"][0]))


# ---------------------------------------------------------------------------
# emission, execution
# ---------------------------------------------------------------------------
def emit_all(tier, rng):
    gen = lib.subdir("x06cfg")
    jobs = []
    for name, init, ops, depth, cap in FAMILIES[tier]:
        p = os.path.join(gen, "ArchiveLifeMC_%s.cfg" % name)
        with open(p, "w") as f:
            f.write(mc_cfg(init, ops, depth))
        jobs.append((name, p, cap, dict(workers=2)))
    depth, num, cap = SIM[tier]
    p = os.path.join(gen, "ArchiveLifeMC_sim.cfg")
    with open(p, "w") as f:
        f.write(mc_cfg("all", "sim", depth))
    jobs.append(("sim", p, cap, dict(workers=2, simulate=max(1, num // 2), depth=depth + 1, tlc_seed=lib.seed() + 606)))

    covcfg = os.path.join(gen, "ArchiveLife_cov.cfg")
    with open(covcfg, "w") as f:
        f.write(cfg_text(COV_CONST, []))
    if tier != "quick":
        jobs.append(("coverage", covcfg, 0, dict(workers=2, coverage=True)))

    def one(job):
        name, cfgp, cap, kw = job
        if name == "coverage":
            r = lib.run_tlc("ArchiveLife", cfgp, tag="x06-cov", timeout=1800, **kw)
            return name, cap, lib.require_ok(r, "ArchiveLife coverage run")
        r = lib.run_tlc("ArchiveLifeMC", cfgp, tag="x06-" + name, timeout=1800, raw_cases=True, **kw)
        return name, cap, lib.require_ok(r, "ArchiveLifeMC " + name)

    models, cases, emitted, taken = [], [], {}, {}
    with concurrent.futures.ThreadPoolExecutor(max_workers=3) as ex:     # + the design model = 4 JVMs
        for name, cap, r in ex.map(one, jobs):
            if name == "coverage":
                r.coverage = action_coverage(r)
                missing = [a for a in ACTIONS if not r.coverage.get(a)]
                if missing:
                    raise lib.MachineryError("vacuity: actions never taken in the model: %s" % missing)
                models.append(r)
                continue
            lines = sorted(set(r.cases))
            r.cases = []
            emitted[name] = len(lines)
            for line in lines:              # which actions TLC took while building the histories (vacuity)
                for op in OPS:
                    n = line.count('\\"op\\":\\"%s\\"' % op)
                    if n:
                        taken[op] = taken.get(op, 0) + n
            if len(lines) > cap:
                lines = rng.sample(lines, cap)
            for i, line in enumerate(lines):
                c = lib.parse_case(line)
                c["id"] = "%s#%d" % (name, i)
                cases.append(c)
            models.append(r)
    print("timing: emission " + ", ".join("%s %.1fs" % (j[0], m.wall) for j, m in zip(jobs, models)))
    missing = [o for o in OPS if not taken.get(o)]
    if missing:
        raise lib.MachineryError("vacuity: actions never taken by TLC in the emitted histories: %s" % missing)
    return models, cases, emitted, taken


def execute(cases, jobs=4):
    payloads = [dict(cases=ch, seed=lib.seed()) for ch in lib.chunks(cases, jobs * 2)]
    outs = lib.run_driver_parallel("drive_archivelife.py", payloads, timeout=3000, jobs=jobs)
    traces, stats = [], {}
    for o in outs:
        traces.extend(o["traces"])
        for k, v in o["stats"].items():
            stats[k] = stats.get(k, 0) + v
    return traces, stats


# ---------------------------------------------------------------------------
# vacuity accounting, self-test
# ---------------------------------------------------------------------------
def steps_with_pre(t):
    pre, rt = t["init"], False
    for i, e in enumerate(t["events"]):
        yield i, pre, rt, e
        rt = rt or (e["op"] == "CreateTarFile" and e["ret"]["k"] == "path")
        pre = e["post"]


def antecedents(trace, counts):
    """Which clause antecedents a recorded history exercises (vacuity accounting only)."""
    comp, keep = trace["cfg"]["comp"], trace["cfg"]["keep"]
    hit = False
    for i, pre, rt, e in steps_with_pre(trace):
        op = e["op"]
        counts["op:" + op] += 1
        if op == "New":
            counts["new:" + e["x"]] += 1
            for k in PREV:
                if pre["prev"][k]:
                    counts["new-with-leftover:" + k] += 1
                    hit = True
        elif op == "CreateTarFile":
            if e["ret"]["k"] == "path" and pre["adir"]["ex"]:
                counts["tar-made:" + comp] += 1
                hit = True
                if len(pre["adir"]["mem"]) >= 2:
                    counts["tar-made:several-members"] += 1
            if not pre["tool"]:
                counts["tar-asked:tools-missing:" + comp] += 1
                hit = True
            if not pre["adir"]["ex"]:
                counts["tar-asked:no-collection-directory"] += 1
            if not pre["tmp"]:
                counts["tar-asked:no-temporary-directory"] += 1
            if pre["tar"]["ex"]:
                counts["tar-asked:again"] += 1
        elif op in ("CleanupTmp", "Exit"):
            hit = True
            wanted = keep and rt and pre["tar"]["ex"]
            if op == "Exit":
                counts["exit:" + e["x"]] += 1
            if wanted:
                counts["cleanup:keeping:keepdir-" + pre["keepdir"]] += 1
                if pre["prev"]["keptold"]:
                    counts["cleanup:keeping:beside-an-older-archive"] += 1
            elif not keep or not rt:
                counts["cleanup:nothing-to-keep:" + ("keep-on" if keep else "keep-off")] += 1
                if pre["tmp"] and (pre["adir"]["ex"] or pre["tar"]["ex"]):
                    counts["cleanup:nothing-to-keep:something-to-delete"] += 1
            if not pre["tmp"]:
                counts["cleanup:again-or-after-delete"] += 1
        elif op == "CleanupPrevious":
            if pre["tmp"] and (pre["adir"]["ex"] or pre["tar"]["ex"]):
                counts["cleanup-previous:current-run-has-files"] += 1
                hit = True
            if pre["prev"]["recent"] or pre["prev"]["other"] or pre["prev"]["link"]:
                counts["cleanup-previous:bystanders-present"] += 1
        elif op == "StoringArchive":
            if rt and pre["tar"]["ex"]:
                counts["storing:tar-present:keepdir-" + pre["keepdir"]] += 1
                hit = True
            else:
                counts["storing:nothing-to-store"] += 1
        elif op in ("CreateArchiveDir", "GetFullArchivePath"):
            if pre["adir"]["ex"] and pre["adir"]["mem"]:
                counts["ensure:existing-with-content"] += 1
                hit = True
            if not pre["tmp"]:
                counts["ensure:after-tmp-deleted"] += 1
        elif op in ("CopyFile", "CopyDir", "AddMetadata"):
            counts["add:%s:%s" % (op, e["x"])] += 1
            hit = True
            if op == "AddMetadata" and any(m.startswith("m=") and m != "m=" + e["y"] for m in pre["adir"]["mem"]):
                counts["add:metadata-replaced"] += 1
        elif op == "DeleteArchiveDir":
            counts["delete-archive-dir:" + ("present" if pre["adir"]["ex"] else "absent")] += 1
        elif op == "DeleteTmpDir":
            counts["delete-tmp-dir:" + ("present" if pre["tmp"] else "absent")] += 1
    return hit


REQUIRED = (["op:" + o for o in OPS] + ["new:plain", "new:obf"] + ["new-with-leftover:" + k for k in PREV]
            + ["tar-made:" + c for c in COMPS] + ["tar-made:several-members"]
            + ["tar-asked:tools-missing:" + c for c in COMPS]
            + ["tar-asked:no-collection-directory", "tar-asked:no-temporary-directory", "tar-asked:again",
               "exit:normal", "exit:sigterm", "cleanup:keeping:keepdir-absent", "cleanup:keeping:keepdir-present",
               "cleanup:keeping:keepdir-blocked", "cleanup:keeping:beside-an-older-archive",
               "cleanup:nothing-to-keep:keep-on", "cleanup:nothing-to-keep:keep-off",
               "cleanup:nothing-to-keep:something-to-delete", "cleanup:again-or-after-delete",
               "cleanup-previous:current-run-has-files", "cleanup-previous:bystanders-present",
               "storing:tar-present:keepdir-absent", "storing:nothing-to-store", "ensure:existing-with-content",
               "ensure:after-tmp-deleted", "add:CopyFile:f1", "add:CopyFile:f2", "add:CopyFile:missing",
               "add:CopyFile:glob", "add:CopyDir:dir", "add:CopyDir:missing", "add:AddMetadata:plain",
               "add:AddMetadata:slash", "add:metadata-replaced", "delete-archive-dir:present",
               "delete-archive-dir:absent", "delete-tmp-dir:present", "delete-tmp-dir:absent"])

NSELF = 16


def selftests(traces):
    """Binding self-test (R5): copies of recorded histories with ONE observation corrupted; the trace
    specification must reject each at that step with the named clause, else the machinery is vacuous."""
    want = {}
    out = []

    def add(tag, t, i, clause, mutate):
        if "selftest/" + tag in want:
            return
        c = copy.deepcopy(t)
        c["id"] = "selftest/" + tag
        mutate(c["events"][i])
        want[c["id"]] = (i + 1, clause, t["id"])
        out.append(c)

    absent = {"ex": False, "fmt": "-", "mem": [], "top": True}
    for t in traces:
        comp, keep = t["cfg"]["comp"], t["cfg"]["keep"]
        for i, pre, rt, e in steps_with_pre(t):
            op, post = e["op"], e["post"]
            if op == "New" and e["ret"]["k"] == "ok":
                add("no-atexit", t, i, "ExitRegistered", lambda ev: ev["nw"].update(atexit=False))
                add("two-dirs", t, i, "NewMakesTmp", lambda ev: ev["nw"].update(dirs=2))
                if e["x"] == "obf":
                    add("host-in-name", t, i, "NameShape", lambda ev: ev["nw"].update(hashost=True))
                if pre["prev"]["old"]:
                    add("old-left", t, i, "PreviousCleaned", lambda ev: ev["post"]["prev"].update(old=True))
                if pre["prev"]["recent"]:
                    add("recent-removed", t, i, "Bystanders", lambda ev: ev["post"]["prev"].update(recent=False))
            if op == "CopyFile" and e["x"] == "f1" and "f1" in post["adir"]["mem"]:
                add("stray", t, i, "Confined", lambda ev: ev["post"].update(stray=["working-directory"]))
                add("not-added", t, i, "Added", lambda ev: ev["post"]["adir"]["mem"].remove("f1"))
            if op == "CreateArchiveDir" and pre["adir"]["ex"] and pre["adir"]["mem"] and post["adir"]["mem"]:
                add("content-lost", t, i, "ArchiveDirEnsured", lambda ev: ev["post"]["adir"].update(mem=[]))
            if op == "CreateTarFile" and e["ret"]["k"] == "path" and post["tar"]["fmt"] == comp:
                add("tar-elsewhere", t, i, "TarWhere", lambda ev: ev["ret"].update(loc="tmp-other"))
                add("tar-other-format", t, i, "TarReadable",
                    lambda ev: ev["post"]["tar"].update(fmt="gz" if comp != "gz" else "none"))
                if pre["adir"]["ex"] and post["tar"]["mem"]:
                    add("tar-member-missing", t, i, "TarFaithful", lambda ev: ev["post"]["tar"]["mem"].pop())
            if op == "DeleteArchiveDir" and pre["adir"]["ex"] and not post["adir"]["ex"]:
                add("adir-remains", t, i, "Deleted", lambda ev, p=pre: ev["post"].update(adir=copy.deepcopy(p["adir"])))
            if op in ("CleanupTmp", "Exit") and not post["tmp"] and pre["tmp"]:
                if not keep:
                    add("tmp-remains", t, i, "Cleanup", lambda ev: ev["post"].update(tmp=True))
                    if pre["tar"]["ex"] and pre["keepdir"] == "absent" and not pre["kept"]["ex"]:
                        add("kept-although-off", t, i, "KeptFaithful",
                            lambda ev, p=pre: ev["post"].update(kept=copy.deepcopy(p["tar"]), keepdir="present"))
                elif rt and pre["tar"]["ex"] and post["kept"]["ex"] and not pre["kept"]["ex"]:
                    add("not-kept", t, i, "Cleanup", lambda ev: ev["post"].update(kept=dict(absent)))
            if op == "CleanupPrevious" and pre["tmp"] and post["tmp"] and pre["adir"]["ex"]:
                add("current-run-removed", t, i, "Frame",
                    lambda ev: ev["post"].update(tmp=False, adir={"ex": False, "mem": []}, tar=dict(absent)))
        if len(want) == NSELF:
            break
    return out, want, NSELF - len(want)


def check_selftests(val, want):
    """Remove the self-test rejections from the validation result; fail if a corruption went unnoticed."""
    mine = [r for r in val["rejected"] if r["id"].startswith("selftest/")]
    val["rejected"] = [r for r in val["rejected"] if not r["id"].startswith("selftest/")]
    real_bad = set(r["id"] for r in val["rejected"] if not r["clause"].startswith("NOTE:"))
    done = 0
    for tid, (line, clause, base) in sorted(want.items()):
        if base in real_bad:
            continue        # the recorded history itself is rejected (code under test broken): not a usable base
        if not any(r["id"] == tid and r["line"] == line and r["clause"].startswith(clause + ":") for r in mine):
            raise lib.MachineryError("self-test: corrupted history %s was not rejected at step %d by %s (got %s)"
                                     % (tid, line, clause, [r for r in mine if r["id"] == tid]))
        done += 1
    return done


def show(e):
    return e["op"] + ("" if e["x"] == "-" else "(%s)" % (e["x"] if e["y"] == "-" else e["x"] + "," + e["y"]))


def judge(prop, verdict, val, traces, cases):
    bytrace = dict((t["id"], t) for t in traces)
    bycase = dict((c["id"], c) for c in cases)
    notes = {}
    first_bad = {}
    for rj in val["rejected"]:
        if not rj["clause"].startswith(("NOTE:", "ENV:")):
            first_bad[rj["id"]] = min(rj["line"], first_bad.get(rj["id"], rj["line"]))
    for rj in sorted(val["rejected"], key=lambda r: (r["id"], r["line"])):
        clause = rj["clause"]
        if clause.startswith("ENV:"):
            if first_bad.get(rj["id"], rj["line"]) < rj["line"]:
                notes["ENV-after-violation"] = notes.get("ENV-after-violation", 0) + 1
                continue
            raise lib.MachineryError("environment step not reproduced by the harness (%s) in %s line %d"
                                     % (clause, rj["id"], rj["line"]))
        if clause.startswith("NOTE:"):
            notes[clause] = notes.get(clause, 0) + 1
            continue
        t = bytrace[rj["id"]]
        ev = t["events"][rj["line"] - 1]
        what = ("history %s (compressor %s, keep_archive %s, world %s): call %d %s violates %s%s%s; calls so far: %s"
                % (rj["id"], t["cfg"]["comp"], t["cfg"]["keep"], json.dumps(bycase.get(rj["id"], {}).get("init")),
                   rj["line"], show(ev), clause,
                   "; it raised " + ev["exc"] if ev.get("exc") else "",
                   "; refused reads: %s" % ev["reads"] if ev.get("reads") else "",
                   " ".join(show(e) for e in t["events"][:rj["line"]])))
        verdict.reject(lib.sig(prop, clause), what, dict(case=bycase.get(rj["id"]), trace=t, rejected=rj))
    for cl, n in sorted(notes.items()):
        if cl.startswith("NOTE:"):
            print("note: %d accepted step(s) differ from the design function of ArchiveLife.tla (%s)" % (n, cl))
        else:
            print("note: %d environment step(s) not reproduced after an earlier violation damaged the world" % n)
    return notes


def run(prop, tier):
    verdict = lib.Verdict(prop, tier)       # starts the wall clock of the evidence record
    rng = random.Random(lib.seed())
    t0 = time.time()
    gen = lib.subdir("x06cfg")
    fullcfg = os.path.join(gen, "ArchiveLife_full.cfg")
    with open(fullcfg, "w") as f:
        f.write(cfg_text(FULL_CONST[tier], []))
    with concurrent.futures.ThreadPoolExecutor(max_workers=1) as ex:     # the complete design model runs beside the emission
        fut = ex.submit(lib.run_tlc, "ArchiveLife", fullcfg, workers=3, tag="x06-full", timeout=3000)
        models, cases, emitted, taken = emit_all(tier, rng)
        full = lib.require_ok(fut.result(), "ArchiveLife design model")
    cov = ([m for m in models if m.coverage] or [None])[0]
    print("timing: models %.1fs (design: %d distinct states, every order of calls), %d histories to replay %s"
          % (time.time() - t0, full.distinct, len(cases), emitted))
    t1 = time.time()
    traces, stats = execute(cases)
    print("timing: driver %.1fs, %d traces, calls %s" % (time.time() - t1, len(traces), stats))
    if len(traces) != len(cases):
        raise lib.MachineryError("driver returned %d traces for %d cases" % (len(traces), len(cases)))
    if not stats.get("tar_runs") or not stats.get("r4_tar_reader"):
        raise lib.MachineryError("vacuity: the real tar never ran under the driver (%s)" % stats)
    t1 = time.time()
    corrupted, want, lacking_self = selftests(traces)
    val = lib.validate_traces("ArchiveLifeTrace", "ArchiveLifeTrace.cfg", traces + corrupted, jobs=4)
    print("timing: validation %.1fs (%d events, %d JVMs)" % (time.time() - t1, val["events"], val["jvms"]))
    nev = sum(len(t["events"]) for t in traces + corrupted)
    if val["events"] != nev:
        raise lib.MachineryError("trace validation judged %d of %d events" % (val["events"], nev))
    nself = check_selftests(val, want)
    val["traces"] -= len(corrupted)
    val["events"] -= sum(len(t["events"]) for t in corrupted)

    notes = judge(prop, verdict, val, traces, cases)
    if lacking_self and not verdict.violations:
        raise lib.MachineryError("self-test: no recorded history to corrupt for %d of %d mutations (have %s)"
                                 % (lacking_self, NSELF, sorted(want)))

    counts = collections.defaultdict(int)
    nontrivial = set()
    for t, c in zip(traces, cases):
        try:
            hit = antecedents(t, counts)
        except KeyError as ex:
            raise lib.MachineryError("trace %s has an unexpected shape: %s" % (t["id"], ex))
        if hit:
            nontrivial.add(json.dumps([c["cfg"], c["init"], c["steps"]], sort_keys=True))
    counts = dict(counts)
    lacking = [k for k in REQUIRED if not counts.get(k)]
    if lacking and not verdict.violations:
        raise lib.MachineryError("vacuity: clause antecedents never exercised by a replayed history: %s" % lacking)

    samples = [dict(cfg=c["cfg"], init=c["init"], steps=[show(s) for s in c["steps"]]) for c in cases[:2]]
    if traces:
        samples.append(dict(trace_id=traces[-1]["id"], cfg=traces[-1]["cfg"], events=traces[-1]["events"][:2]))
    ev = lib.evidence(
        prop, tier, [full] + models, val, evaluations=len(traces), distinct_nontrivial=len(nontrivial),
        rule="model: every order of calls of the design over the alphabet %s from every configuration (4 compressors "
             "x keep_archive) and initial world (complete state graph), StepOK asserted on every step, the end-to-end "
             "statements as invariants; replay: histories of the families %s (configuration/world family x calls per "
             "position x depth, enumerated exhaustively by TLC%s) plus TLC -simulate histories of depth %d over all "
             "calls incl. the environment's ToolBreak/ToolFix; each history runs against the real InsightsArchive in "
             "a fresh sandbox (real tar) and every step is judged by TLC (ArchiveLifeTrace); distinct_nontrivial = "
             "distinct (configuration, world, call sequence) in which a clause antecedent beyond the frame is active"
             % (FULL_CONST[tier][:2], [f[0] for f in FAMILIES[tier]],
                ", a VERIF_SEED sample of the larger ones replayed", SIM[tier][0]),
        samples=samples, assumptions=ASSUMPTIONS,
        extra=dict(histories_emitted=emitted, calls_replayed=stats, antecedents_exercised=counts,
                   design_divergence_notes=notes, model_actions_in_emitted_histories=taken,
                   model_action_coverage=cov.coverage if cov else {},
                   selftest_corrupted_traces_rejected=nself, clauses=CLAUSES, invariants=INVARIANTS,
                   exhaustive=False))
    return verdict.finish(ev)


def replay(prop, path):
    """Re-run the recorded history against the current tree and re-validate it."""
    with open(path) as f:
        rec = json.load(f)
    case = (rec.get("replay") or {}).get("case")
    if not case:
        print(json.dumps(rec, indent=1)[:20000])
        return 0
    traces, _ = execute([case], jobs=1)
    val = lib.validate_traces("ArchiveLifeTrace", "ArchiveLifeTrace.cfg", traces, jobs=1)
    print(json.dumps(dict(case=case, trace=traces[0], rejected=val["rejected"]), indent=1))
    bad = [r for r in val["rejected"] if not r["clause"].startswith("NOTE:")]
    known = set(k["signature"] for k in lib.load_known() if k.get("property") == prop and k.get("status") == "open")
    for r in bad:
        tag = "KNOWN-FINDING" if lib.sig(prop, r["clause"]) in known else "VIOLATION"
        print("%s property=%s step %d clause %s" % (tag, prop, r["line"], r["clause"]))
    return 1 if any(lib.sig(prop, r["clause"]) not in known for r in bad) else 0
