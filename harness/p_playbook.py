"""C18: playbook verifier digest.  Model: specs/Playbook.tla (+ PlaybookMC bounded
play sets and laws), trace validation: specs/PlaybookTrace.tla, driver:
harness/drive_playbook.py."""
import concurrent.futures
import json
import os
import time
import zlib

import lib

# part -> invariants checked on every play of the part (the set-level law Injective is an ASSUME of PlaybookMC)
PARTS = {
    "free": ["InvWellFormed", "InvOutcomeTotal"],
    "craft": ["InvWellFormed", "InvOutcomeTotal"],
    "table": ["InvWellFormed", "InvOutcomeTotal", "InvOnlyHostsVars", "InvEditVisible"],
    "touch": ["InvWellFormed", "InvOutcomeTotal"],
}

TIERS = {
    "quick": dict(strlen=2, rich="FALSE", random_jobs=4, bases=60, edits=12, verify_every=8),
    "thorough": dict(strlen=3, rich="TRUE", random_jobs=8, bases=300, edits=16, verify_every=5),
}

ASSUMPTIONS = [
    "SHA-256 is treated as injective on the explored texts (a digest collision would be reported as a violation)",
    "GPG is not modelled: gnupg.GPG is replaced by a stub that answers 'valid' and records the digest it is asked "
    "to check; signature decoding (base64) is made total; the revocation list comes from a stubbed pkgutil.get_data",
    "exhaustive only inside the bounded play sets of PlaybookMC (value trees of <= 3 nodes over a delimiter-rich "
    "scalar/key set, strings up to StrLen over a 9-symbol alphabet in one position, the outcome table); beyond "
    "them seeded random plays with single edits",
    "plays whose exclusion list is present but not a string, and direct calls of exclude_dynamic_elements on a play "
    "whose 'vars' is not a mapping, are unconstrained (the property is silent)",
    "mapping keys are strings or integers; floats, bytes and boolean / null keys are not generated",
]


def cfg_text(part, strlen, rich):
    lines = ["SPECIFICATION Spec", "CONSTANTS", "  StrLen = %d" % strlen, '  Part = "%s"' % part,
             "  Rich = %s" % rich]
    lines += ["INVARIANT %s" % i for i in PARTS[part]]
    lines += ["CONSTRAINT Emit", "CHECK_DEADLOCK FALSE"]
    return "\n".join(lines) + "\n"


def render(fl):
    """Human-readable rendering of a flat play for messages (not used for any decision)."""
    def key(nd):
        return repr("".join(chr(c) for c in nd["k"])) if nd["kt"] == "str" else str(nd["kn"])

    def rec(i):
        nd = fl[i]
        t = nd["t"]
        if t == "str":
            return repr("".join(chr(c) for c in nd["v"])), i + 1
        if t == "int":
            return str(nd["n"]), i + 1
        if t == "bool":
            return str(bool(nd["n"])), i + 1
        if t == "null":
            return "None", i + 1
        parts, j = [], i + 1
        while j < len(fl) and fl[j]["d"] > nd["d"]:
            s, nj = rec(j)
            parts.append((key(fl[j]) + ": " + s) if t == "map" else s)
            j = nj
        return ("{%s}" if t == "map" else "[%s]") % ", ".join(parts), j
    return rec(0)[0]


def outside(fl):
    """The nodes of a flat play that are not inside its top-level 'hosts' / 'vars' entries (bookkeeping for
    partitioning, no decision depends on it)."""
    out, skip = [], False
    for nd in fl[1:]:
        if nd["d"] == 1:
            skip = nd["kt"] == "str" and "".join(chr(c) for c in nd["k"]) in ("hosts", "vars")
        if not skip:
            out.append(nd)
    return json.dumps(out, sort_keys=True, separators=(",", ":"))


def differing(texts):
    """Cut the common prefix / suffix of the renderings (message only)."""
    if len(texts) < 2:
        return texts
    a = os.path.commonprefix(texts)
    b = os.path.commonprefix([t[::-1] for t in texts])[::-1]
    a = a[:max(0, a.rfind(", ") + 2)]
    b = b[b.find(", "):] if ", " in b else ""
    return ["..." + t[len(a):len(t) - len(b)] + "..." for t in texts]


def binding_selftest(classes, plays, mk):
    """R5: corrupted copies of recorded traces must be rejected, with the right clause."""
    ds = [d for d in sorted(classes) if all(e["out"] == "ok" for e in classes[d])
          and len(set(e["p"] for e in classes[d])) == 1]
    if len(ds) < 3:
        raise lib.MachineryError("self-test: not enough digest classes")
    a, b, c = ds[0], ds[1], ds[2]
    moved = [dict(e, digest=a) for e in classes[b]]                      # a foreign play claims digest a
    flipped = [dict(classes[c][0], out="err")] + classes[c][1:]           # an accepted play reported as refused
    nodig = [dict(classes[c][0], digest="")]                              # accepted without a digest
    split = [classes[a][0], dict(classes[a][0], digest="f" * 64)]         # one play, two digests
    tests = [(mk("selftest/collision", "class", classes[a] + moved), "Injective.collision"),
             (mk("selftest/flipped", "class", flipped), "Table:"),
             (mk("selftest/nodigest", "class", nodig), "Table:"),
             (mk("selftest/split", "reps", split, end=True), "Function.split"),
             (mk("selftest/clean", "class", classes[a]), None)]
    val = lib.validate_traces("PlaybookTrace", "PlaybookTrace.cfg", [t for t, _ in tests], jobs=1)
    got = dict((r["id"], r["clause"]) for r in val["rejected"])
    for t, want in tests:
        g = got.get(t["id"])
        if (want is None and g is not None) or (want is not None and not (g or "").startswith(want)):
            raise lib.MachineryError("self-test: corrupted trace %s gave %r, expected %r" % (t["id"], g, want))
    return "%d corrupted traces rejected, clean copy accepted" % (len(tests) - 1)


def run(prop, tier):
    T = TIERS[tier]
    t0 = time.time()
    gen = lib.subdir("gencfg")
    jobs = min(8, max(4, lib.NCPU // 2))

    # ---- (1) model: bounded play sets, laws, emission -------------------
    def model(part):
        cfgp = os.path.join(gen, "PlaybookMC_%s.cfg" % part)
        with open(cfgp, "w") as f:
            f.write(cfg_text(part, T["strlen"], T["rich"]))
        r = lib.run_tlc("PlaybookMC", cfgp, workers=1, tag="pb-" + part, timeout=1500, raw_cases=True, light=True)
        return part, lib.require_ok(r, "PlaybookMC part " + part)

    models, flats, seen = [], [], set()
    emitted = 0
    with concurrent.futures.ThreadPoolExecutor(max_workers=4) as ex:
        for part, r in ex.map(model, sorted(PARTS)):
            for line in r.cases:
                c = lib.parse_case(line)
                emitted += 1
                k = json.dumps(c["play"], sort_keys=True, separators=(",", ":"))
                if k not in seen:
                    seen.add(k)
                    flats.append(c["play"])
            if not r.cases:
                raise lib.MachineryError("PlaybookMC part %s emitted no play" % part)
            r.cases = []
            models.append(r)
    print("timing: models %.1fs, %d plays emitted (%d distinct)" % (time.time() - t0, emitted, len(flats)))

    # ---- (2) driver: the real verifier on every play ---------------------
    t1 = time.time()
    payloads = [dict(plays=ch, verify_every=T["verify_every"], seed=lib.seed() * 1000 + 500 + k)
                for k, ch in enumerate(lib.chunks(flats, jobs)) if ch]
    for j in range(T["random_jobs"]):
        payloads.append(dict(random=dict(seed=lib.seed() * 1000 + j, bases=T["bases"], edits=T["edits"]),
                             verify_every=T["verify_every"], seed=lib.seed() * 1000 + j))
    outs = lib.run_driver_parallel("drive_playbook.py", payloads, hashseeds=list(range(1, 33)), timeout=1500, jobs=jobs)
    plays, origin, events = [], [], []
    index = {}
    for o in outs:
        local = {}
        for i, fl in enumerate(o["plays"]):
            k = json.dumps(fl, sort_keys=True, separators=(",", ":"))
            if k not in index:
                index[k] = len(plays)
                plays.append(fl)
                origin.append(o["origin"][i])
            local[i + 1] = index[k]
        for e in o["events"]:
            e = dict(e)
            e["p"] = local[e["p"]]
            e["ldoc"] = local[e["ldoc"]]
            events.append(e)
    print("timing: driver %.1fs, %d plays, %d observations" % (time.time() - t1, len(plays), len(events)))
    # vacuity: every route / build / outcome the check relies on was really exercised
    reach = dict(
        yaml=sum(1 for e in events if e["build"] == "yaml" and e["digest"]),
        commented=sum(1 for e in events if e["build"] == "commented" and e["digest"]),
        direct=sum(1 for e in events if e["via"] == "exclude" and e["digest"]),
        refused=sum(1 for e in events if e["out"] == "err" and not e["digest"]),
        revoked=sum(1 for e in events if e["via"] == "verify" and e["out"] == "err" and e["digest"] in e["revoked"]),
        not_revoked=sum(1 for e in events if e["via"] == "verify" and e["out"] == "ok"),
        list_unparsable=sum(1 for e in events if e["via"] == "verify" and not e["lparse"]),
        list_bad_signature=sum(1 for e in events if e["via"] == "verify" and not e["lvalid"]),
        list_with_own_digest_refused_before_play=sum(1 for e in events if e["via"] == "verify" and e["lparse"]
                                                     and e["lvalid"] and e["out"] == "err" and not e["digest"]),
    )
    unreached = sorted(k for k, n in reach.items() if n == 0)

    # ---- (3) traces: one per digest class, one per non-accepted play, one of class representatives
    t1 = time.time()
    classes, noacc = {}, {}
    for e in events:
        if e["digest"]:
            classes.setdefault(e["digest"], []).append(e)
        else:
            noacc.setdefault(e["p"], []).append(e)

    def mk(tid, kind, evs, end=False):
        loc, pl, out = {}, [], []

        def at(g):
            if g not in loc:
                pl.append(plays[g])
                loc[g] = len(pl)
            return loc[g]
        for e in evs:
            x = dict(e)
            x["p"] = at(e["p"])
            x["ldoc"] = at(e["ldoc"])
            out.append(x)
        if end:
            out.append(dict(ev="end", p=1, via="", build="", out="", digest="", revoked=[], ldoc=1, lparse=True, lvalid=True))
        return dict(id=tid, kind=kind, plays=pl, events=out)

    traces = []
    for d in sorted(classes):
        traces.append(mk("class/" + d[:16], "class", classes[d]))
    for p in sorted(noacc):
        traces.append(mk("noacc/%d" % p, "class", noacc[p]))
    # class representatives: equal Excl implies equal content outside the top-level hosts / vars entries (law
    # OnlyHostsVars), so the representatives can be partitioned by that content without separating any pair
    # that could have the same Excl; each partition is one "reps" trace
    nparts = max(1, (len(classes) + 2999) // 3000)
    buckets = {}
    for d in sorted(classes):
        e = classes[d][0]
        buckets.setdefault(zlib.crc32(outside(plays[e["p"]]).encode()) % nparts, []).append(e)
    reps = [mk("reps/%d" % k, "reps", buckets[k], end=True) for k in sorted(buckets)]
    byid = dict((t["id"], t) for t in traces)
    byid.update((t["id"], t) for t in reps)
    if len(reps) <= 2:
        # the representatives traces are the long ones: they go first, the class traces fill the other JVMs
        val = lib.validate_traces("PlaybookTrace", "PlaybookTrace.cfg", reps + traces, jobs=jobs)
    else:
        val = lib.merge_val(
            lib.validate_traces("PlaybookTrace", "PlaybookTrace.cfg", traces, jobs=jobs,
                                chunk=max(1, min(1500, (len(traces) + jobs - 1) // jobs))),
            lib.validate_traces("PlaybookTrace", "PlaybookTrace.cfg", reps, jobs=jobs, chunk=1))
    print("timing: validation %.1fs (%d traces, %d events, %d JVMs)"
          % (time.time() - t1, val["traces"], val["events"], val["jvms"]))

    selftest = None
    if tier == "thorough":
        selftest = binding_selftest(classes, plays, mk)

    # a kind of observation that never occurred is a vacuity failure of the machinery only when the
    # specification accepted everything (a rejected behaviour of the code may well be the reason)
    if unreached and not val["rejected"]:
        raise lib.MachineryError("vacuity: no observation of kind(s) %s was recorded" % ", ".join(unreached))

    # ---- (4) verdict ------------------------------------------------------
    verdict = lib.Verdict(prop, tier)
    for rj in val["rejected"]:
        clause = rj["clause"]
        if clause.startswith("machinery:"):
            raise lib.MachineryError("PlaybookTrace: %s in trace %s event %s" % (clause, rj["id"], rj["line"]))
        tr = byid[rj["id"]]
        head, _, kinds = clause.partition(":")
        shown = differing([render(p) for p in tr["plays"][:4]])
        if head in ("Injective.collision", "Function.split"):
            for kind in kinds.split("+"):
                what = ("%s (%s): trace %s, e.g. plays %s" % (head, kind, rj["id"], " | ".join(shown)))
                verdict.reject(lib.sig(prop, head, kind), what,
                               dict(trace=tr if len(tr["events"]) < 40 else dict(id=tr["id"], plays=tr["plays"][:6]),
                                    rejected=rj))
        else:
            e = tr["events"][rj["line"] - 1]
            what = "%s: play %s observed out=%s digest=%s" % (clause, render(tr["plays"][e["p"] - 1]), e["out"],
                                                               e["digest"][:16])
            verdict.reject(lib.sig(prop, clause), what, dict(trace=tr, rejected=rj))

    with_digest = set(e["p"] for e in events if e["digest"])
    samples = []
    for d in sorted(classes)[:2]:
        e = classes[d][0]
        samples.append(dict(play=render(plays[e["p"]]), via=e["via"], build=e["build"], digest=d, out=e["out"]))
    for p in sorted(noacc)[:2]:
        e = noacc[p][0]
        samples.append(dict(play=render(plays[p]), via=e["via"], build=e["build"], out=e["out"]))
    big = [d for d in classes if len(set(e["p"] for e in classes[d])) > 1][:2]
    for d in big:
        samples.append(dict(digest_class=d, plays=[render(plays[p]) for p in sorted(set(e["p"] for e in classes[d]))[:3]]))
    ev = lib.evidence(
        prop, tier, models, val, evaluations=len(events), distinct_nontrivial=len(with_digest),
        rule="plays = every play of the bounded sets of PlaybookMC (parts free, craft, table, touch; each play is "
             "one TLC state) plus seeded random plays with single edits; every play is built as dict/list, as "
             "CommentedMap/CommentedSeq and through load_playbook_yaml and run through exclude_dynamic_elements + "
             "serialize_play + hash_play, verify_play and (sampled) verify with a synthetic revocation list; "
             "evaluations = observations (play x build x route); distinct_nontrivial = distinct plays for which a "
             "digest was produced; all observations are grouped by digest and validated by TLC "
             "(equal digest <=> equal Excl over all pairs of the batch, outcome table per observation)",
        samples=samples, assumptions=ASSUMPTIONS,
        extra=dict(plays_emitted_by_tlc=len(flats), plays_total=len(set(e["p"] for e in events)), revocation_list_documents=len([o for o in origin if o == "listdoc"]), digest_classes=len(classes),
                   classes_with_several_plays=len([d for d in classes if len(set(e["p"] for e in classes[d])) > 1]),
                   plays_never_accepted=len(noacc), random_plays=len([o for o in origin if o.startswith("random")]),
                   reached=reach, binding_selftest=selftest,
                   laws_checked_on_model=["Injective (ASSUME)"] + sorted(set(sum(PARTS.values(), []))),
                   exhaustive=False))
    return verdict.finish(ev)
