"""X08 (extra check, not one of the listed properties): the client's run as a sequence of phases
(insights/client/phase/v1.py and what the phases call in insights/client/__init__.py, client.py,
support.py, connection.py, archive.py).
Model: specs/ClientPhases.tla (one action per decision point; Mech = "intent" is the specified behaviour,
Mech = "code" transcribes the deviations of the code and must be refuted by TLC), emission wrapper
specs/ClientPhasesMC.tla, trace validation specs/ClientPhasesTrace.tla, driver harness/drive_clientphases.py."""
import collections
import concurrent.futures
import copy
import json
import os
import random
import re
import time

import lib

ACTIONS = ["StartPhase", "PreVersion", "PreValidate", "PreEnable", "PreDisable", "PreTestConn", "PreSupport",
           "PreDiagnosis", "PreCheckin", "PreEnd", "UpdUpdate", "PostList", "PostShow", "PostCheck", "PostLegacy",
           "PostLStatus", "PostLUnreg", "PostLBypass", "PostLRegister", "PostBypass", "PostStatus", "PostUnreg",
           "PostHalt", "PostRegister", "PostEnd", "CollSource", "CollOutput", "CollUpload", "CollBranch",
           "CollRotate", "AtExit", "NextPhase"]
INVARIANTS = ["TypeOK", "I_OneExit", "I_Compose", "I_NoCrash", "I_InvalidStops", "I_TerminatingNeverCollects",
              "I_TerminatingExit", "I_OfflineSilent", "I_NoUpload", "I_UnregisteredStops", "I_UnregisteredNoCollect",
              "I_UnregisterAgreed", "I_UnregisterExit", "I_Frame", "I_ArchiveFate", "I_CollectExit", "I_UpdateExit"]
CLAUSES = ["OneExit", "Exit", "Offline", "NoUpload", "Terminating", "Steps", "Calls", "Disk"]
# the code-transcribed mechanism must violate these (one TLC run each; an invariant that could no longer fail
# would be noticed)
REFUTE = ["I_NoCrash", "I_TerminatingExit", "I_TerminatingNeverCollects", "I_UnregisterAgreed"]
# exit points of the design: every one must be reached by a replayed run
EXITS = ["start", "p_version", "p_validate", "p_enable", "p_disable", "p_testconn", "p_support", "p_diagnosis",
         "p_checkin", "p_end", "u_update", "q_list", "q_show", "q_check", "ql_status", "ql_unreg", "ql_bypass",
         "ql_register", "q_bypass", "q_status", "q_unreg", "q_halt", "q_end", "c_upload", "c_rotate"]

# (MaxOn, SrvSel) of the complete design model / of the exhaustive emission family; cap on replayed runs
FULL = {"quick": (2, "small"), "thorough": (3, "small")}
BOUNDED = {"quick": (2, "small", 2300), "thorough": (2, "all", 30000)}
RANDOM = {"quick": (1500, 600, 500), "thorough": (20000, 8000, 12000)}     # NRandom, -simulate num, cap

ASSUMPTIONS = [
    "every phase is the REAL function of insights/client/phase/v1.py run to its exit in a forked child of the driver "
    "(sys.argv = the flags, --conf a generated file with auto_config / auto_update off, retries 1, BASIC credentials, "
    "legacy_upload per case); exit handlers registered during the phase run before the child ends (archive cleanup)",
    "the phases are composed by the harness the way the RPM wrapper (insights-client, not part of /repo) composes "
    "them: the next phase starts only after exit status 0; 100 ends the run as success, 101 / 1 as failure",
    "every path of the client points into a sandbox: INSIGHTS_CONF_DIR at import time, the other constants patched "
    "(log, lib, tmp, cache, pid files, legacy conf dir), the archive's keep directory set after construction; an "
    "audit hook refuses any write outside the sandbox, any socket use and any child process but tar / gzip / file - "
    "a refusal stops the check as a machinery failure",
    "the server is a scripted fake requests session inside the real InsightsConnection (net up / down for every "
    "request; inventory knows the host or not; upload 2xx / 500; check-in 201 / 404; legacy DELETE 204 / 500); "
    "stand-ins that only record: insights.collect.collect (writes one file), the scheduler, InsightsSupport, "
    "get_advisor_report, show_results, get_canonical_facts, determine_hostname; InsightsClient.update / rotate_eggs "
    "are recorded and then run for real with auto_update off (or raise on script)",
    "not explored: --module, --display-name / --ansible-host, --to-json, --group, compliance sub-options other than "
    "--compliance, retries > 1, HTTP statuses other than those listed, a remove file that does not validate, "
    "symlinked markers (C17 covers them), concurrent runs",
]

_COV = re.compile(r"^<(\w+) line \d+, col \d+ to line \d+, col \d+ of module ClientPhases(?: \([\d ]+\))?>: (\d+):(\d+)")


def action_coverage(res):
    cov = {}
    for line in res.out.splitlines():
        m = _COV.match(line)
        if m:
            cov[m.group(1)] = cov.get(m.group(1), 0) + int(m.group(3))
    return cov


ALLFLAGS = ["version", "validate", "enable_schedule", "disable_schedule", "test_connection", "support", "diagnosis",
            "checkin", "status", "unregister", "register", "offline", "no_upload", "keep_archive", "list_specs",
            "show_results", "check_results", "force", "compliance", "legacy", "payload"]
# the flags the deviations of the code-transcribed mechanism depend on (keeps the refutation runs small)
REFUTE_FOCUS = ["version", "unregister", "legacy", "no_upload", "register", "force"]


def cfg_text(spec, mech, maxon, srvsel, invariants, extra=(), emit=False, focus=ALLFLAGS):
    lines = ["SPECIFICATION " + spec, "CONSTANTS", '  Mech = "%s"' % mech, "  MaxOn = %d" % maxon,
             '  SrvSel = "%s"' % srvsel, "  Focus = {%s}" % ", ".join('"%s"' % f for f in focus)] + ["  " + e for e in extra]
    lines += ["INVARIANT " + i for i in invariants]
    if emit:
        lines.append("CONSTRAINT Emit")
    lines.append("CHECK_DEADLOCK FALSE")
    return "\n".join(lines) + "\n"


def write_cfgs():
    """static copies of the quick-tier configurations next to the specs (the check generates its own)"""
    with open(os.path.join(lib.SPECS, "ClientPhases_full.cfg"), "w") as f:
        f.write(cfg_text("Spec", "intent", FULL["quick"][0], FULL["quick"][1], INVARIANTS))
    for inv in REFUTE:
        with open(os.path.join(lib.SPECS, "ClientPhases_refute_%s.cfg" % inv[2:]), "w") as f:
            f.write(cfg_text("Spec", "code", 2, "small", [inv], focus=REFUTE_FOCUS))
    with open(os.path.join(lib.SPECS, "ClientPhasesMC_pairs.cfg"), "w") as f:
        f.write(cfg_text("MCSpec", "intent", BOUNDED["quick"][0], BOUNDED["quick"][1], INVARIANTS,
                         ['InitSel = "bounded"', "NRandom = 1"], emit=True))
    with open(os.path.join(lib.SPECS, "ClientPhasesMC_sim.cfg"), "w") as f:
        f.write(cfg_text("MCSpec", "intent", 0, "all", INVARIANTS,
                         ['InitSel = "random"', "NRandom = %d" % RANDOM["quick"][0]], emit=True))


# ---------------------------------------------------------------------------
# models, emission
# ---------------------------------------------------------------------------
def run_models(tier, rng):
    gen = lib.subdir("x08cfg")

    def put(name, text):
        p = os.path.join(gen, name)
        with open(p, "w") as f:
            f.write(text)
        return p

    jobs = []
    if tier != "quick":      # quick: the bounded emission run below IS the complete design model (same states, same invariants)
        jobs.append(("design", "ClientPhases",
                     put("ClientPhases_full.cfg", cfg_text("Spec", "intent", FULL[tier][0], FULL[tier][1], INVARIANTS)),
                     dict(workers=3)))
        # TLC's coverage report (slows TLC several times) on the single-flag model: every action must be taken
        jobs.append(("coverage", "ClientPhases",
                     put("ClientPhases_cov.cfg", cfg_text("Spec", "intent", 1, "small", INVARIANTS)),
                     dict(workers=1, coverage=True)))
    for inv in REFUTE:
        jobs.append(("refute:" + inv, "ClientPhases", put("ClientPhases_refute_%s.cfg" % inv[2:], cfg_text("Spec", "code", 2, "small", [inv], focus=REFUTE_FOCUS)),
                     dict(workers=1)))
    mo, ss, _ = BOUNDED[tier]
    jobs.append(("bounded", "ClientPhasesMC",
                 put("ClientPhasesMC_pairs.cfg", cfg_text("MCSpec", "intent", mo, ss, INVARIANTS, ['InitSel = "bounded"', "NRandom = 1"], emit=True)),
                 dict(workers=3, raw_cases=True)))
    nr, num, _ = RANDOM[tier]
    jobs.append(("random", "ClientPhasesMC",
                 put("ClientPhasesMC_sim.cfg", cfg_text("MCSpec", "intent", 0, "all", INVARIANTS, ['InitSel = "random"', "NRandom = %d" % nr], emit=True)),
                 dict(workers=2, raw_cases=True, simulate=max(1, num // 2), depth=45, tlc_seed=lib.seed() + 808)))

    def one(job):
        name, module, cfgp, kw = job
        return name, lib.run_tlc(module, cfgp, tag="x08-" + name.replace(":", "-"), timeout=3000, **kw)

    res = {}
    with concurrent.futures.ThreadPoolExecutor(max_workers=4) as ex:
        for name, r in ex.map(one, jobs):
            res[name] = r
    for name, r in res.items():
        if name.startswith("refute:"):
            inv = name.split(":", 1)[1]
            if r.violation != inv:
                raise lib.MachineryError("the code-transcribed mechanism (Mech = \"code\") does not violate %s any more "
                                         "(violation=%s error=%s)" % (inv, r.violation, r.error))
        else:
            lib.require_ok(r, "ClientPhases " + name)
    design = res.get("design") or res["bounded"]
    if tier != "quick":
        design.coverage = action_coverage(res["coverage"])
        # TLC reports the per-point actions (PreVersion ... AtExit are all Take(point)) under the name Take; that every
        # point is really passed is checked below on the replayed runs (EXITS) - here: both action shapes were taken
        missing = [a for a in ("Take", "NextPhase") if not design.coverage.get(a)]
        if missing:
            raise lib.MachineryError("vacuity: actions never taken in the model: %s" % missing)
    cases, emitted, strata = [], {}, {}
    for fam, cap in (("bounded", BOUNDED[tier][2]), ("random", RANDOM[tier][2])):
        lines = sorted(set(res[fam].cases))
        res[fam].cases = []
        emitted[fam] = len(lines)
        parsed = [lib.parse_case(line) for line in lines]
        if len(parsed) > cap:
            # stratified VERIF_SEED sample: round-robin over the groups of runs that take the same path through the
            # design (deciding points and statuses), under the same server script and output mode
            groups = collections.defaultdict(list)
            for c in parsed:
                key = (tuple((h["at"], h["code"]) for h in c["exp"]), c["srv"]["net"], c["opt"]["output"],
                       c["opt"]["legacy"], c["opt"]["force"], c["opt"]["register"], tuple(sorted(c["disk"].items())))
                groups[key].append(c)
            order = sorted(groups)
            for k in order:
                rng.shuffle(groups[k])
            rng.shuffle(order)
            parsed = []
            while len(parsed) < cap:
                for k in order:
                    if groups[k] and len(parsed) < cap:
                        parsed.append(groups[k].pop())
            strata[fam] = len(order)
        for i, c in enumerate(parsed):
            c["id"] = "%s#%d" % (fam, i)
            cases.append(c)
    print("timing: models " + ", ".join("%s %.1fs" % (n, r.wall) for n, r in res.items()))
    print("sampling strata (distinct paths x scripts x output): %s" % strata)
    return res, cases, emitted


def execute(cases, jobs=4):
    payloads = [dict(cases=ch, seed=lib.seed()) for ch in lib.chunks(cases, jobs * 2)]
    outs = lib.run_driver_parallel("drive_clientphases.py", payloads, timeout=3000, jobs=jobs)
    traces, stats = [], {}
    for o in outs:
        traces.extend(o["traces"])
        for k, v in o["stats"].items():
            stats[k] = stats.get(k, 0) + v
    return traces, stats


# ---------------------------------------------------------------------------
# self-test (R5): corrupted copies of recorded runs must be rejected by the named clause
# ---------------------------------------------------------------------------
NSELF = 9


def selftests(traces):
    want, out = {}, []

    def add(tag, t, i, clause, mutate):
        if "selftest/" + tag in want:
            return
        c = copy.deepcopy(t)
        c["id"] = "selftest/" + tag
        mutate(c["events"][i])
        want[c["id"]] = (i + 1, clause, t["id"])
        out.append(c)

    for t in traces:
        for i, e in enumerate(t["events"]):
            if e["code"] == 0 and e["exits"] == [0]:
                add("two-exits", t, i, "OneExit", lambda ev: ev.update(exits=[0, 0]))
                add("other-status", t, i, "Exit", lambda ev: ev.update(code=100, exits=[100]))
            if e["code"] == 101 and e["phase"] == "post_update":
                add("crash-instead", t, i, "Exit", lambda ev: ev.update(code=1, exits=[1]))
            if t["opt"]["offline"] and e["phase"] == "post_update" and not e["calls"]:
                add("offline-request", t, i, "Offline", lambda ev: ev.update(calls=["hostexists"]))
            if e["phase"] == "collect_and_output" and "collect" in e["did"]:
                add("no-collect", t, i, "Steps", lambda ev: ev["did"].remove("collect"))
                if "upload" in e["calls"]:
                    add("no-upload-call", t, i, "Calls", lambda ev: ev["calls"].remove("upload"))
                if e["code"] == 0 and not e["post"]["tmp"]:
                    add("tmp-left", t, i, "Disk", lambda ev: ev["post"].update(tmp=True))
                if e["code"] == 0 and not e["post"]["kept"]:
                    add("kept-unasked", t, i, "Disk", lambda ev: ev["post"].update(kept=True))
            if e["phase"] == "pre_update" and e["code"] == 100 and e["post"]["registered"]:
                add("marker-gone", t, i, "Disk", lambda ev: ev["post"].update(registered=False))
        if len(want) == NSELF:
            break
    return out, want, NSELF - len(want)


def check_selftests(val, want):
    mine = [r for r in val["rejected"] if r["id"].startswith("selftest/")]
    val["rejected"] = [r for r in val["rejected"] if not r["id"].startswith("selftest/")]
    real_bad = set(r["id"] for r in val["rejected"])
    done = 0
    for tid, (line, clause, base) in sorted(want.items()):
        if base in real_bad:
            continue
        if not any(r["id"] == tid and r["line"] == line and r["clause"].startswith(clause + ":") for r in mine):
            raise lib.MachineryError("self-test: corrupted run %s was not rejected at phase %d by %s (got %s)"
                                     % (tid, line, clause, [r for r in mine if r["id"] == tid]))
        done += 1
    return done


def flags(opt):
    on = sorted(k for k, v in opt.items() if v is True)
    if opt["output"] != "none":
        on.append("output=" + opt["output"])
    return on


def judge(prop, verdict, val, traces, cases):
    bytrace = dict((t["id"], t) for t in traces)
    bycase = dict((c["id"], c) for c in cases)
    for rj in sorted(val["rejected"], key=lambda r: (r["id"], r["line"])):
        clause = rj["clause"]
        if clause.startswith("ENV:"):
            raise lib.MachineryError("the harness composed the phases wrongly (%s) in %s" % (clause, rj["id"]))
        t = bytrace[rj["id"]]
        ev = t["events"][rj["line"] - 1]
        what = ("run %s: flags %s, server %s, disk before the run %s: phase %s violates %s (ended with status %s, "
                "steps %s, requests %s%s)"
                % (rj["id"], flags(t["opt"]), json.dumps(t["srv"], sort_keys=True),
                   sorted(k for k, v in t["init"].items() if v), ev["phase"], clause, ev["code"], ev["did"], ev["calls"],
                   "; " + ev["exc"] if ev.get("exc") else ""))
        verdict.reject(lib.sig(prop, clause), what, dict(case=bycase.get(rj["id"]), trace=t, rejected=rj))


def run(prop, tier):
    verdict = lib.Verdict(prop, tier)
    rng = random.Random(lib.seed())
    t0 = time.time()
    res, cases, emitted = run_models(tier, rng)
    design = res.get("design") or res["bounded"]
    print("timing: models %.1fs (design: %d distinct states), %d runs to replay %s"
          % (time.time() - t0, design.distinct, len(cases), emitted))
    t1 = time.time()
    traces, stats = execute(cases)
    print("timing: driver %.1fs, %d traces, %s" % (time.time() - t1, len(traces), stats))
    if len(traces) != len(cases):
        raise lib.MachineryError("driver returned %d traces for %d cases" % (len(traces), len(cases)))
    if not stats.get("did:collect") or not stats.get("requests"):
        raise lib.MachineryError("vacuity: no collection / no request under the driver (%s)" % stats)
    t1 = time.time()
    corrupted, want, lacking_self = selftests(traces)
    val = lib.validate_traces("ClientPhasesTrace", "ClientPhasesTrace.cfg", traces + corrupted, jobs=4)
    print("timing: validation %.1fs (%d events, %d JVMs)" % (time.time() - t1, val["events"], val["jvms"]))
    nev = sum(len(t["events"]) for t in traces + corrupted)
    if val["events"] != nev:
        raise lib.MachineryError("trace validation judged %d of %d events" % (val["events"], nev))
    nself = check_selftests(val, want)
    val["traces"] -= len(corrupted)
    val["events"] -= sum(len(t["events"]) for t in corrupted)
    judge(prop, verdict, val, traces, cases)
    if lacking_self and not verdict.violations:
        raise lib.MachineryError("self-test: no recorded run to corrupt for %d of %d mutations (have %s)"
                                 % (lacking_self, NSELF, sorted(want)))

    # vacuity: which exit points of the design the replayed runs go through (from the model's own account of
    # the run, carried in the CASE record), and which phases really ran
    counts = collections.defaultdict(int)
    nontrivial = set()
    for t, c in zip(traces, cases):
        for h in c["exp"]:
            counts["exit:" + h["at"]] += 1
        for e in t["events"]:
            counts["phase:" + e["phase"]] += 1
            counts["status:%s" % e["code"]] += 1
        if len(c["exp"]) < 4 or any(v is True for v in c["opt"].values()) or c["srv"] != dict(net="up", reg="yes", up="ok", chk="ok", unreg="ok", upd="ok"):
            nontrivial.add(json.dumps([c["opt"], c["srv"], c["disk"]], sort_keys=True))
    counts = dict(counts)
    lacking = [k for k in ["exit:" + e for e in EXITS] + ["phase:collect_and_output", "status:0", "status:100", "status:101"]
               if not counts.get(k)]
    if lacking and not verdict.violations:
        raise lib.MachineryError("vacuity: never exercised by a replayed run: %s" % lacking)

    samples = [dict(flags=flags(c["opt"]), srv=c["srv"], disk=c["disk"], expected=c["exp"]) for c in cases[:3]]
    if traces:
        samples.append(dict(trace_id=traces[-1]["id"], events=traces[-1]["events"][:2]))
    ev = lib.evidence(
        prop, tier, [r for r in res.values()], val, evaluations=len(traces), distinct_nontrivial=len(nontrivial),
        rule="model: every run of the design from every set of at most %d flags x 3 outputs x %s server scripts x 5 "
             "initial disks, 17 invariants on every state; the code-transcribed mechanism refuted on %s; replay: the runs "
             "of the bounded family (at most %d flags, %s scripts; a VERIF_SEED sample) plus TLC -simulate runs from %d "
             "random initial states with 3-7 flags; each run goes through the real phase functions in child processes "
             "and every phase is judged by TLC (ClientPhasesTrace) from the observed state before it; "
             "distinct_nontrivial = distinct (options, script, disk) other than the plain registered upload"
             % (FULL[tier][0], FULL[tier][1], REFUTE, BOUNDED[tier][0], BOUNDED[tier][1], RANDOM[tier][0]),
        samples=samples, assumptions=ASSUMPTIONS,
        extra=dict(runs_emitted=emitted, driver=stats, exercised=counts,
                   model_action_coverage=design.coverage if tier != "quick" else {},
                   refuted_for_code_mechanism=REFUTE, selftest_corrupted_traces_rejected=nself, clauses=CLAUSES,
                   invariants=INVARIANTS, exhaustive=False))
    return verdict.finish(ev)


def replay(prop, path):
    with open(path) as f:
        rec = json.load(f)
    case = (rec.get("replay") or {}).get("case")
    if not case:
        print(json.dumps(rec, indent=1)[:20000])
        return 0
    traces, _ = execute([case], jobs=1)
    val = lib.validate_traces("ClientPhasesTrace", "ClientPhasesTrace.cfg", traces, jobs=1)
    print(json.dumps(dict(case=case, trace=traces[0], rejected=val["rejected"]), indent=1))
    known = set(k["signature"] for k in lib.load_known() if k.get("property") == prop and k.get("status") == "open")
    for r in val["rejected"]:
        tag = "KNOWN-FINDING" if lib.sig(prop, r["clause"]) in known else "VIOLATION"
        print("%s property=%s phase %d clause %s" % (tag, prop, r["line"], r["clause"]))
    return 1 if any(lib.sig(prop, r["clause"]) not in known for r in val["rejected"]) else 0
