"""Driver for DrEngine: concretise abstract programs with the real decorators
of insights.core.plugins / spec_factory, run them through the real engine and
record what happened.  Contains no oracle: the records are judged by
specs/DrTrace.tla.

usage: drive_dr.py <in.json> <out.json>
in : {"cases":[{"id":..,"prog":[..],"ss":bool,"att":[..] (optional forced order)}],
      "drivers":["forced","run","incr","pool2","pool3s"], "npad": 6, "listlen": 2, "obsfail_every": 3}
out: {"traces":[..], "stats":{..}}
"""
import json
import logging
import os
import shutil
import tempfile
import sys
import signal
import threading
import types
from concurrent.futures import ThreadPoolExecutor

from insights.core import dr, plugins
from insights.core.context import ExecutionContext, HostContext, SerializedArchiveContext
from insights.core.exceptions import (CalledProcessError, ContentException, SkipComponent,
                                      TimeoutException)
from insights.core.serde import Hydration, deserializer, serializer
from insights.core.spec_factory import RegistryPoint, SpecSet

DECOS = {"plain": plugins.component, "datasource": plugins.datasource, "parser": plugins.parser,
         "combiner": plugins.combiner, "rule": plugins.rule, "condition": plugins.condition}


class Val(object):
    def __init__(self, k, c, xs=()):
        self.k, self.c, self.xs = k, c, list(xs)


class Falsy(Val):
    """A real value that is false in a boolean context, like 0, "", [] or False."""
    def __init__(self, c):
        Val.__init__(self, "falsy", c)

    def __bool__(self):
        return False
    __nonzero__ = __bool__

    def __len__(self):
        return 0


@serializer(Val)
def _ser_val(v, root=None):
    return {"k": v.k, "c": v.c, "xs": list(v.xs)}


@deserializer(Val)
def _de_val(_type, data, root=None, ctx=None, ds=None):
    return Val(data["k"], data["c"], data["xs"])


def vrec(k, c=0, xs=(), mr=(), mg=()):
    return {"k": k, "c": c, "xs": list(xs), "mr": list(mr), "mg": [list(g) for g in mg]}


ABSENT = vrec("absent")
NOMISS = {"set": False, "mr": [], "mg": []}


class Program(object):
    """One concretised abstract program."""

    def __init__(self, case, listlen):
        self.case = case
        self.listlen = listlen
        self.n = len(case["prog"])
        self.comp = {}        # id -> component object
        self.idx = {}         # id(component object) -> id
        self.log = []         # call log: dicts c, args, el
        self.elcount = {}
        self.specsets = []
        self.variant = int(case.get("variant", 0))
        self.flip = int(case.get("flip", 0))
        self.lock = threading.Lock()
        self.module = types.ModuleType("verif_generated_%d" % (id(self) % 100000))
        sys.modules[self.module.__name__] = self.module
        self.has_point = any(p["kind"] == "point" for p in case["prog"])
        self.deferred = []
        self.to_disable = []
        # concretisation variant: the implementations of a spec with several implementations all work under one
        # execution context (a class of this program's own, an instance of which every broker holds), the way
        # the shipped spec sets do.  Registering a later implementation for a context tells the earlier ones
        # for that context to keep quiet while it is present: they are declared as ignoring a present marker
        # (id 0 in their ignore set), all but the one registered last.
        self.ctxcls = None
        self.ctx_members, self.ctxign = set(), set()
        if (self.variant // 2) % 2 == 0 and not case.get("arch"):
            for p in case["prog"]:
                members = p["grp"][0] if p["kind"] == "point" and p["grp"] else []
                if len(members) >= 2:
                    self.ctx_members.update(members)
                    self.ctxign.update(members[:-1])
            if self.ctx_members:
                self.ctxcls = type("VerifContext%d" % (id(self) % 100000), (ExecutionContext,), {})
        for i, p in enumerate(case["prog"]):
            self._define(i + 1, p)
        self._apply_enabled()
        if self.deferred:
            # a first evaluation of the same set of components, then the late registrations
            quiet = dr.Broker()
            quiet.store_skips = bool(case["ss"])
            self.hold_context(quiet)
            for c in range(1, self.n + 1):
                if case["prog"][c - 1]["seeded"]:
                    quiet[self.comp[c]] = None if case["prog"][c - 1]["outc"] == "none" else Val("seed", c)
            g = self.graph()
            if g:
                if (self.variant // 2) % 2:
                    # ... asked for by naming targets, so that the engine derives (and may remember) the graph
                    dr.run([self.comp[c] for c in range(1, self.n + 1) if case["prog"][c - 1]["ingraph"]], quiet)
                else:
                    dr.run(g, quiet)
            for reg in self.deferred:
                reg()
            self.log[:] = []
            self.elcount.clear()

    def hold_context(self, broker):
        if self.ctxcls is not None:
            broker[self.ctxcls] = self.ctxcls()

    # -- projection -------------------------------------------------------
    def cid(self, obj):
        try:
            return self.idx.get(id(obj), 0) if self.comp.get(self.idx.get(id(obj), 0)) is obj else 0
        except Exception:
            return 0

    def proj(self, v):
        if v is None:
            return vrec("none")
        if isinstance(v, Val):
            return vrec(v.k, v.c, v.xs)
        if isinstance(v, list):
            if v and all(isinstance(x, Val) and x.k == "elem" for x in v) and len(set(x.c for x in v)) == 1:
                return vrec("list", v[0].c, [x.xs[0] for x in v])
            if v and all(isinstance(x, Val) and x.k == "res" for x in v) and len(set(x.c for x in v)) == 1:
                return vrec("plist", v[0].c, [x.xs[0] for x in v])
            return vrec("weird-list", 0)
        if isinstance(v, plugins._make_skip):
            mr, mg = v.missing
            c = 0
            for k, o in self.comp.items():
                if dr.get_name(o) == v.get("rule_fqdn"):
                    c = k
            return vrec("skipresp", c, (), [self.cid(x) for x in mr], [[self.cid(x) for x in g] for g in mg])
        if isinstance(v, plugins.make_none):
            return vrec("noneresp")
        if isinstance(v, plugins.Response):
            return vrec("resp", v.get("c", 0))
        return vrec("weird:" + type(v).__name__, 0)

    # -- concretisation ---------------------------------------------------
    def _raise(self, c, kind, el):
        if kind == "skip":
            e = SkipComponent("deliberate skip c%d" % c)
        elif kind == "content":
            e = ContentException("content error c%d" % c)
        elif kind == "cmd":
            e = CalledProcessError(1, "cmd-c%d" % c, "boom")
        elif kind == "timeout":
            e = TimeoutException("timeout c%d" % c)
        else:
            e = RuntimeError("crash c%d" % c)
        e._verif = (c, kind, el)
        raise e

    def _finish(self, c, p, outc, el):
        kind = p["kind"]
        if outc == "val":
            if el:
                return Val("res", c, [el])
            if kind == "rule":
                return plugins.make_pass("KEY_C%d" % c, c=c)
            return Val("v", c)
        if outc == "none":
            return None
        if outc == "falsy":
            return Falsy(c)
        if outc == "list":
            return [Val("elem", c, [i + 1]) for i in range(self.listlen)]
        self._raise(c, outc, el)

    def _define(self, c, p):
        kind = p["kind"]
        prog = self

        if kind == "point":
            members = p["grp"][0] if p["grp"] else []
            base = type("Specs%d_%d" % (id(self) % 100000, c), (SpecSet,), {"p%d" % c: RegistryPoint()})
            point = getattr(base, "p%d" % c)
            self.specsets.append(base)
            for n, d in enumerate(members):
                def register(c=c, d=d, base=base):
                    self.specsets.append(type("Impl%d_%d" % (c, d), (base,), {"p%d" % c: self.comp[d]}))
                if n == len(members) - 1 and self.variant % 2 and not self.case.get("arch"):
                    # concretisation variant: the last implementation is registered only after the program
                    # has been evaluated once in this process (spec packages loaded later, by configuration)
                    self.deferred.append(register)
                else:
                    register()
            self._bind(c, point, p)
            return

        def positional(*args):
            with prog.lock:
                prog.log.append({"c": c, "args": [prog.proj(a) for a in args], "el": 0})
            return prog._finish(c, p, p["outc"], 0)

        def ds_body(broker):
            args = [broker.get(d) for d in dr.get_delegate(ds_body).deps if d is not prog.ctxcls]
            with prog.lock:
                prog.log.append({"c": c, "args": [prog.proj(a) for a in args], "el": 0})
            return prog._finish(c, p, p["outc"], 0)

        def parser_body(x):
            if isinstance(x, Val) and x.k in ("elem", "res"):
                with prog.lock:
                    el = prog.elcount.get(c, 0) + 1
                    prog.elcount[c] = el
                    prog.log.append({"c": c, "args": [prog.proj(x)], "el": el})
                outs = p["eouts"]
                return prog._finish(c, p, outs[el - 1] if el <= len(outs) else "val", el)
            with prog.lock:
                prog.log.append({"c": c, "args": [prog.proj(x)], "el": 0})
            return prog._finish(c, p, p["outc"], 0)

        body = {"datasource": ds_body, "parser": parser_body}.get(kind, positional)
        body.__name__ = "c%d" % c
        body.__qualname__ = "c%d_%d" % (c, id(self) % 100000)
        body.__module__ = self.module.__name__
        setattr(self.module, body.__qualname__, body)
        pos, opt = [], []
        for it in p["decl"]:
            if it["t"] == "req":
                pos.append(self.comp[it["ds"][0]])
            elif it["t"] == "grp":
                pos.append([self.comp[d] for d in it["ds"]])
            else:
                opt.append(self.comp[it["ds"][0]])
        if c in self.ctx_members and kind == "datasource":
            pos.append(self.ctxcls)
        kw = {}
        deco = DECOS[kind]
        if kind == "plain" and p["decl"] and (self.variant + c) % 2 == 1:
            # concretisation variant: a plugin type of its own whose class-level `requires` /
            # `optional` carry the leading part of the declaration (implicit dependencies)
            cls_req, cls_opt = [], []
            if pos:
                cls_req = [pos.pop(0)]
            if opt:
                cls_opt = [opt.pop(0)]
            deco = type("custom_type_%d" % c, (plugins.PluginType,), {"requires": cls_req, "optional": cls_opt})
        if opt:
            kw["optional"] = opt if len(opt) > 1 or (self.variant % 3) else opt[0]
        if kind == "parser":
            kw = {"continue_on_error": bool(p["coe"])}
        if kind != "parser" and pos and (self.variant + 2 * c) % 5 == 0:
            # the documented keyword form of the same declaration: requires=[...] instead of positional arguments
            deco(requires=list(pos), **kw)(body)
        else:
            deco(*pos, **kw)(body)
        self._bind(c, body, p)

    def _bind(self, c, obj, p):
        self.comp[c] = obj
        self.idx[id(obj)] = c
        if not p["enabled"]:
            self.to_disable.append(obj)
        for i in p["ignore"]:
            dr.add_ignore(obj, self.comp[i])

    def _apply_enabled(self):
        """The enabled switch is driven through every public way of setting it."""
        import insights
        how = 0 if self.has_point else self.variant % 6
        if how == 0:
            for o in self.to_disable:
                dr.set_enabled(o, False)
        elif how == 1:
            for o in self.to_disable:
                dr.set_enabled(dr.get_name(o), False)          # by fully qualified name
        elif how == 2:
            insights.apply_configs({"configs": [{"name": dr.get_name(o), "enabled": False} for o in self.to_disable]})
        elif how == 4:
            # stale state from earlier use of the process: the components that must run were switched
            # off by hand; a default of True re-enables everything, then the disabled ones are named
            on = [o for o in self.comp.values() if not any(o is d for d in self.to_disable)]
            for o in on:
                dr.set_enabled(o, False)
            insights.apply_default_enabled({"default_component_enabled": True})
            self.replaced_enabled = True
            insights.apply_configs({"configs": [{"name": dr.get_name(o), "enabled": False} for o in self.to_disable]})
        else:
            # everything disabled by default, the enabled ones switched on by name
            if how == 5:
                for o in self.comp.values():
                    dr.is_enabled(o)       # as an earlier evaluation in this process would have done
            if self.to_disable:
                insights.apply_default_enabled({"default_component_enabled": False})
                self.replaced_enabled = True
                on = [o for o in self.comp.values() if not any(o is d for d in self.to_disable)]
                insights.apply_configs({"default_component_enabled": False,
                                        "configs": [{"name": dr.get_name(o), "enabled": True} for o in on]})

    def registered(self, npad, keys=None):
        """The program as DECLARED by the driver (what was written in the decorators; for registry
        points the registration order of the implementations; the enabled flags and ignore sets it
        asked dr to set), padded to npad.  Nothing is read back from dr: a change that corrupts the
        registries must not reach the specification through the trace's own description of the program."""
        out = []
        for c in range(1, self.n + 1):
            p = self.case["prog"][c - 1]
            o = self.comp[c]
            d = dr.get_delegate(o)
            kind = "point" if isinstance(o, RegistryPoint) else p["kind"]
            req = [it["ds"][0] for it in p["decl"] if it["t"] == "req"]
            grp = [list(it["ds"]) for it in p["decl"] if it["t"] == "grp"]
            flat = [x for it in p["decl"] for x in it["ds"]]
            out.append({"kind": kind, "decl": [], "req": req, "grp": grp, "flat": flat,
                        "outc": p["outc"], "eouts": list(p["eouts"]) + ["val"] * (self.listlen - len(p["eouts"])),
                        "coe": bool(p["coe"]),
                        "enabled": bool(p["enabled"]), "seeded": bool(p["seeded"]),
                        "ingraph": bool(p["ingraph"]) if keys is None else (c in keys),
                        "target": bool(p["ingraph"]),
                        "ignore": sorted(p["ignore"]) + ([0] if c in self.ctxign and kind == "datasource" else [])})
        while len(out) < npad:
            out.append({"kind": "plain", "decl": [], "req": [], "grp": [], "flat": [], "outc": "val",
                        "eouts": ["val"] * self.listlen, "coe": True, "enabled": False, "seeded": False,
                        "ingraph": False, "target": False, "ignore": []})
        return out

    def graph(self):
        ids = [c for c in range(1, self.n + 1) if self.case["prog"][c - 1]["ingraph"]]
        if (self.variant + self.flip) % 2:
            ids.reverse()          # dict order is an input the engine must not depend on
        g = {}
        for c in ids:
            g[self.comp[c]] = set(dr.get_dependencies(self.comp[c]))
        return g

    def cleanup(self):
        objs = list(self.comp.values())
        for o in objs:
            d = dr.DELEGATES.pop(o, None)
            dr.DEPENDENCIES.pop(o, None)
            dr.DEPENDENTS.pop(o, None)
            dr.ENABLED.pop(o, None)
            dr.IGNORE.pop(o, None)
            dr.MODULE_NAMES.pop(o, None)
            dr.BASE_MODULE_NAMES.pop(o, None)
            dr.HIDDEN.discard(o)
            for g in list(dr.COMPONENTS):
                dr.COMPONENTS[g].pop(o, None)
            for t in list(dr.COMPONENTS_BY_TYPE):
                dr.COMPONENTS_BY_TYPE[t].discard(o)
        dr.COMPONENTS_BY_NAME.clear()
        dr.COMPONENT_IMPORT_CACHE.clear()
        sys.modules.pop(self.module.__name__, None)
        if getattr(self, "replaced_enabled", False):
            from collections import defaultdict
            dr.ENABLED = defaultdict(lambda: True)


class Recorder(object):
    """Observes one evaluation of one Program."""

    def __init__(self, prog, pooled, obsfail):
        self.prog = prog
        self.pooled = pooled
        self.obsfail = obsfail
        self.events = []
        self.lock = threading.Lock()
        self.seen_exc = set()
        self.logpos = 0
        self.threads = {}
        self.sub_of_thread = {}
        self.nsubs = 0
        self.brokers = []
        self.typed = {}
        self.pending = {}
        self.cur_att = {}

    def worker(self):
        t = threading.get_ident()
        if t not in self.threads:
            self.threads[t] = len(self.threads) + 1
        return self.threads[t]

    def start_sub(self, graph, broker):
        with self.lock:
            w = self.worker()
            self.nsubs += 1
            self.sub_of_thread[w] = self.nsubs
            if broker not in self.brokers:
                self.brokers.append(broker)
            self.events.append({"ev": "sub", "w": w, "s": self.nsubs,
                                "keys": sorted(self.prog.cid(k) for k in graph if k is not self.prog.ctxcls)})

    def recs_of(self, broker, cur):
        out = []
        for key, lst in list(broker.exceptions.items()):
            for ex in list(lst):
                k = (id(broker), id(key), id(ex), )
                if k in self.seen_exc:
                    continue
                self.seen_exc.add(k)
                tag = getattr(ex, "_verif", None)
                if tag:
                    by, kind, el = tag
                elif type(ex) is SkipComponent:
                    by, kind, el = cur, "skip", 0
                else:
                    by, kind, el = cur, "other:" + type(ex).__name__, 0
                if not by:
                    # engine-made exception seen only at the end of a pooled run: attribute it to its key
                    by = self.prog.cid(key)
                out.append({"under": self.prog.cid(key), "by": by, "kind": kind, "el": el,
                            # a traceback, not just any text (format_exc() outside a handler gives "NoneType: None")
                            "tb": "Traceback (most recent call last)" in str(broker.tracebacks.get(ex) or "")})
        return out

    def add_typed(self, broker):
        for tname, typ in (("plugin", plugins.PluginType), ("datasource", plugins.datasource), ("parser", plugins.parser), ("rule", plugins.rule),
                           ("combiner", plugins.combiner)):
            broker.add_observer(self.typed_observer(tname), typ)

    def attempt_no(self, c, name):
        """All observers of one attempt fire consecutively in one thread (in set order): number the
        attempts per thread so that the typed observers' sightings find their attempt event."""
        t = threading.get_ident()
        st = self.cur_att.get(t)
        if st is None or st["c"] != c or name in st["seen"]:
            st = {"c": c, "seen": set(), "n": (st["n"] + 1 if st else 0)}
            self.cur_att[t] = st
        st["seen"].add(name)
        return (t, st["n"])

    def typed_observer(self, tname):
        """An observer registered for one component type; what it saw is attached to the attempt event."""
        def obs(component, broker):
            c = self.prog.cid(component)
            if c:
                with self.lock:
                    self.typed.setdefault(self.attempt_no(c, tname), []).append(
                        {"t": tname, "has": component in broker})
        return obs

    def observer(self, component, broker):
        c = self.prog.cid(component)
        with self.lock:
            w = self.worker()
            if c:
                if self.pooled:
                    calls = [e for e in self.prog.log[self.logpos:] if e["c"] == c]
                    # entries of other threads stay for their own events
                    rest = [e for e in self.prog.log[self.logpos:] if e["c"] != c]
                    self.prog.log[self.logpos:] = rest
                    recs = []
                else:
                    calls = self.prog.log[self.logpos:]
                    self.logpos = len(self.prog.log)
                    recs = self.recs_of(broker, c)
                mr = broker.missing_requirements.get(component)
                m = dict(NOMISS) if mr is None else {"set": True, "mr": [self.prog.cid(x) for x in mr[0]],
                                                     "mg": [[self.prog.cid(x) for x in g] for g in mr[1]]}
                v = self.prog.proj(broker[component]) if component in broker else dict(ABSENT)
                # a time limit armed for this attempt (datasources under a HostContext arm SIGALRM) must be
                # disarmed when the attempt is over: observed as the real timer's remaining time, then
                # cancelled so that a leftover cannot fire in the driver
                alarm = False
                if threading.current_thread() is threading.main_thread():
                    alarm = signal.getitimer(signal.ITIMER_REAL)[0] > 0
                    if alarm:
                        signal.alarm(0)
                ev = {"ev": "att", "w": w, "s": self.sub_of_thread.get(w, 0), "c": c, "v": v, "alarm": alarm,
                      "m": m, "calls": calls, "recs": recs, "obs": [{"t": "any", "has": component in broker}]}
                self.events.append(ev)
                self.pending[self.attempt_no(c, "rec")] = ev
        if self.obsfail:
            raise RuntimeError("failing observer")

    def extra_observers(self):
        """Failing observers of every callable shape (function, partial, callable object, lambda)."""
        import functools

        def plain(comp, broker):
            raise RuntimeError("failing plain observer")

        def with_arg(tag, comp, broker):
            raise ValueError("failing partial observer " + tag)

        class Obj(object):
            def __call__(self, comp, broker):
                raise KeyError("failing callable-object observer")
        return [plain, functools.partial(with_arg, "x"), Obj(), lambda c, b: 1 // 0]

    def end(self):
        # observers fire in set order, so the typed ones may come before or after the recording one:
        # attach what they saw when the run is over
        for key, ev in self.pending.items():
            ev["obs"].extend(self.typed.get(key, []))
            ev["obs"].sort(key=lambda o: o["t"])
        recs = []
        for b in self.brokers:
            recs.extend(self.recs_of(b, 0))
        # what the broker holds at the end for the components whose value the caller supplied
        seeds = []
        for c in range(1, self.prog.n + 1):
            if self.prog.case["prog"][c - 1]["seeded"]:
                o = self.prog.comp[c]
                for b in self.brokers:
                    if o in b:
                        seeds.append({"c": c, "v": self.prog.proj(b[o])})
        self.events.append({"ev": "end", "recs": recs, "seeds": seeds})

    def final(self):
        """Exact projected final state (order of missing reports kept) for cross-run comparison."""
        inst, miss, recs = [], [], []
        for c in range(1, self.prog.n + 1):
            o = self.prog.comp[c]
            v, m = dict(ABSENT), dict(NOMISS)
            for b in self.brokers:
                if o in b:
                    v = self.prog.proj(b[o])
                mr = b.missing_requirements.get(o)
                if mr is not None:
                    m = {"set": True, "mr": [self.prog.cid(x) for x in mr[0]],
                         "mg": [[self.prog.cid(x) for x in g] for g in mr[1]]}
            inst.append(v)
            miss.append(m)
        for e in self.events:
            for r in e.get("recs", []):
                recs.append(json.dumps(r, sort_keys=True))
        return {"inst": inst, "missing": miss, "recs": sorted(set(recs))}


def run_case(case, driver, npad, listlen, obsfail, idtag="", host=False):
    prog = Program(case, listlen)
    try:
        pooled = driver.startswith("pool")
        # host: the evaluation is a live collection (HostContext in the broker), where every datasource
        # attempt runs under a SIGALRM time limit; signals need the main thread, so never in pooled runs
        host = host and not pooled and not case.get("arch")
        rec = Recorder(prog, pooled, obsfail)
        shared = driver.endswith("s") or driver in ("forced", "run", "closure", "group", "afterincr", "rerun") or \
            any(p["seeded"] for p in case["prog"])

        def observe(b):
            b.add_observer(rec.observer)
            rec.add_typed(b)
            if obsfail:
                for o in rec.extra_observers():
                    b.add_observer(o)

        def supply(b):
            for c in range(1, prog.n + 1):
                if case["prog"][c - 1]["seeded"]:
                    # a seeded component never runs, so its (unused) outcome field picks the seed value
                    b[prog.comp[c]] = None if case["prog"][c - 1]["outc"] == "none" else Val("seed", c)

        def mkbroker(bare=False):
            b = dr.Broker()
            b.store_skips = bool(case["ss"])
            prog.hold_context(b)
            if bare:
                return b
            observe(b)
            if case.get("arch"):
                b[SerializedArchiveContext] = SerializedArchiveContext(root="/")
            if host:
                b[HostContext] = HostContext()
            supply(b)
            if case.get("arch") and prog.variant % 2 == 0:
                # the analysed archive also holds (other) values for the components the caller supplied: loading
                # it into the caller's broker (Hydration.hydrate, as insights.process_dir does) must keep the
                # supplied ones.  The archive is written with the library's own Hydration.dehydrate.
                tmp = tempfile.mkdtemp(prefix="verif-dr-arch-")
                try:
                    stored = dr.Broker()
                    for c in range(1, prog.n + 1):
                        if case["prog"][c - 1]["seeded"] and case["prog"][c - 1]["outc"] != "none":
                            stored[prog.comp[c]] = Val("arch", c)
                    h = Hydration(tmp)
                    for o in list(stored.instances):
                        h.dehydrate(o, stored)
                    if os.path.isdir(os.path.join(tmp, "meta_data")):
                        Hydration(tmp).hydrate(b)
                finally:
                    shutil.rmtree(tmp, True)
            return b

        graph = prog.graph()
        orig_run = dr.run
        orig_broker = dr.Broker

        def run_wrapper(components=None, broker=None):
            # the incremental drivers create a fresh Broker per sub-graph when none is passed
            rec.start_sub(components, broker)
            return orig_run(components, broker)

        class ObservedBroker(orig_broker):
            def __init__(self, seed_broker=None):
                orig_broker.__init__(self, seed_broker)
                self.store_skips = bool(case["ss"])
                prog.hold_context(self)
                if host:
                    self[HostContext] = HostContext()
                self.add_observer(rec.observer)
                rec.add_typed(self)
                if obsfail:
                    for o in rec.extra_observers():
                        self.add_observer(o)

        workers = 1
        escaped = None
        observed = set()
        miss0 = [dict(NOMISS) for _ in range(npad)]
        try:
            if driver == "rerun":
                # the broker has a history: an earlier evaluation, made before the caller supplied its values,
                # left missing-dependency reports in it (the insights shell, insights-inspect and callers that
                # add inputs and evaluate again work like this).  The earlier evaluation covers the components
                # that cannot produce anything then (at least one required dependency or group, not a rule:
                # a rule's skip response is a value), so the evaluation that is observed starts from the
                # supplied values plus the reports, which the trace carries as its initial `missing`.
                if prog.ctxcls is not None:
                    return None
                b = mkbroker(bare=True)
                first = {}
                for c in range(1, prog.n + 1):
                    p = case["prog"][c - 1]
                    o = prog.comp[c]
                    if p["ingraph"] and not p["seeded"] and not isinstance(o, RegistryPoint) and p["kind"] != "rule" and \
                            any(it["t"] in ("req", "grp") for it in p["decl"]):
                        first[o] = set(dr.get_dependencies(o))
                if not first:
                    return None
                dr.run_components(list(dr.run_order(first)), first, b)
                if prog.log or any(prog.cid(k) for k in b.instances):
                    return None     # something did run in the earlier evaluation: not the history meant here
                prog.log[:] = []
                prog.elcount.clear()
                for c in range(1, prog.n + 1):
                    mr = b.missing_requirements.get(prog.comp[c])
                    if mr is not None:
                        miss0[c - 1] = {"set": True, "mr": [prog.cid(x) for x in mr[0]],
                                        "mg": [[prog.cid(x) for x in g] for g in mr[1]]}
                if host:
                    b[HostContext] = HostContext()
                supply(b)
                observe(b)
                orig_rc = dr.run_components

                def rc_wrapper(ordered, components, broker):
                    rec.start_sub(components, broker)
                    return orig_rc(ordered, components, broker)
                dr.run_components = rc_wrapper
                try:
                    dr.run(graph, b)
                finally:
                    dr.run_components = orig_rc
            elif driver == "forced":
                b = mkbroker()
                order = [prog.comp[a["c"]] for a in case["att"]]
                rec.start_sub(graph, b)
                dr.run_components(order, graph, b)
            elif driver in ("closure", "run", "group", "afterincr"):
                # "run": the caller hands over a graph; "closure": the caller names targets and the engine
                # derives the graph (determine_components / get_dependency_graph).  What the engine takes as
                # the graph is observed at determine_components, what it evaluates (after the pruning done
                # for archive contexts) at run_components.
                b = mkbroker()
                orig_rc, orig_dc = dr.run_components, dr.determine_components
                targets = [prog.comp[c] for c in range(1, prog.n + 1) if case["prog"][c - 1]["ingraph"]]

                def dc_wrapper(components):
                    g = orig_dc(components)
                    observed.update(prog.cid(k) for k in g)
                    return g

                def rc_wrapper(ordered, components, broker):
                    rec.start_sub(components, broker)
                    return orig_rc(ordered, components, broker)
                dr.run_components, dr.determine_components = rc_wrapper, dc_wrapper
                try:
                    if driver == "run":
                        dr.run(graph, b)
                    elif driver == "group":
                        # the caller names nothing: the default group, as the registry describes it
                        # (only used for programs in which every component takes part)
                        dr.run(broker=b)
                    elif driver == "afterincr":
                        # an earlier incremental evaluation of the same program in this process must not
                        # change what a later evaluation does (the registries are shared state)
                        dr.run_components, dr.determine_components = orig_rc, orig_dc
                        quiet = dr.Broker()
                        quiet.store_skips = bool(case["ss"])
                        prog.hold_context(quiet)
                        for c in range(1, prog.n + 1):
                            if case["prog"][c - 1]["seeded"]:
                                quiet[prog.comp[c]] = None if case["prog"][c - 1]["outc"] == "none" else Val("seed", c)
                        for _ in dr.run_incremental(prog.graph(), quiet):
                            pass
                        prog.log[:] = []
                        prog.elcount.clear()
                        dr.run_components, dr.determine_components = rc_wrapper, dc_wrapper
                        # ... then the caller names targets: the graph is derived from the registries as they are now
                        dr.run(list(targets), b)
                    else:
                        form = prog.variant % 3
                        dr.run(targets[0] if len(targets) == 1 and form == 0 else (set(targets) if form == 1 else targets), b)
                finally:
                    dr.run_components, dr.determine_components = orig_rc, orig_dc
            else:
                dr.run = run_wrapper
                if not shared:
                    dr.Broker = ObservedBroker
                try:
                    b = mkbroker() if shared else None
                    if driver.startswith("incr"):
                        for _ in dr.run_incremental(graph, b):
                            pass
                    else:
                        workers = int(driver[4])
                        with ThreadPoolExecutor(workers) as pool:
                            dr.run_all(graph, b, pool)
                finally:
                    dr.run = orig_run
                    dr.Broker = orig_broker
        except BaseException as ex:   # noqa: the property says nothing escapes
            escaped = type(ex).__name__
        if escaped:
            rec.events.append({"ev": "escaped", "exc": escaped})
        else:
            rec.end()
        mode = "single" if driver in ("forced", "run", "closure", "group", "afterincr", "rerun") else ("pool" if pooled else "incr")
        return {"id": "%s/%s%s%s" % (case["id"], driver, idtag, "/obsfail" if obsfail else ""),
                "final": None if escaped else rec.final(),
                "prog": prog.registered(npad, observed if driver in ("closure", "afterincr") else None),
                "closure": driver in ("closure", "afterincr"), "strict": True, "arch": bool(case.get("arch")),
                "host": bool(host), "miss0": miss0,
                "ss": bool(case["ss"]), "mode": mode,
                "workers": max(workers, len(rec.threads), 1), "events": rec.events}
    finally:
        prog.cleanup()


def main():
    logging.disable(logging.CRITICAL)
    with open(sys.argv[1]) as f:
        inp = json.load(f)
    # the "group" driver evaluates the default group by name: in this process the group index holds
    # the generated program only (importing insights registered the shipped spec names in it)
    dr.COMPONENTS[dr.GROUPS.single].clear()
    traces = []
    n = 0
    every = inp.get("obsfail_every", 0)
    for case in inp["cases"]:
        case["flip"] = int(inp.get("flip", 0))
        for drv in inp["drivers"]:
            if drv == "forced" and not case.get("att"):
                continue
            if drv != "forced" and case.get("dup"):
                continue
            if drv != "forced" and not any(p["ingraph"] for p in case["prog"]):
                continue    # dr.run({}) means "run the default group", not "run nothing"
            if drv == "rerun" and (case.get("arch") or case.get("dup")):
                continue
            if case.get("arch") and drv not in ("run", "closure", "afterincr"):
                continue    # the pruning for archive contexts is done by dr.run in a single pass
            if drv == "group" and not all(p["ingraph"] for p in case["prog"]):
                continue
            n += 1
            t = run_case(case, drv, inp["npad"], inp["listlen"], bool(every and n % every == 0),
                         inp.get("idtag", ""), host=(n % 2 == 0))
            if t is None:
                n -= 1
                continue
            traces.append(t)
    with open(sys.argv[2], "w") as f:
        json.dump({"traces": traces, "stats": {"executions": n}}, f, separators=(",", ":"))


if __name__ == "__main__":
    main()
