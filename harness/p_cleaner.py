"""C08-C10: the spec cleaner.  Model: specs/Cleaner.tla (+ CleanerMC emission),
trace validation: specs/CleanerTrace.tla, driver: harness/drive_cleaner.py."""
import concurrent.futures
import hashlib
import json
import os
import random
import time

import lib

INVS = ["NoLeak", "PatternDrops", "Rewritten", "Injective", "ReportExact", "NoPhantom",
        "ProvenanceMonotone", "BlankCollapses", "OneOrder", "Deterministic"]
OWNER = [("NoLeak", "C08"), ("PatternDrops", "C08"),
         ("Consistent", "C09"), ("Injective", "C09"), ("ReportExact", "C09"), ("NoPhantom", "C09"),
         ("ProvenanceMonotone", "C10"), ("BlankCollapses", "C10"), ("OneOrder", "C10"), ("Deterministic", "C10")]
ALLK = ["text", "ip", "loop", "short", "fqdn", "dom", "mac", "nullmac", "kw", "pat", "pw"]     # (+ "akey" in the allow-list configs)
ALLD = ["edge", "space", "punct", "colon", "dash", "dotnum", "alpha", "digit"]


def owner(clause):
    for pre, p in OWNER:
        if clause.startswith(pre):
            return p
    return None


def cfg_text(c, emit=True, invs=INVS, prop=True):
    def sset(xs):
        return "{" + ", ".join('"%s"' % x for x in xs) + "}"

    def bset(xs):
        return "{" + ", ".join("TRUE" if x else "FALSE" for x in xs) + "}"

    def nsets(xss):
        return "{" + ", ".join("{" + ", ".join(str(x) for x in xs) + "}" for xs in xss) + "}"

    def ssets(xss):
        return "{" + ", ".join(sset(xs) for xs in xss) + "}"
    lines = ["SPECIFICATION Spec", "CONSTANTS",
             "  Kinds = %s" % sset(c.get("kinds", ALLK)),
             "  NIp = %d" % c.get("nip", 1), "  NDom = %d" % c.get("ndom", 1), "  NMac = %d" % c.get("nmac", 1),
             "  NKw = %d" % c.get("nkw", 1), "  NPat = %d" % c.get("npat", 1),
             "  NIp6 = %d" % c.get("nip6", 1), "  NAk = %d" % c.get("nak", 1), "  V6Set = %s" % bset(c.get("v6", [False])),
             "  NoFqdnSet = %s" % bset(c.get("nofqdn", [False])), "  DnameSet = %s" % bset(c.get("dname", [False])),
             "  DelSet = %s" % sset(c.get("dels", ["space"])),
             "  MaxTok = %d" % c.get("tok", 1), "  MaxLines = %d" % c.get("lines", 1),
             "  MaxSpecs = %d" % c.get("specs", 1), "  TotLines = %d" % c.get("tot", c.get("lines", 1)),
             "  ObfSet = %s" % bset(c.get("obf", [True])), "  HostSet = %s" % bset(c.get("host", [True])),
             "  MacSet = %s" % bset(c.get("mac", [True])),
             "  KwSets = %s" % nsets(c.get("kws", [[1]])), "  PatSets = %s" % nsets(c.get("pats", [[]])),
             "  RegexSet = %s" % bset(c.get("regex", [False])), "  SysDomSet = %s" % bset(c.get("sysdom", [True])),
             "  NoRedSet = %s" % bset(c.get("nored", [False])), "  NoObfSets = %s" % ssets(c.get("noobf", [[]])),
             "  WidthSet = %s" % bset(c.get("width", [False])),
             "  AllowSet = {%s}" % ", ".join(str(x) for x in c.get("allow", [0])),
             "  FamSet = %s" % sset(c.get("fam", ["plain"])),
             "  AllowBlank = %s" % ("TRUE" if c.get("blank") else "FALSE"),
             "  Runs = %d" % c.get("runs", 1),
             "  AllOrders = %s" % ("TRUE" if c.get("allorders") else "FALSE"),
             "  FreeOrder = %s" % ("TRUE" if c.get("freeorder") else "FALSE")]
    lines += ["INVARIANT %s" % i for i in invs]
    if prop:
        lines.append("PROPERTY Consistent")
    if emit:
        lines.append("CONSTRAINT Emit")
    lines.append("CHECK_DEADLOCK FALSE")
    return "\n".join(lines) + "\n"


EXEMPT = [[], ["ip", "mac"], ["hostname", "keyword", "password"]]
EXEMPT4 = EXEMPT + [["hostname", "ip", "mac", "password"]]      # all but one (the machine-id spec minus ipv6)
MACHINE_ID = ["hostname", "ip", "ipv6", "mac", "password"]      # the shipped machine_id declaration: everything but keyword
ALL_SIX = ["hostname", "ip", "ipv6", "keyword", "mac", "password"]     # insights.cleaner.DEFAULT_OBFUSCATIONS
CONFIGS = {
    # C08 ---------------------------------------------------------------------------------
    # every kind x every pair of delimiter classes x every switch vector, one token
    "tok1": dict(dels=ALLD, obf=[True, False], host=[True, False], mac=[True, False], pats=[[1]]),
    # every configuration dimension and per-spec exemption, delimited tokens
    "switch1": dict(dels=["edge", "punct"], obf=[True, False], host=[True, False], mac=[True, False],
                    kws=[[], [1]], pats=[[], [1]], regex=[False, True], sysdom=[True, False],
                    nored=[False, True], noobf=EXEMPT4),
    # the machine-id declaration (no_redact, exempt from every obfuscator but keyword) and its neighbours, keywords
    # configured, every switch vector; goes through the provider write paths like every C08 case
    "machineid": dict(dels=["edge", "punct"], kinds=["kw", "text", "pw", "ip", "fqdn", "mac"], obf=[True, False],
                      host=[True, False], mac=[True, False], kws=[[1]], pats=[[], [1]], nored=[True],
                      noobf=[MACHINE_ID, EXEMPT4[3]]),
    # three and four password keys on one line
    "pw4": dict(dels=["space"], tok=4, kinds=["pw", "text"], obf=[True, False], pats=[[]], kws=[[]]),
    # two tokens on one line (repeats, mixed kinds, prefix addresses), plain and regex patterns
    "pair": dict(dels=["space", "punct"], tok=2, nip=2, pats=[[], [1]], regex=[False, True],
                 fam=["plain", "prefix"]),
    # lists of two or three patterns (plain and regular-expression form), lines that only a later pattern matches
    "pats3": dict(dels=["space"], tok=2, kinds=["text", "pat", "ip", "kw"], npat=3, pats=[[1, 2], [2, 3], [1, 2, 3]],
                  regex=[False, True]),
    "pairx": dict(dels=["edge", "alpha", "dotnum"], tok=2, kinds=["text", "ip", "short", "dom", "mac", "kw", "pw"],
                  pats=[[]]),
    "pairc": dict(dels=["colon", "dash", "digit"], tok=2, kinds=["text", "ip", "dom", "mac"], pats=[[]]),
    # fixed-width mode (netstat): repeated addresses on one line, address:port
    "pairw": dict(dels=["space", "colon"], tok=2, kinds=["text", "ip", "loop", "fqdn"], nip=2, pats=[[]], width=[True],
                  fam=["plain", "prefix"]),
    # the cleaner is built the way every production caller builds it (insights/collect.py, connection.py: no explicit
    # fqdn, the OS answers with the declared name), with and without an inventory label (display_name / ansible_host)
    # configured, system name with / without a domain, every legal obfuscate x obfuscate_hostname vector; replayed
    # completely through all paths of the tier
    "own1": dict(dels=["space"], tok=2, kinds=["text", "short", "fqdn", "dom", "ip"], obf=[True, False],
                 host=[True, False], pats=[[]], kws=[[]], nofqdn=[True], dname=[True, False], sysdom=[True, False]),
    # thorough: three tokens
    "triple": dict(dels=["space"], tok=3, nip=2, nkw=2, kws=[[1, 2]], pats=[[1]], regex=[False, True],
                   fam=["plain", "prefix"]),
    "triplep": dict(dels=["punct"], tok=3, kinds=["text", "ip", "fqdn", "dom", "mac", "kw", "pw"], pats=[[]]),
    # all application orders on the model (no emission: the order is not an input of the code)
    "orders": dict(dels=["edge", "alpha"], tok=1, allorders=True, pats=[[1]], noobf=EXEMPT,
                   fam=["plain", "kwdom", "pwip"]),
    # C09 ---------------------------------------------------------------------------------
    "hist2": dict(kinds=["ip", "short", "fqdn", "dom", "mac"], nip=2, ndom=2, nmac=2, tok=2, lines=2, specs=2, tot=2,
                  kws=[[]], fam=["plain", "collide", "suffix", "prefix"]),
    "hist2x": dict(kinds=["ip", "fqdn", "dom", "kw", "text"], nip=1, ndom=2, nmac=1, tok=2, lines=2, specs=2, tot=2,
                   kws=[[1]], noobf=[[], ["ip", "hostname"]], fam=["plain"], sysdom=[True, False]),
    # IPv6 (C09 speaks of "IP address"): 3-line histories incl. the collision family (ip6 1 = substitute of ip6 2)
    "hist3v6": dict(kinds=["ip6"], nip6=2, v6=[True], tok=2, lines=3, specs=3, tot=3, kws=[[]], fam=["plain", "collide"]),
    "hist2v6": dict(kinds=["ip6", "ip", "mac"], nip6=2, v6=[True, False], tok=2, lines=2, specs=2, tot=2, kws=[[]],
                    noobf=[[], ["ipv6"]], fam=["plain"]),
    # IPv6 after ] ^ ` (the pattern's look-behind has a character RANGE there): recorded finding
    "hist2v6lb": dict(kinds=["ip6"], nip6=2, v6=[True], dels=["space", "punct"], tok=1, lines=2, specs=2, tot=2, kws=[[]],
                      fam=["v6lb"]),
    # a keyword inside a host name of the domain, two specs of which one exempts keywords
    "hist2kw": dict(kinds=["dom", "kw", "fqdn"], ndom=2, tok=2, lines=2, specs=2, tot=2, kws=[[1]],
                    noobf=[[], ["keyword"]], fam=["kwdom", "kwhost"]),
    # one keyword is a part of another one, both orders of configuration
    "hist2kwsub": dict(kinds=["kw", "text"], nkw=2, kws=[[1, 2]], tok=2, lines=2, specs=1, tot=2, fam=["kwsub", "kwsup"]),
    # the cleaner is built without an explicit fqdn (the OS answers with the declared name), display_name set / unset
    "hist2own": dict(kinds=["ip", "short", "fqdn", "dom", "mac"], tok=2, lines=2, specs=1, tot=2, kws=[[]],
                     nofqdn=[True], dname=[True, False], sysdom=[True, False]),
    # fixed-width mode: the same address twice on one line / on two lines
    "histw": dict(kinds=["ip"], nip=2, tok=2, lines=2, specs=2, tot=2, kws=[[]], width=[True], fam=["plain", "prefix"]),
    "hist3ip": dict(kinds=["ip"], nip=3, tok=2, lines=3, specs=3, tot=3, kws=[[]], fam=["plain", "collide", "prefix"]),
    "hist3host": dict(kinds=["short", "fqdn", "dom"], ndom=2, tok=2, lines=3, specs=3, tot=3, kws=[[]],
                      fam=["plain", "collide", "suffix"]),
    "hist3mac": dict(kinds=["mac", "ip"], nmac=2, nip=1, tok=2, lines=3, specs=3, tot=3, kws=[[]],
                     fam=["plain", "collide"]),
    # C10 ---------------------------------------------------------------------------------
    "runs3": dict(kinds=["text", "kw", "pat", "fqdn", "dom", "pw", "ip"], tok=1, lines=3, blank=True, pats=[[1]],
                  nored=[False, True], fam=["plain", "kwdom", "pwip"], runs=2),
    "runs2x2": dict(kinds=["text", "kw", "pat", "fqdn", "pw", "ip"], tok=2, lines=2, blank=True, pats=[[1]],
                    fam=["kwdom", "pwip"], runs=2),
    "runs4": dict(kinds=["text", "pat", "fqdn", "pw"], tok=1, lines=4, blank=True, pats=[[1]],
                  nored=[False, True], fam=["plain", "kwdom", "pwip"], runs=2),
    # two specs with different per-spec exemptions through one cleaner: the order must not change between specs
    "runs2sp": dict(kinds=["text", "kw", "fqdn", "pw", "ip"], tok=1, lines=1, specs=2, tot=2,
                    noobf=[[], ["mac"], ["ip", "keyword"]], fam=["plain", "kwdom"], runs=2),
    # several not-yet-seen hosts of the domain on ONE line, names of equal length (also mixed with a longer one)
    "runshosts": dict(kinds=["dom", "text"], ndom=4, tok=4, lines=1, kws=[[]], fam=["eqlen"], runs=2),
    # nothing to apply: no patterns, no keywords, every enabled obfuscator exempted (the machine-id spec)
    "runsnone": dict(kinds=["text", "ip", "fqdn"], tok=1, lines=2, blank=True, kws=[[]], pats=[[]], nored=[False, True],
                     noobf=[["hostname", "ip", "mac", "password"]], runs=2),
    # the spec's DECLARATION exempts it from every obfuscator (all six: cleaned by redaction only, or - with no_redact -
    # not cleaned at all) or from all but keyword (the machine-id declaration), no_redact on / off, patterns configured
    # or not, no keywords: whether a step is CONFIGURED must not decide whether the spec counts as cleaned.  Small, replayed
    # completely (ALWAYS), also through a generated registry point that carries the declaration (specprovider).
    "runsexempt": dict(kinds=["text", "pat"], tok=1, lines=2, blank=True, kws=[[]], pats=[[], [1]], nored=[False, True],
                       noobf=[ALL_SIX, MACHINE_ID], runs=2),
    # filterable spec: allow list {key: max_match 1|2}, budgets used up by the content
    "runsallow": dict(kinds=["text", "akey", "ip", "pat"], tok=1, lines=3, blank=True, pats=[[1]], allow=[1, 2], runs=2),
    # allow list of two keys with budgets 1-2, lines with one or both keys
    "runsallow2": dict(kinds=["text", "akey"], nak=2, tok=2, lines=3, kws=[[]], allow=[1, 2], runs=2),
    "runsallow3": dict(kinds=["text", "akey"], nak=3, tok=3, lines=2, kws=[[]], allow=[1, 2], runs=2),
    # text with characters that str.splitlines() (but not a text file's line iteration) takes for line ends, next to
    # a pattern / allow-list key on the same line; also through clean_file
    "runsvt": dict(kinds=["text", "pat", "akey"], tok=2, lines=2, pats=[[1]], kws=[[]], allow=[0, 1], fam=["vt"], runs=2),
    # every order, two runs: OneOrder / Deterministic on the model
    "ordruns": dict(kinds=["kw", "fqdn", "pw", "pat"], tok=1, lines=1, blank=True, pats=[[1]],
                    fam=["plain", "kwdom", "pwip"], runs=2, allorders=True),
    # demonstration: if every run may choose its own order, the output is not a function of the input
    "freeorder": dict(kinds=["fqdn", "pw"], tok=1, lines=1, fam=["kwdom", "pwip"], runs=2, allorders=True,
                      freeorder=True),
}

PLAN = {
    "C08": dict(quick=dict(emit=["tok1", "switch1", "machineid", "pw4", "pair", "pats3", "pairx", "pairc", "pairw", "own1"], model=["orders"], cap=8000, nconc=3,
                           paths=["content", "specprovider", "provider"]),
                thorough=dict(emit=["tok1", "switch1", "machineid", "pw4", "pair", "pats3", "pairx", "pairc", "pairw", "own1", "triple", "triplep"], model=["orders"],
                              cap=45000, nconc=6, paths=["content", "content", "file", "provider", "fileprovider", "specprovider"])),
    "C09": dict(quick=dict(emit=["hist2", "hist2x", "histw", "hist3v6", "hist2v6", "hist2v6lb", "hist2kw", "hist2kwsub", "hist2own"], model=[], cap=8000, nconc=2, paths=["content"], long=80),
                thorough=dict(emit=["hist2", "hist2x", "histw", "hist3v6", "hist2v6", "hist2v6lb", "hist2kw", "hist2kwsub", "hist2own", "hist3ip", "hist3host", "hist3mac"], model=[], cap=50000, long=600,
                              nconc=3, paths=["content", "content", "provider", "file"])),
    "C10": dict(quick=dict(emit=["runs3", "runs2sp", "runsnone", "runsexempt", "runsallow", "runsallow2", "runshosts", "runsvt"], model=["ordruns"], cap=800, seeds=16),
                thorough=dict(emit=["runs3", "runs2sp", "runsnone", "runsexempt", "runsallow", "runsallow2", "runsallow3", "runshosts", "runsvt", "runs2x2", "runs4"], model=["ordruns"], cap=5000, seeds=64)),
}

ASSUMPTIONS = [
    "token values are sampled per case from VERIF_SEED underneath the abstract kinds / delimiter classes TLC enumerates; "
    "alphabets of the plain family cannot collide with any substitute the obfuscators issue",
    "readings of DESIGN.md C08-C10 (delimiter condition also for IPv4; ':' '-' '.digit' neighbours mean not delimited; "
    "documented password separators; case-sensitive host names; blank = empty line)",
    "IPv6 obfuscation and the fixed-width (netstat) mode are not modelled; obfuscate_ipv6 stays off",
    "the regular-expression engine, hashlib and the file system are trusted",
    "bounds: exhaustive only inside the listed TLC configurations; the replay is a VERIF_SEED-determined sample when "
    "the emitted cases exceed the tier's cap",
]


def case_features(case):
    kinds = set()
    for s in case["content"]:
        for ln in s["lines"]:
            for t in ln:
                kinds.add(t["k"])
    return kinds


def nontrivial(case, prop):
    """a case in which the property has something to decide"""
    cf = case["cf"]
    ks = case_features(case)
    if prop == "C08":
        return bool((cf["kws"] and "kw" in ks) or (cf["pats"] and "pat" in ks) or "pw" in ks or
                    (cf["obf"] and ks & {"ip", "short", "fqdn", "dom", "mac"}))
    if prop == "C09":
        n = sum(1 for s in case["content"] for ln in s["lines"] for t in ln if t["k"] in ("ip", "short", "fqdn", "dom", "mac"))
        return n >= 2
    return sum(len(s["lines"]) for s in case["content"]) >= 2


def run_models(prop, tier, plan):
    gen = lib.subdir("gencfg")
    jobs = []
    for name in plan["emit"]:
        p = os.path.join(gen, "CleanerMC_%s.cfg" % name)
        with open(p, "w") as f:
            f.write(cfg_text(CONFIGS[name], True))
        jobs.append((name, "CleanerMC", p, True))
    for name in plan["model"]:
        p = os.path.join(gen, "Cleaner_%s.cfg" % name)
        with open(p, "w") as f:
            f.write(cfg_text(CONFIGS[name], False))
        jobs.append((name, "Cleaner", p, False))
    if prop == "C10":
        p = os.path.join(gen, "Cleaner_freeorder.cfg")
        with open(p, "w") as f:
            f.write(cfg_text(CONFIGS["freeorder"], False, invs=["Deterministic"], prop=False))
        jobs.append(("freeorder", "Cleaner", p, False))

    def one(job):
        name, mod, p, emit = job
        r = lib.run_tlc(mod, p, workers=max(2, lib.NCPU // 3), tag="cl-" + name, timeout=2400, raw_cases=True,
                        coverage=(tier == "thorough" and not emit))
        if r.coverage and r.ok:
            need = ["NewCleaner", "BeginSpec", "CleanLine", "EndSpec", "Report"] + (["Rerun"] if CONFIGS[name].get("runs", 1) > 1 else [])
            dead = [a for a in need if not r.coverage.get(a)]
            if dead:
                raise lib.MachineryError("vacuity: action(s) %s never taken in model %s" % (dead, name))
        if name == "freeorder":
            # the demonstration must FAIL: order-freedom is observable on the model
            if r.violation != "Deterministic":
                raise lib.MachineryError("model sanity: with a free application order TLC should find two runs with "
                                         "different outputs (violation=%s error=%s)" % (r.violation, r.error))
            return name, r
        return name, lib.require_ok(r, "Cleaner model " + name)

    models, raw = [], []
    with concurrent.futures.ThreadPoolExecutor(max_workers=3) as ex:
        for name, r in ex.map(one, jobs):
            raw.extend((name, i, line) for i, line in enumerate(r.cases))
            r.cases = []
            models.append(r)
    return models, raw


ALWAYS = ("tok1", "runsexempt")     # replayed completely: every kind x every pair of delimiter classes (tok1) / every
                                    # declaration x configuration x content of <= 2 lines (runsexempt) is hit in every run


def sample_cases(raw, cap, rng):
    """Exhaustive model, VERIF_SEED-determined replay sample when over the cap: the ALWAYS configurations are
    replayed completely, the rest of the cap is shared equally by the other configurations (a small configuration
    is replayed completely, what it does not use goes to the bigger ones)."""
    emitted = len(raw)
    rng.shuffle(raw)
    by = {}
    for x in raw:
        by.setdefault(x[0], []).append(x)
    take = dict((n, len(xs)) for n, xs in by.items() if n in ALWAYS)
    rest = sorted((n for n in by if n not in ALWAYS), key=lambda n: len(by[n]))
    left = max(0, cap - sum(take.values()))
    for i, n in enumerate(rest):
        share = left // (len(rest) - i)
        take[n] = min(len(by[n]), share)
        left -= take[n]
    cases = []
    for n in sorted(by):
        for name, i, line in by[n][:take[n]]:
            c = lib.parse_case(line)
            c["id"] = "%s#%d" % (name, i)
            cases.append(c)
    rng.shuffle(cases)
    return cases, emitted


def long_cases(rng, n):
    """Seeded histories beyond TLC's exhaustive bound (code -> spec direction only): 12-20 distinct originals
    of one kind (or mixed) through ONE cleaner instance, every original recurring."""
    out = []
    for i in range(n):
        N = rng.randint(12, 20)
        kinds = rng.choice([["ip"], ["ip"], ["dom"], ["mac"], ["kw"], ["ip6"], ["ip", "dom", "mac", "kw", "ip6"]])
        seq = []
        for k in kinds:
            ids = list(range(1, N + 1))
            rng.shuffle(ids)
            seen = []
            for x in ids:
                seq.append((k, x))
                seen.append(x)
                while rng.random() < 0.35:
                    seq.append((k, rng.choice(seen)))
        if len(kinds) > 1:
            rng.shuffle(seq)
        for _ in range(rng.randint(0, 4)):
            seq.insert(rng.randrange(len(seq) + 1), (rng.choice(["short", "fqdn", "text"]), 0))
        toks = [dict(k=k, id=x, l=rng.choice(["space", "punct"]), r=rng.choice(["space", "punct"])) for k, x in seq]
        lines = []
        while toks:
            m = rng.randint(1, 3)
            lines.append(toks[:m])
            toks = toks[m:]
        content = []
        while lines:
            m = rng.randint(3, 8)
            content.append(dict(sp=dict(nored=False, noobf=[], width=False, allow=0), lines=lines[:m]))
            lines = lines[m:]
        cf = dict(obf=True, host=True, mac=True, v6="ip6" in kinds, nofqdn=False, dname=False, kws=list(range(1, N + 1)) if "kw" in kinds else [], pats=[],
                  regex=False, sysdom=True, fam="plain")
        out.append(dict(id="long#%d" % i, cf=cf, ord=[], content=content))
    return out


def ckey(c):
    return hashlib.sha1(json.dumps([c["cf"], c["content"]], sort_keys=True).encode()).hexdigest()


def selftest_traces(traces, prop):
    """R5 binding demonstration: corrupt one recorded field of accepted-looking traces; every corrupted
    copy must be REJECTED by CleanerTrace with the expected clause, else the machinery is broken."""
    import copy
    out = []

    def add(t, tag, expect):
        t = copy.deepcopy(t)
        t["id"] = "selftest:%s:%s" % (tag, t["id"])
        t["expect"] = expect
        out.append(t)
        return t
    done = set()
    for t in traces:
        if len(done) >= 4:
            break
        if t["cf"]["fam"] != "plain":
            continue
        if t["mode"] == "lines":
            for i, e in enumerate(t["events"]):
                if e["ev"] == "line" and "leak" not in done and prop != "C09":
                    js = [j for j, o in enumerate(e["obs"]) if o["st"] in ("sub", "other") and e["toks"][j]["k"] in ("kw", "pw")]
                    if js:
                        m = add(t, "leak", "NoLeak")
                        m["events"][i]["obs"][js[0]] = {"st": "kept", "v": 0}
                        done.add("leak")
                        break
                if e["ev"] == "line" and "cons" not in done and prop == "C09":
                    js = [j for j, o in enumerate(e["obs"]) if o["st"] == "sub" and e["toks"][j]["k"] in ("ip", "mac", "dom")]
                    later = [k for k in range(i + 1, len(t["events"])) if t["events"][k]["ev"] == "line" and any(
                        x["k"] == e["toks"][j]["k"] and x["id"] == e["toks"][j]["id"] and o2["st"] == "sub"
                        for j in js for x, o2 in zip(t["events"][k]["toks"], t["events"][k]["obs"]))]
                    if js and later:
                        m = add(t, "cons", "Consistent")
                        for o in m["events"][i]["obs"]:
                            if o["st"] == "sub":
                                o["v"] += 1000
                        done.add("cons")
                        break
                if e["ev"] == "endspec" and len(e["out"]) >= 2 and e["out"][0]["src"] != e["out"][1]["src"] and "prov" not in done:
                    m = add(t, "prov", "ProvenanceMonotone")
                    m["events"][i]["out"][0], m["events"][i]["out"][1] = m["events"][i]["out"][1], m["events"][i]["out"][0]
                    done.add("prov")
                    break
                if e["ev"] == "report" and e["maps"] and "rep" not in done and prop == "C09":
                    ks = [k for k, x in enumerate(e["maps"]) if x["k"] in ("ip", "dom", "mac") and x["g"] != "kw"]
                    if ks and any(ev["ev"] == "line" and any(o["st"] == "sub" and tk["k"] == e["maps"][ks[0]]["k"] and
                                                              tk["id"] == e["maps"][ks[0]]["id"]
                                                              for tk, o in zip(ev["toks"], ev["obs"])) for ev in t["events"][:i]):
                        m = add(t, "rep", "ReportExact")
                        m["events"][i]["maps"][ks[0]]["v"] += 1000
                        done.add("rep")
                        break
        else:
            runs = [e for e in t["events"] if e["ev"] == "run"]
            if len(runs) >= 2 and runs[1]["specs"] and runs[1]["specs"][0]["sig"] and "det" not in done:
                m = add(t, "det", "Deterministic")
                [e for e in m["events"] if e["ev"] == "run"][1]["specs"][0]["sig"][0] += 1000
                done.add("det")
            if runs and len(runs[0]["specs"][0]["out"]) >= 2 and "prov" not in done and \
                    runs[0]["specs"][0]["out"][0]["src"] != runs[0]["specs"][0]["out"][1]["src"]:
                m = add(t, "prov", "ProvenanceMonotone")
                o = m["events"][0]["specs"][0]["out"]
                o[0], o[1] = o[1], o[0]
                done.add("prov")
    return out


def run(prop, tier):
    rng = random.Random(lib.seed())
    plan = PLAN[prop][tier]
    t0 = time.time()
    verdict = lib.Verdict(prop, tier)
    models, raw = run_models(prop, tier, plan)
    cases, emitted = sample_cases(raw, plan["cap"], rng)
    del raw
    if plan.get("long"):
        cases += long_cases(rng, plan["long"])
    print("timing: models %.1fs, %d cases emitted, %d replayed" % (time.time() - t0, emitted, len(cases)))
    t1 = time.time()
    tmp = lib.subdir("cleaner-tmp")
    extra = {}
    if prop in ("C08", "C09"):
        payloads = [dict(mode="lines", prop=prop, cases=ch, nconc=plan["nconc"], seed=lib.seed(), paths=plan["paths"],
                         tmp=os.path.join(tmp, "w%d" % i), facts=(prop == "C09"))
                    for i, ch in enumerate(lib.chunks(cases, lib.NCPU))]
        outs = lib.run_driver_parallel("drive_cleaner.py", payloads, hashseeds=list(range(0, 64)), timeout=2400)
        traces, stats = [], {}
        for o in outs:
            traces.extend(o["traces"])
            for k, v in o["stats"].items():
                stats[k] = stats.get(k, 0) + v
        extra["token_observations"] = stats
        vacuous = [st for st in ("kept", "sub", "dropped") if not stats.get(st) and (st != "dropped" or prop == "C08")]
    else:
        for c in cases:
            c["paths"] = ["content", "provider"]
            if any(sp["sp"]["allow"] for sp in c["content"]):
                c["paths"] = ["content", "filterprovider"]
            if c["cf"]["fam"] == "vt":
                c["paths"] = ["content", "file"]
            if any(len(sp["sp"]["noobf"]) >= 5 for sp in c["content"]):
                # a declaration that exempts (nearly) everything: also through a registry point that carries it
                c["paths"] = ["content", "provider", "specprovider"]
        K = plan["seeds"]
        payload = dict(mode="runs", cases=cases, seed=lib.seed(), tmp=tmp)
        payloads = []
        for k in range(K):
            p = dict(payload)
            p["tmp"] = os.path.join(tmp, "hs%d" % k)
            p["repeat"] = k < 4         # the first four child interpreters also repeat every case in-process
            payloads.append(p)
        outs = lib.run_driver_parallel("drive_cleaner.py", payloads, hashseeds=list(range(K)), timeout=2400)
        traces = []
        orders_seen = set()
        for c in cases:
            ids = {}
            events = []
            for k, o in enumerate(outs):
                # every child interpreter cleans the case several times: fresh Cleaner, same process, the caller's objects reused
                for ri, r in enumerate(o["runs"][c["id"]]["reps"]):
                    specs = []
                    for s in r["specs"]:
                        sig = [ids.setdefault(t, len(ids) + 1) for t in s["texts"]]
                        for od in s["orders"]:
                            orders_seen.add(tuple(od))
                        specs.append(dict(path=s["path"], si=s["si"], orders=s["orders"], out=s["out"], sig=sig,
                                          stored=s["stored"], raised=s["raised"], mutated=s["mutated"]))
                    events.append(dict(ev="run", hs=k, rep=ri, specs=specs))
            events.append(dict(ev="endruns"))
            traces.append(dict(id=c["id"] + "/runs", mode="runs", prop=prop, cf=c["cf"], special=[], content=c["content"],
                               events=events,
                               concrete=dict(input=outs[0]["runs"][c["id"]]["reps"][0]["specs"][0]["input"],
                                             outputs=sorted(set(json.dumps(r["specs"][0]["texts"]) for o in outs
                                                                for r in o["runs"][c["id"]]["reps"]))[:4])))
        extra["hash_seeds"] = K
        extra["distinct_application_orders_observed"] = len(orders_seen)
        vacuous = [] if orders_seen else ["application order"]
    print("timing: drivers %.1fs, %d traces" % (time.time() - t1, len(traces)))
    t1 = time.time()
    st = selftest_traces(traces, prop)
    val = lib.validate_traces("CleanerTrace", "CleanerTrace.cfg", traces + st)
    rej = dict((r["id"], r) for r in val["rejected"])
    nst = 0
    for t in st:
        if t["id"].split(":", 2)[2] in rej:
            continue        # the uncorrupted trace is itself rejected (a finding): not a usable base
        nst += 1
        r = rej.get(t["id"])
        if r is None or not r["clause"].startswith(t["expect"]):
            raise lib.MachineryError("self-test: corrupted trace %s should be rejected by %s, got %s"
                                     % (t["id"], t["expect"], r and r["clause"]))
    if not nst and not [r for r in val["rejected"] if not r["id"].startswith("selftest:")]:
        raise lib.MachineryError("self-test: no trace could be corrupted (nothing observed?)")
    val["rejected"] = [r for r in val["rejected"] if not r["id"].startswith("selftest:")]
    val["traces"] -= len(st)
    extra["selftest_corrupted_traces_rejected"] = sorted(t["id"].split(":")[1] for t in st)
    print("timing: validation %.1fs (%d events, %d JVMs)" % (time.time() - t1, val["events"], val["jvms"]))

    bycase = dict((c["id"], c) for c in cases)
    bytrace = dict((t["id"], t) for t in traces)
    other = {}
    for rj in val["rejected"]:
        t = bytrace[rj["id"]]
        clause = rj["clause"]
        own = prop if clause.startswith("Raised") else owner(clause)
        if own is None:
            raise lib.MachineryError("trace %s rejected by the non-property clause %s at event %d"
                                     % (t["id"], clause, rj["line"]))
        if own != prop:
            other[clause] = other.get(clause, 0) + 1
            continue
        case = bycase[t["id"].split("/")[0]]
        what = "trace %s rejected at event %d: clause %s; input %s" % (
            t["id"], rj["line"], clause, json.dumps(t.get("concrete"))[:600])
        verdict.reject(lib.sig(prop, *clause.split(":")), what,
                       dict(case=case, trace=t, rejected=rj, seed=lib.seed(), tier=tier))
    if vacuous and not val["rejected"]:
        raise lib.MachineryError("vacuity: the driver never observed %s" % ", ".join(vacuous))
    for cl, n in sorted(other.items()):
        print("note: %d trace(s) rejected by clause %s which belongs to %s (not decided by this check)"
              % (n, cl, owner(cl)))

    extra["kind_x_delimiter_classes_replayed"] = len(set((t["k"], t["l"], t["r"]) for c in cases for sp in c["content"]
                                                       for ln in sp["lines"] for t in ln))
    if prop == "C08" and extra["kind_x_delimiter_classes_replayed"] < len(ALLK) * len(ALLD) ** 2:
        raise lib.MachineryError("vacuity: only %d of %d kind x delimiter-class combinations were replayed"
                                 % (extra["kind_x_delimiter_classes_replayed"], len(ALLK) * len(ALLD) ** 2))
    nt = len(set(ckey(c) for c in cases if nontrivial(c, prop)))
    samples = [dict(case=dict(cf=c["cf"], content=c["content"])) for c in cases[:2]]
    for t in traces[:2]:
        samples.append(dict(trace_id=t["id"], concrete=t.get("concrete"), events=t["events"][:3]))
    ev = lib.evidence(
        prop, tier, models, val, evaluations=len(traces), distinct_nontrivial=nt,
        rule="cases = every configuration x content TLC explored in the listed exhaustive configurations of "
             "specs/Cleaner.tla (sampled by VERIF_SEED down to the tier's cap); each is concretised (several "
             "concretisations per case) and executed by the real Cleaner; distinct_nontrivial = distinct abstract "
             "cases in which the property decides something (C08: a token that must be hidden under the case's "
             "switches; C09: at least two mapped occurrences; C10: at least two lines)",
        samples=samples, assumptions=ASSUMPTIONS,
        extra=dict(configs=plan["emit"] + plan["model"], cases_emitted=emitted, cases_replayed=len(cases),
                   invariants_checked_on_model=INVS + ["Consistent"], other_property_rejections=other,
                   exhaustive=False, **extra))
    return verdict.finish(ev)


def replay(prop, path):
    """./check Cxx --replay <file>: re-execute the recorded case against the current tree and re-validate it."""
    with open(path) as f:
        rec = json.load(f)
    rp = rec["replay"]
    case, tid = rp["case"], rp["trace"]["id"]
    seed = rp.get("seed", 0)
    tmp = lib.subdir("cleaner-replay")
    print("recorded: %s\n  %s" % (rec["signature"], rec["what"][:800]))
    if rp["trace"]["mode"] == "lines":
        _, j, pth = tid.rsplit("/", 2)
        out = lib.run_driver("drive_cleaner.py", dict(mode="lines", prop=prop, cases=[case], nconc=int(j) + 1, seed=seed,
                                                      paths=[pth], tmp=tmp, facts=(prop == "C09")))
        traces = [t for t in out["traces"] if t["id"] == tid]
    else:
        K = 16 if rp.get("tier", "quick") == "quick" else 64
        case["paths"] = ["content", "filterprovider" if any(sp["sp"].get("allow") for sp in case["content"]) else "provider"]
        if any(len(sp["sp"]["noobf"]) >= 5 for sp in case["content"]):
            case["paths"] = ["content", "provider", "specprovider"]
        outs = lib.run_driver_parallel("drive_cleaner.py", [dict(mode="runs", cases=[case], seed=seed, repeat=k < 4,
                                                                 tmp=os.path.join(tmp, "hs%d" % k)) for k in range(K)],
                                       hashseeds=list(range(K)))
        ids, events = {}, []
        for k, o in enumerate(outs):
            for ri, r in enumerate(o["runs"][case["id"]]["reps"]):
                specs = [dict(path=s["path"], si=s["si"], orders=s["orders"], out=s["out"], stored=s["stored"],
                              raised=s["raised"], mutated=s["mutated"],
                              sig=[ids.setdefault(t, len(ids) + 1) for t in s["texts"]]) for s in r["specs"]]
                events.append(dict(ev="run", hs=k, rep=ri, specs=specs))
        events.append(dict(ev="endruns"))
        traces = [dict(id=tid, mode="runs", prop=prop, cf=case["cf"], special=[], content=case["content"], events=events)]
    val = lib.validate_traces("CleanerTrace", "CleanerTrace.cfg", traces, jobs=1)
    if val["rejected"]:
        for r in val["rejected"]:
            print("REPRODUCED: trace %s rejected at event %d by clause %s" % (r["id"], r["line"], r["clause"]))
        print(json.dumps(traces[0].get("concrete", traces[0]["events"][:3]))[:1500])
        return 1
    print("not reproduced on the current tree: the trace is accepted")
    return 0
