"""C08-C10: the spec cleaner.  Model: specs/Cleaner.tla (+ CleanerMC emission),
trace validation: specs/CleanerTrace.tla, driver: harness/drive_cleaner.py."""
import concurrent.futures
import hashlib
import json
import os
import random
import time

import lib

INVS = ["NoLeak", "PatternDrops", "Rewritten", "Injective", "ReportExact", "NoPhantom",
        "ProvenanceMonotone", "BlankCollapses", "OneOrder", "Deterministic"]
OWNER = [("NoLeak", "C08"), ("PatternDrops", "C08"),
         ("Consistent", "C09"), ("Injective", "C09"), ("ReportExact", "C09"), ("NoPhantom", "C09"),
         ("ProvenanceMonotone", "C10"), ("BlankCollapses", "C10"), ("OneOrder", "C10"), ("Deterministic", "C10")]
ALLK = ["text", "ip", "loop", "short", "fqdn", "dom", "mac", "nullmac", "kw", "pat", "pw"]
ALLD = ["edge", "space", "punct", "word", "same"]


def owner(clause):
    for pre, p in OWNER:
        if clause.startswith(pre):
            return p
    return None


def cfg_text(c, emit=True, invs=INVS, prop=True):
    def sset(xs):
        return "{" + ", ".join('"%s"' % x for x in xs) + "}"

    def bset(xs):
        return "{" + ", ".join("TRUE" if x else "FALSE" for x in xs) + "}"

    def nsets(xss):
        return "{" + ", ".join("{" + ", ".join(str(x) for x in xs) + "}" for xs in xss) + "}"

    def ssets(xss):
        return "{" + ", ".join(sset(xs) for xs in xss) + "}"
    lines = ["SPECIFICATION Spec", "CONSTANTS",
             "  Kinds = %s" % sset(c.get("kinds", ALLK)),
             "  NIp = %d" % c.get("nip", 1), "  NDom = %d" % c.get("ndom", 1), "  NMac = %d" % c.get("nmac", 1),
             "  NKw = %d" % c.get("nkw", 1), "  NPat = %d" % c.get("npat", 1),
             "  DelSet = %s" % sset(c.get("dels", ["space"])),
             "  MaxTok = %d" % c.get("tok", 1), "  MaxLines = %d" % c.get("lines", 1),
             "  MaxSpecs = %d" % c.get("specs", 1), "  TotLines = %d" % c.get("tot", c.get("lines", 1)),
             "  ObfSet = %s" % bset(c.get("obf", [True])), "  HostSet = %s" % bset(c.get("host", [True])),
             "  MacSet = %s" % bset(c.get("mac", [True])),
             "  KwSets = %s" % nsets(c.get("kws", [[1]])), "  PatSets = %s" % nsets(c.get("pats", [[]])),
             "  RegexSet = %s" % bset(c.get("regex", [False])), "  SysDomSet = %s" % bset(c.get("sysdom", [True])),
             "  NoRedSet = %s" % bset(c.get("nored", [False])), "  NoObfSets = %s" % ssets(c.get("noobf", [[]])),
             "  FamSet = %s" % sset(c.get("fam", ["plain"])),
             "  AllowBlank = %s" % ("TRUE" if c.get("blank") else "FALSE"),
             "  Runs = %d" % c.get("runs", 1),
             "  AllOrders = %s" % ("TRUE" if c.get("allorders") else "FALSE"),
             "  FreeOrder = %s" % ("TRUE" if c.get("freeorder") else "FALSE")]
    lines += ["INVARIANT %s" % i for i in invs]
    if prop:
        lines.append("PROPERTY Consistent")
    if emit:
        lines.append("CONSTRAINT Emit")
    lines.append("CHECK_DEADLOCK FALSE")
    return "\n".join(lines) + "\n"


EXEMPT = [[], ["ip", "mac"], ["hostname", "keyword", "password"]]
CONFIGS = {
    # C08 ---------------------------------------------------------------------------------
    # every kind x every pair of delimiter classes x every switch vector, one token
    "tok1": dict(dels=ALLD, obf=[True, False], host=[True, False], mac=[True, False], pats=[[1]]),
    # every configuration dimension and per-spec exemption, delimited tokens
    "switch1": dict(dels=["edge", "punct"], obf=[True, False], host=[True, False], mac=[True, False],
                    kws=[[], [1]], pats=[[], [1]], regex=[False, True], sysdom=[True, False],
                    nored=[False, True], noobf=EXEMPT),
    # two tokens on one line (repeats, mixed kinds, prefix addresses), plain and regex patterns
    "pair": dict(dels=["space", "punct"], tok=2, nip=2, pats=[[], [1]], regex=[False, True],
                 fam=["plain", "prefix"]),
    "pairx": dict(dels=["edge", "word", "same"], tok=2, kinds=["text", "ip", "short", "dom", "mac", "kw", "pw"],
                  pats=[[]]),
    # thorough: three tokens
    "triple": dict(dels=["space"], tok=3, nip=2, nkw=2, kws=[[1, 2]], pats=[[1]], regex=[False, True],
                   fam=["plain", "prefix"]),
    "triplep": dict(dels=["punct"], tok=3, kinds=["text", "ip", "fqdn", "dom", "mac", "kw", "pw"], pats=[[]]),
    # all application orders on the model (no emission: the order is not an input of the code)
    "orders": dict(dels=["edge", "word"], tok=1, allorders=True, pats=[[1]], noobf=EXEMPT,
                   fam=["plain", "kwdom", "pwip"]),
    # C09 ---------------------------------------------------------------------------------
    "hist2": dict(kinds=["ip", "short", "fqdn", "dom", "mac"], nip=2, ndom=2, nmac=2, tok=2, lines=2, specs=2, tot=2,
                  kws=[[]], fam=["plain", "collide", "suffix"]),
    "hist2x": dict(kinds=["ip", "fqdn", "dom", "mac", "kw", "text"], nip=2, ndom=2, nmac=1, tok=2, lines=2, specs=2, tot=2,
                   kws=[[1]], noobf=[[], ["ip", "hostname"]], fam=["plain"], sysdom=[True, False]),
    "hist3ip": dict(kinds=["ip"], nip=3, tok=3, lines=3, specs=3, tot=3, kws=[[]], fam=["plain", "collide", "prefix"]),
    "hist3host": dict(kinds=["short", "fqdn", "dom"], ndom=3, tok=2, lines=3, specs=3, tot=3, kws=[[]],
                      fam=["plain", "collide", "suffix"]),
    "hist3mac": dict(kinds=["mac", "ip"], nmac=2, nip=1, tok=2, lines=3, specs=3, tot=3, kws=[[]],
                     fam=["plain", "collide"]),
    # C10 ---------------------------------------------------------------------------------
    "runs3": dict(kinds=["text", "kw", "pat", "fqdn", "dom", "pw", "ip"], tok=1, lines=3, blank=True, pats=[[1]],
                  nored=[False, True], fam=["plain", "kwdom", "pwip"], runs=2),
    "runs2x2": dict(kinds=["text", "kw", "pat", "fqdn", "pw", "ip"], tok=2, lines=2, blank=True, pats=[[1]],
                    fam=["kwdom", "pwip"], runs=2),
    "runs4": dict(kinds=["text", "pat", "fqdn", "pw"], tok=1, lines=4, blank=True, pats=[[1]],
                  nored=[False, True], fam=["plain", "kwdom", "pwip"], runs=2),
    # every order, two runs: OneOrder / Deterministic on the model
    "ordruns": dict(kinds=["kw", "fqdn", "pw", "pat"], tok=1, lines=1, blank=True, pats=[[1]],
                    fam=["plain", "kwdom", "pwip"], runs=2, allorders=True),
    # demonstration: if every run may choose its own order, the output is not a function of the input
    "freeorder": dict(kinds=["fqdn", "pw"], tok=1, lines=1, fam=["kwdom", "pwip"], runs=2, allorders=True,
                      freeorder=True),
}

PLAN = {
    "C08": dict(quick=dict(emit=["tok1", "switch1", "pair", "pairx"], model=["orders"], cap=7000, nconc=3,
                           paths=["content"]),
                thorough=dict(emit=["tok1", "switch1", "pair", "pairx", "triple", "triplep"], model=["orders"],
                              cap=60000, nconc=10, paths=["content", "content", "file", "provider", "fileprovider"])),
    "C09": dict(quick=dict(emit=["hist2", "hist2x"], model=[], cap=7000, nconc=2, paths=["content"]),
                thorough=dict(emit=["hist2", "hist2x", "hist3ip", "hist3host", "hist3mac"], model=[], cap=60000,
                              nconc=4, paths=["content", "content", "provider", "file"])),
    "C10": dict(quick=dict(emit=["runs3"], model=["ordruns"], cap=500, seeds=16),
                thorough=dict(emit=["runs3", "runs2x2", "runs4"], model=["ordruns"], cap=2500, seeds=64)),
}

ASSUMPTIONS = [
    "token values are sampled per case from VERIF_SEED underneath the abstract kinds / delimiter classes TLC enumerates; "
    "alphabets of the plain family cannot collide with any substitute the obfuscators issue",
    "readings of DESIGN.md C08-C10 (delimiter condition also for IPv4; ':' '-' '.digit' neighbours mean not delimited; "
    "documented password separators; case-sensitive host names; blank = empty line)",
    "IPv6 obfuscation and the fixed-width (netstat) mode are not modelled; obfuscate_ipv6 stays off",
    "the regular-expression engine, hashlib and the file system are trusted",
    "bounds: exhaustive only inside the listed TLC configurations; the replay is a VERIF_SEED-determined sample when "
    "the emitted cases exceed the tier's cap",
]


def case_features(case):
    kinds = set()
    for s in case["content"]:
        for ln in s["lines"]:
            for t in ln:
                kinds.add(t["k"])
    return kinds


def nontrivial(case, prop):
    """a case in which the property has something to decide"""
    cf = case["cf"]
    ks = case_features(case)
    if prop == "C08":
        return bool((cf["kws"] and "kw" in ks) or (cf["pats"] and "pat" in ks) or "pw" in ks or
                    (cf["obf"] and ks & {"ip", "short", "fqdn", "dom", "mac"}))
    if prop == "C09":
        n = sum(1 for s in case["content"] for ln in s["lines"] for t in ln if t["k"] in ("ip", "short", "fqdn", "dom", "mac"))
        return n >= 2
    return sum(len(s["lines"]) for s in case["content"]) >= 2


def run_models(prop, tier, plan):
    gen = lib.subdir("gencfg")
    jobs = []
    for name in plan["emit"]:
        p = os.path.join(gen, "CleanerMC_%s.cfg" % name)
        with open(p, "w") as f:
            f.write(cfg_text(CONFIGS[name], True))
        jobs.append((name, "CleanerMC", p, True))
    for name in plan["model"]:
        p = os.path.join(gen, "Cleaner_%s.cfg" % name)
        with open(p, "w") as f:
            f.write(cfg_text(CONFIGS[name], False))
        jobs.append((name, "Cleaner", p, False))
    if prop == "C10":
        p = os.path.join(gen, "Cleaner_freeorder.cfg")
        with open(p, "w") as f:
            f.write(cfg_text(CONFIGS["freeorder"], False, invs=["Deterministic"], prop=False))
        jobs.append(("freeorder", "Cleaner", p, False))

    def one(job):
        name, mod, p, emit = job
        r = lib.run_tlc(mod, p, workers=max(2, lib.NCPU // 3), tag="cl-" + name, timeout=2400, raw_cases=True,
                        coverage=(tier == "thorough" and not emit))
        if name == "freeorder":
            # the demonstration must FAIL: order-freedom is observable on the model
            if r.violation != "Deterministic":
                raise lib.MachineryError("model sanity: with a free application order TLC should find two runs with "
                                         "different outputs (violation=%s error=%s)" % (r.violation, r.error))
            return name, r
        return name, lib.require_ok(r, "Cleaner model " + name)

    models, raw = [], []
    with concurrent.futures.ThreadPoolExecutor(max_workers=3) as ex:
        for name, r in ex.map(one, jobs):
            raw.extend((name, i, line) for i, line in enumerate(r.cases))
            r.cases = []
            models.append(r)
    return models, raw


def sample_cases(raw, cap, rng):
    emitted = len(raw)
    rng.shuffle(raw)
    cases = []
    for name, i, line in raw[:cap]:
        c = lib.parse_case(line)
        c["id"] = "%s#%d" % (name, i)
        cases.append(c)
    return cases, emitted


def ckey(c):
    return hashlib.sha1(json.dumps([c["cf"], c["content"]], sort_keys=True).encode()).hexdigest()


def run(prop, tier):
    rng = random.Random(lib.seed())
    plan = PLAN[prop][tier]
    t0 = time.time()
    verdict = lib.Verdict(prop, tier)
    models, raw = run_models(prop, tier, plan)
    cases, emitted = sample_cases(raw, plan["cap"], rng)
    del raw
    print("timing: models %.1fs, %d cases emitted, %d replayed" % (time.time() - t0, emitted, len(cases)))
    t1 = time.time()
    tmp = lib.subdir("cleaner-tmp")
    extra = {}
    if prop in ("C08", "C09"):
        payloads = [dict(mode="lines", cases=ch, nconc=plan["nconc"], seed=lib.seed(), paths=plan["paths"],
                         tmp=os.path.join(tmp, "w%d" % i), facts=(prop == "C09"))
                    for i, ch in enumerate(lib.chunks(cases, lib.NCPU))]
        outs = lib.run_driver_parallel("drive_cleaner.py", payloads, hashseeds=list(range(0, 64)), timeout=2400)
        traces, stats = [], {}
        for o in outs:
            traces.extend(o["traces"])
            for k, v in o["stats"].items():
                stats[k] = stats.get(k, 0) + v
        extra["token_observations"] = stats
        vacuous = [st for st in ("kept", "sub", "dropped") if not stats.get(st) and (st != "dropped" or prop == "C08")]
    else:
        for c in cases:
            c["paths"] = ["content", "provider"]
        K = plan["seeds"]
        payload = dict(mode="runs", cases=cases, seed=lib.seed(), tmp=tmp)
        payloads = []
        for k in range(K):
            p = dict(payload)
            p["tmp"] = os.path.join(tmp, "hs%d" % k)
            payloads.append(p)
        outs = lib.run_driver_parallel("drive_cleaner.py", payloads, hashseeds=list(range(K)), timeout=2400)
        traces = []
        orders_seen = set()
        for c in cases:
            ids = {}
            events = []
            for k, o in enumerate(outs):
                r = o["runs"][c["id"]]
                specs = []
                for s in r["specs"]:
                    sig = [ids.setdefault(t, len(ids) + 1) for t in s["texts"]]
                    for od in s["orders"]:
                        orders_seen.add(tuple(od))
                    specs.append(dict(path=s["path"], si=s["si"], orders=s["orders"], out=s["out"], sig=sig,
                                      stored=s["stored"], raised=s["raised"]))
                events.append(dict(ev="run", hs=k, specs=specs))
            traces.append(dict(id=c["id"] + "/runs", mode="runs", cf=c["cf"], special=[], content=c["content"],
                               events=events,
                               concrete=dict(input=outs[0]["runs"][c["id"]]["specs"][0]["input"],
                                             outputs=sorted(set(json.dumps(o["runs"][c["id"]]["specs"][0]["texts"])
                                                                for o in outs))[:4])))
        extra["hash_seeds"] = K
        extra["distinct_application_orders_observed"] = len(orders_seen)
        vacuous = [] if orders_seen else ["application order"]
    print("timing: drivers %.1fs, %d traces" % (time.time() - t1, len(traces)))
    t1 = time.time()
    val = lib.validate_traces("CleanerTrace", "CleanerTrace.cfg", traces)
    print("timing: validation %.1fs (%d events, %d JVMs)" % (time.time() - t1, val["events"], val["jvms"]))

    bycase = dict((c["id"], c) for c in cases)
    bytrace = dict((t["id"], t) for t in traces)
    other = {}
    for rj in val["rejected"]:
        t = bytrace[rj["id"]]
        clause = rj["clause"]
        own = owner(clause)
        if own is None:
            raise lib.MachineryError("trace %s rejected by the non-property clause %s at event %d"
                                     % (t["id"], clause, rj["line"]))
        if own != prop:
            other[clause] = other.get(clause, 0) + 1
            continue
        case = bycase[t["id"].split("/")[0]]
        what = "trace %s rejected at event %d: clause %s; input %s" % (
            t["id"], rj["line"], clause, json.dumps(t.get("concrete"))[:600])
        verdict.reject(lib.sig(prop, *clause.split(":")), what, dict(case=case, trace=t, rejected=rj))
    if vacuous and not val["rejected"]:
        raise lib.MachineryError("vacuity: the driver never observed %s" % ", ".join(vacuous))
    for cl, n in sorted(other.items()):
        print("note: %d trace(s) rejected by clause %s which belongs to %s (not decided by this check)"
              % (n, cl, owner(cl)))

    nt = len(set(ckey(c) for c in cases if nontrivial(c, prop)))
    samples = [dict(case=dict(cf=c["cf"], content=c["content"])) for c in cases[:2]]
    for t in traces[:2]:
        samples.append(dict(trace_id=t["id"], concrete=t.get("concrete"), events=t["events"][:3]))
    ev = lib.evidence(
        prop, tier, models, val, evaluations=len(traces), distinct_nontrivial=nt,
        rule="cases = every configuration x content TLC explored in the listed exhaustive configurations of "
             "specs/Cleaner.tla (sampled by VERIF_SEED down to the tier's cap); each is concretised (several "
             "concretisations per case) and executed by the real Cleaner; distinct_nontrivial = distinct abstract "
             "cases in which the property decides something (C08: a token that must be hidden under the case's "
             "switches; C09: at least two mapped occurrences; C10: at least two lines)",
        samples=samples, assumptions=ASSUMPTIONS,
        extra=dict(configs=plan["emit"] + plan["model"], cases_emitted=emitted, cases_replayed=len(cases),
                   invariants_checked_on_model=INVS + ["Consistent"], other_property_rejections=other,
                   exhaustive=False, **extra))
    return verdict.finish(ev)
