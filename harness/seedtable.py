#!/usr/bin/env python3
"""Regenerate the seeded-changes table of DESIGN.md (section 9.5) from seeded/*/meta.json."""
import json
import os
import re

HERE = os.path.dirname(os.path.dirname(os.path.abspath(__file__)))
rows = []
for name in sorted(os.listdir(os.path.join(HERE, "seeded"))):
    mp = os.path.join(HERE, "seeded", name, "meta.json")
    if not os.path.exists(mp):
        continue
    m = json.load(open(mp))
    v = m.get("verification", {})
    hist = m.get("verification_history", [])
    sigs = [l.strip().replace("signature: ", "") for l in v.get("check_lines", []) if "signature" in l][:2]
    det = "yes" if v.get("detected") else ("NO" if v.get("check_rc") == 0 else "machinery rc=%s" % v.get("check_rc"))
    by = m.get("detected_by") or (m.get("property") if v.get("detected") else "-")
    first = "" if len(hist) < 2 else (" (first run: %s)" % ("detected" if hist[0].get("detected") else "missed"))
    summ = (m.get("summary") or "").replace("|", "/").replace("\n", " ")
    if len(summ) > 230:
        summ = summ[:227] + "..."
    rows.append("| %s | %s | %s | %s | %s%s | %s | %s |" % (
        name, m.get("property"), summ, "yes" if v.get("confirmed") else "see meta", det, first, by,
        "<br>".join("`%s`" % s for s in sigs) or m.get("note", "")))
table = ("| id | property | change | confirmed | detected (quick tier) | by check | signature / note |\n"
         "|----|----------|--------|-----------|-----------------------|----------|------------------|\n" + "\n".join(rows))
p = os.path.join(HERE, "DESIGN.md")
s = open(p).read()
s = re.sub(r"<!-- SEEDTABLE:BEGIN -->.*?<!-- SEEDTABLE:END -->",
           "<!-- SEEDTABLE:BEGIN -->\n" + table.replace("\\", "\\\\") + "\n<!-- SEEDTABLE:END -->", s, flags=re.S)
open(p, "w").write(s)
print("%d seeded changes" % len(rows))
