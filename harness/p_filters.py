"""C07: filtered specs keep exactly the lines that match a registered filter.
Model: specs/Filters.tla (+ FiltersMC emission), trace validation: specs/FiltersTrace.tla,
driver: harness/drive_filters.py."""
import concurrent.futures
import copy
import json
import os
import random
import time

import lib

ALLC = ["I1", "I2", "P", "I3", "P2", "Q1", "Q2", "K"]
INF = 10000
HOST_PATHS = ["host-file", "host-cmd", "host-write"]
# "serialized": the group of multi-output / serialized-archive paths of the driver (archive-glob, host-glob,
# serialized-file, serialized-glob)
PATHS = HOST_PATHS + ["archive", "cleaner", "helper", "serialized"]

HIST_INV = ["LookupIsUnionInv", "TableIsUnion", "LookupBudgetsInv"]
CONTENT_INV = ["Subsequence", "KeptLinesMatch", "LastMatchKept", "DroppedOnlyWhenBudgetSpent",
               "NoFilterNoHostCollection"]


def tset(xs):
    def one(x):
        if isinstance(x, (list, tuple, set, frozenset)):
            return "{" + ", ".join(one(y) for y in sorted(x)) + "}"
        if isinstance(x, str):
            return '"%s"' % x
        return str(x)
    return "{" + ", ".join(one(x) for x in xs) + "}"


def cfg_text(spec, c, invariants=(), props=(), constraint=None, view=None):
    lines = ["SPECIFICATION %s" % spec, "CONSTANTS",
             "  NP = %d" % c.get("np", 2), "  BudSet = %s" % tset(c.get("bud", [1])),
             "  Depth = %d" % c.get("depth", 0), '  CacheRule = "%s"' % c.get("cache", "none"),
             "  AddSet = %s" % tset(c.get("add", ALLC)), "  GetSet = %s" % tset(c.get("get", ["I1", "I2", "P", "D1", "D0"])),
             "  PatSets = %s" % tset([tuple(p) for p in c.get("pats", [[1]])]),
             "  MaxLines = %d" % c.get("maxlines", 0), "  CBudSet = %s" % tset(c.get("cbud", [0])),
             "  PathSet = %s" % tset(c.get("paths", ["archive"]))]
    lines += ["INVARIANT %s" % i for i in invariants]
    lines += ["PROPERTY %s" % p for p in props]
    if constraint:
        lines.append("CONSTRAINT %s" % constraint)
    if view:
        lines.append("VIEW %s" % view)
    lines.append("CHECK_DEADLOCK FALSE")
    return "\n".join(lines) + "\n"


MPATHS = ["archive", "cleaner", "host", "helper", "serialized", "serialized-multi"]
PLAN = dict(
    quick=dict(
        # requirement vs table + cache (whole-cache invalidation): every interleaving to depth 5
        hist=[dict(np=2, bud=[1], depth=5, cache="all", pats=[[1], [2]])],
        # the code's invalidation rule: TLC must find the stale look-up
        stale=dict(np=2, bud=[1], depth=5, cache="self", pats=[[1], [2], [0]]),
        emit=dict(np=1, bud=[1], depth=3, cache="none", pats=[[1]]),
        content=[dict(np=2, maxlines=4, cbud=[0, 1, 2, INF], paths=MPATHS)],
        nsim=1200, hist_cap=3500, nrand_hist=700, content_cap=1100, nrand_content=350, tests_cases=120,
        grep_every=4, selftest=16),
    thorough=dict(
        hist=[dict(np=2, bud=[1], depth=7, cache="all", pats=[[1], [2], [0]]),
              dict(np=2, bud=[1, 2], depth=4, cache="all", pats=[[1], [2], [1, 2]])],
        stale=dict(np=2, bud=[1], depth=5, cache="self", pats=[[1], [2], [0]]),
        emit=dict(np=2, bud=[1], depth=3, cache="none", pats=[[1], [2]], get=["I1", "I2", "P", "I3", "D1", "D0"]),
        content=[dict(np=2, maxlines=5, cbud=[0, 1, 2, INF], paths=MPATHS),
                 dict(np=3, maxlines=3, cbud=[0, 1, 2, INF], paths=MPATHS)],
        nsim=40000, hist_cap=50000, nrand_hist=12000, content_cap=16000, nrand_content=5000, tests_cases=1500,
        grep_every=2, selftest=80),
)
SIM = dict(np=3, bud=[0, 1, 2, INF], depth=8, cache="all", get=["I1", "I2", "P", "I3", "P2", "D1", "D0", "D0"],
           add=ALLC + ["D1"],
           pats=[[1], [2], [3], [1, 2], [2, 3], [0], [0, 1], []])

ASSUMPTIONS = [
    "filter strings are single-line, non-empty and drawn from pools with regular-expression metacharacters, leading "
    "dashes, blanks, quotes, shell characters and non-ASCII text; lines are separated by \\n only and contain no "
    "other character that str.splitlines treats as a line boundary (\\r, \\x0b, \\x0c, \\x1c-\\x1e, \\x85, U+2028/9), "
    "no NUL, nothing the always-on password obfuscation rewrites",
    "component graph family: two implementations of a filterable spec, a second spec (filterable or not) with one "
    "implementation, two parsers and a combiner built on them in every combination or on one parser and the second "
    "spec directly (mixed dependency levels); no datasource that depends on "
    "a filterable datasource other than its registry point",
    "the look-up requirement compares filter STRINGS; for budgets only 'a budget that was registered for that "
    "string' is required (the statement does not say which budget wins)",
    "DroppedOnlyWhenBudgetSpent is read per filter: a dropped matching line has, for EVERY registered filter it "
    "contains, at least budget-many kept lines below it containing that filter (DESIGN A.3)",
    "grep, the kernel and Python's str.__contains__ are trusted; model containment is cross-checked against the real "
    "grep -F (safe form, -e/--) on sampled cases (R4)",
    "bounds: exhaustive for the listed TLC configurations only; longer histories / contents by TLC -simulate and "
    "seeded random cases",
]


def random_hist(rng, i):
    g = dict(p2f=rng.random() < 0.5, q2=rng.choice([["P"], ["P2"], ["P", "P2"]]),
             k=rng.choice([["Q1"], ["Q2"], ["Q1", "Q2"], ["Q1", "P2"]]))
    hist = []
    npat = rng.randint(2, 5)
    for _ in range(rng.randint(6, 14)):
        if rng.random() < 0.55:
            r = rng.random()
            pats = sorted(rng.sample(range(1, npat + 1), rng.randint(1, min(3, npat))))
            if r < 0.06:
                pats = sorted(set(pats + [0]))
            mx = rng.choice([1, 2, 3, 7, INF, INF]) if rng.random() > 0.06 else 0
            hist.append(dict(op="add", k=rng.choice(ALLC + ALLC + ["D1", "D0"]), pats=pats, mx=mx))
        else:
            hist.append(dict(op="get", k=rng.choice(["I1", "I1", "I2", "P", "I3", "P2", "D1", "D0", "D0"]), pats=[], mx=0))
    r = rng.random()
    if r < 0.35:
        # directed shape: the same string registered twice with a larger budget the second time, look-ups with
        # budgets in between and afterwards, no new string in between
        k = rng.choice(["P", "P", "I1", "Q1", "K", "I2"])
        c = rng.choice(["I2"] if k == "I2" else (["I1", "D0"] if k == "I1" else ["I1", "I2", "P", "D1", "D0"]))
        p = rng.randint(1, npat)
        lo, hi = rng.choice([(1, 2), (2, 5), (1, INF), (3, 7)])
        hist += [dict(op="add", k=k, pats=[p], mx=lo), dict(op="get", k=c, pats=[], mx=0, wm=True),
                 dict(op="add", k=rng.choice([k, k, "P"]), pats=[p], mx=hi), dict(op="get", k=c, pats=[], mx=0, wm=True)]
    elif r < 0.6:
        # directed shape: filters on the second spec / its implementation (a datasource built on a parser of the
        # first spec when g.x), then look-ups on the first spec's datasources
        g["p2f"], g["x"] = True, True
        hist += [dict(op="add", k=rng.choice(["P2", "I3"]), pats=[rng.randint(1, npat)], mx=rng.choice([1, INF])),
                 dict(op="get", k=rng.choice(["P", "I1", "D0"]), pats=[], mx=0),
                 dict(op="get", k=rng.choice(["I2", "I1"]), pats=[], mx=0, wm=True)]
    elif r < 0.8:
        # directed shape: a combiner over mixed dependency levels (a parser of P and the spec P2 directly);
        # a registration through it is in force for both specs
        g["k"] = ["Q1", "P2"]
        hist += [dict(op="add", k="K", pats=[rng.randint(1, npat)], mx=rng.choice([1, 3, INF])),
                 dict(op="get", k=rng.choice(["P", "I1", "I2", "D0"]), pats=[], mx=0),
                 dict(op="get", k=rng.choice(["P2", "I3"]), pats=[], mx=0)]
    return dict(id="randh#%d" % i, g=g, hist=hist)


def random_content(rng, i):
    nf = rng.randint(1, 5)
    n = rng.randint(3, 9)
    lines = []
    for _ in range(n):
        r = rng.random()
        if r < 0.12:
            lines.append(dict(blank=True, has=[]))
        else:
            lines.append(dict(blank=False, has=sorted(p for p in range(1, nf + 1) if rng.random() < 0.4)))
    allow = [rng.choice([0, 1, 1, 2, 3, INF, INF]) for _ in range(nf)]
    return dict(id="randc#%d" % i, lines=lines, allow=allow)


def hist_nontrivial(c):
    """a look-up follows a registration that follows a look-up on the same component"""
    seen_get, armed = set(), set()
    for op in c["hist"]:
        if op["op"] == "get":
            if op["k"] in armed:
                return True
            seen_get.add(op["k"])
        elif op["mx"] > 0 and 0 not in op["pats"] and op["pats"]:
            armed |= seen_get
    return False


def content_nontrivial(c):
    m = [l for l in c["lines"] if not l["blank"] and any(c["allow"][p - 1] for p in l["has"] if p <= len(c["allow"]))]
    return len(m) >= 2 and any(0 < b < INF for b in c["allow"])


def corrupt(traces, rng, want):
    """Binding self-test (R5): change one recorded field; TLC must reject every one of these."""
    out = []
    pool = list(traces)
    rng.shuffle(pool)
    for t in pool:
        if len(out) >= want:
            break
        mode = len(out) % 4
        c = copy.deepcopy(t)
        if mode == 0 and t["kind"] == "hist":
            gets = [e for e in c["events"] if e["ev"] == "get" and e["ret"] and e["c"] in ("I1", "I2", "P", "D1", "D0")]
            if not gets:
                continue
            pos = [i for i, e in enumerate(c["events"]) if e is gets[0]][0]
            gets[0]["ret"] = gets[0]["ret"][1:]
            c["events"] = c["events"][:pos + 1]
        elif mode == 1 and t["kind"] == "hist":
            adds = [e for e in c["events"] if e["ev"] == "add"]
            if not adds:
                continue
            adds[0]["raised"] = not adds[0]["raised"]
        elif mode == 2 and t["kind"] == "content":
            # the last kept line is the last match of a registered filter: dropping it must violate LastMatchKept
            evs = [e for e in c["events"] if e["collected"] and len(e["out"]) >= 1 and e["out"][-1] > 0
                   and any(p <= len(e["allow"]) and e["allow"][p - 1]
                           and not any(p in l["has"] for l in e["lines"][e["out"][-1]:])
                           for p in e["lines"][e["out"][-1] - 1]["has"])]
            if not evs:
                continue
            evs[0]["out"] = evs[0]["out"][:-1]          # drop the last kept line: LastMatchKept
            c["events"] = [evs[0]]
        elif mode == 3 and t["kind"] == "content":
            evs = [e for e in c["events"] if e["collected"] and len(set(e["out"])) >= 2 and any(e["allow"])]
            if not evs:
                continue
            evs[0]["out"] = list(reversed(evs[0]["out"]))   # order: Subsequence
            c["events"] = [evs[0]]
        else:
            continue
        c["id"] = "selftest/%d/%s" % (len(out), t["id"])
        out.append(c)
    return out


def run(prop, tier):
    assert prop == "C07"
    verdict = lib.Verdict(prop, tier)
    rng = random.Random(lib.seed())
    plan = PLAN[tier]
    t0 = time.time()
    gen = lib.subdir("gencfg-filters")

    def wr(name, text):
        p = os.path.join(gen, name)
        with open(p, "w") as f:
            f.write(text)
        return p

    w = max(2, min(8, lib.NCPU // 4))
    jobs = [("hist%d" % i, "Filters",
             wr("hist%d.cfg" % i, cfg_text("SpecHist", c, HIST_INV, ["LookupIsUnion"], view="HistView")),
             dict(workers=w), True) for i, c in enumerate(plan["hist"])]
    jobs += [
        ("stale", "Filters", wr("stale.cfg", cfg_text("SpecHist", plan["stale"], HIST_INV)), dict(workers=2), False),
        ("direct", "Filters", wr("direct.cfg", cfg_text("SpecHist", dict(plan["stale"], cache="direct"), HIST_INV)),
         dict(workers=2), False),
        ("newstring", "Filters", wr("newstring.cfg", cfg_text("SpecHist", dict(np=1, bud=[1, 2], depth=4, cache="newstring",
                                                                            pats=[[1]]), HIST_INV)),
         dict(workers=2), False),
        ("emit", "FiltersMC", wr("emit.cfg", cfg_text("SpecH", plan["emit"], HIST_INV, constraint="EmitHist")),
         dict(workers=2, raw_cases=True, coverage=True), True),
        ("sim", "FiltersMC", wr("sim.cfg", cfg_text("SpecS", SIM, HIST_INV, constraint="EmitHist")),
         dict(workers=2, raw_cases=True, simulate=max(1, plan["nsim"] // 2), depth=12, tlc_seed=lib.seed() + 11), True),
    ]
    for i, c in enumerate(plan["content"]):
        jobs.append(("content%d" % i, "FiltersMC",
                     wr("content%d.cfg" % i, cfg_text("SpecC", c, CONTENT_INV, constraint="EmitContent")),
                     dict(workers=w, raw_cases=True, coverage=(i == 0)), True))

    def one(job):
        name, mod, cfgp, kw, must = job
        r = lib.run_tlc(mod, cfgp, tag="filters-" + name, timeout=3000, **kw)
        if must:
            lib.require_ok(r, "Filters model " + name)
        return name, r

    res = {}
    with concurrent.futures.ThreadPoolExecutor(max_workers=4) as ex:
        for name, r in ex.map(one, jobs):
            res[name] = r
    # partial cache invalidation must be refuted by TLC at model level: "self" = only the component a filter is
    # stored on (defect D4 as found), "direct" = that component and its direct dependencies (not enough either:
    # a datasource two levels below keeps its stale entry)
    cex_len = {}
    for rule in ("stale", "direct"):
        st = res[rule]
        if st.violation != "LookupIsUnionInv":
            raise lib.MachineryError("the model with cache rule %r was expected to violate LookupIsUnionInv; TLC says "
                                     "violation=%s error=%s" % (rule, st.violation, st.error))
        cex_len[rule] = max(0, len([l for l in st.out.splitlines() if l.startswith("State ")]) - 1)
    st = res["stale"]
    cex = ["x"] * (cex_len["stale"] + 1)
    print("model: cache invalidation rules 'self' and 'direct' (component + direct dependencies) refuted by TLC: "
          "LookupIsUnion violated after %d / %d steps; rule 'all' satisfies it on %d states"
          % (cex_len["stale"], cex_len["direct"], res["hist0"].distinct))
    for mod_name, acts in (("emit", ("AddOne", "GetOne")), ("content0", ("StartC", "KeepLineC", "FinishC"))):
        for a in acts:
            if not res[mod_name].coverage.get(a):
                raise lib.MachineryError("vacuity: action %s never taken in %s (%s)"
                                         % (a, mod_name, res[mod_name].coverage))
    ns = res["newstring"]
    if ns.violation != "LookupBudgetsInv":
        raise lib.MachineryError("the model with cache rule 'newstring' (flush only for a new filter string) was "
                                 "expected to violate LookupBudgetsInv; TLC says violation=%s error=%s"
                                 % (ns.violation, ns.error))
    print("model: cache rule 'newstring' refuted by TLC: a look-up between two registrations of the same string "
          "returns the budget the second one raised (LookupBudgetsInv)")
    models = [res[j[0]] for j in jobs if j[0] not in ("stale", "direct", "newstring")]

    # ---- cases ----
    hcases, seen = [], set()
    emitted_h = 0
    for name in ("emit", "sim"):
        for line in res[name].cases:
            emitted_h += 1
            if line in seen:
                continue
            seen.add(line)
            c = lib.parse_case(line)
            hcases.append(dict(g=c["g"], hist=c["hist"], src=name))
        res[name].cases = []
    distinct_h = len(hcases)
    rng.shuffle(hcases)
    hcases.sort(key=lambda c: 0 if c["src"] == "sim" else 1)       # all simulated ones, then a sample
    hcases = hcases[:plan["hist_cap"]]
    for i, c in enumerate(hcases):
        c["id"] = "%s#%d" % (c.pop("src"), i)
    hcases += [random_hist(rng, i) for i in range(plan["nrand_hist"])]

    ccases, emitted_c = [], 0
    for i, _ in enumerate(plan["content"]):
        r = res["content%d" % i]
        lines = list(r.cases)
        emitted_c += len(lines)
        rng.shuffle(lines)
        for line in lines[:plan["content_cap"] // len(plan["content"])]:
            c = lib.parse_case(line)
            ccases.append(dict(id="content%d#%d" % (i, len(ccases)), lines=c["lines"], allow=c["allow"]))
        r.cases = []
    ccases += [random_content(rng, i) for i in range(plan["nrand_content"])]
    print("timing: models %.1fs; %d histories emitted (%d distinct), %d replayed; %d contents emitted, %d replayed"
          % (time.time() - t0, emitted_h, distinct_h, len(hcases), emitted_c, len(ccases)))

    # ---- drivers ----
    t1 = time.time()
    njobs = max(2, min(8, lib.NCPU // 2))
    payloads = [dict(mode="hist", cases=ch, seed=lib.seed() * 1000 + i)
                for i, ch in enumerate(lib.chunks(hcases, max(1, njobs // 2)))]
    nh = len(payloads)
    payloads += [dict(mode="content", cases=ch, seed=lib.seed() * 1000 + 100 + i, paths=PATHS,
                      grep_check_every=plan["grep_every"])
                 for i, ch in enumerate(lib.chunks(ccases, njobs))]
    tcases = [c for c in ccases if any(c["allow"])]
    rng.shuffle(tcases)
    payloads.append(dict(mode="content-tests", cases=[dict(c, id=c["id"] + "/tests") for c in tcases[:plan["tests_cases"]]], seed=lib.seed() * 1000 + 999,
                         paths=["tests-inputdata"], grep_check_every=0))
    outs = lib.run_driver_parallel("drive_filters.py", payloads, hashseeds=list(range(lib.seed(), lib.seed() + 16)),
                                   timeout=2400, jobs=njobs)
    traces, concrete = [], {}
    grep_runs = grep_checked = hydrated = 0
    for o in outs:
        for t in o["traces"]:
            if t["kind"] == "content":
                # one trace per code path, so that a rejection on one path does not hide the others
                conc = t.pop("concrete")
                for e in t["events"]:
                    tid = "%s/%s" % (t["id"], e["path"])
                    concrete[tid] = conc
                    traces.append(dict(id=tid, kind="content", events=[e]))
            else:
                for e in t["events"]:
                    if e["ev"] == "get":
                        e["skip"] = False
                traces.append(t)
        grep_runs += o["stats"].get("grep_runs", 0)
        grep_checked += o["stats"].get("grep_checked", 0)
        hydrated += o["stats"].get("hydrated", 0)
    if not outs[-1]["stats"].get("add_filter_patched"):
        raise lib.MachineryError("vacuity: the insights.tests helper process did not load insights.tests")
    with_filters = sum(1 for c in ccases if any(c["allow"]))
    vacuous = []
    if grep_runs < with_filters:
        # decided after the verdict: a code change that loses the filters of an implementation also stops grep
        vacuous.append("vacuity: the host contexts ran grep -F %d times for %d contents with filters"
                       % (grep_runs, with_filters))
    if not grep_checked:
        raise lib.MachineryError("vacuity: the model's grep semantics was never cross-checked (R4)")
    if hydrated < len(ccases):
        # decided after the verdict, like the grep count
        vacuous.append("vacuity: Hydration.hydrate gave back %d files of the multi-output spec for %d contents"
                       % (hydrated, len(ccases)))
    nev = sum(len(t["events"]) for t in traces)
    ncontent = len(set(t["id"].rsplit("/", 1)[0] for t in traces if t["kind"] == "content"))
    print("timing: drivers %.1fs, %d traces, %d events; host contexts ran grep -F %d times; grep semantics "
          "cross-checked on %d contents" % (time.time() - t1, len(traces), nev, grep_runs, grep_checked))

    # ---- validation ----
    t1 = time.time()
    bad = corrupt(traces, rng, plan["selftest"])
    val = lib.validate_traces("FiltersTrace", "FiltersTrace.cfg", traces + bad, jobs=njobs)
    print("timing: validation %.1fs (%d events, %d JVMs)" % (time.time() - t1, val["events"], val["jvms"]))
    rejected = dict((r["id"], r) for r in val["rejected"])
    missed = [b["id"] for b in bad if b["id"] not in rejected]
    if missed or len(bad) < 4:
        # decided after the verdict: on a tree that violates the property a "corruption" can repair a trace
        vacuous.append("binding self-test: %d corrupted traces built, accepted by FiltersTrace: %s"
                       % (len(bad), missed[:5]))
    for b in bad:
        rejected.pop(b["id"], None)
    val["traces"] -= len(bad)
    byid = dict((t["id"], t) for t in traces)
    allrej = [(tid, rj, copy.deepcopy(byid[tid])) for tid, rj in sorted(rejected.items())]
    # a rejected look-up ends the validation of its history: mark it as reported and validate the rest again
    # (bounded number of rounds), so that one finding does not hide a different one later in the same history
    rounds = 0
    while rounds < 2:
        again = []
        for tid, rj in sorted(rejected.items()):
            t = byid[tid]
            e = t["events"][rj["line"] - 1]
            if t["kind"] == "hist" and e["ev"] == "get" and rj["line"] < len(t["events"]):
                e["skip"] = True
                again.append(t)
        if not again:
            break
        rounds += 1
        v2 = lib.validate_traces("FiltersTrace", "FiltersTrace.cfg", again, jobs=2)
        rejected = dict((r["id"], r) for r in v2["rejected"])
        allrej += [(tid, rj, copy.deepcopy(byid[tid])) for tid, rj in sorted(rejected.items())]
        val["events"] += v2["events"]
        val["states"] += v2["states"]
        val["transitions"] += v2["transitions"]
    print("timing: validation incl. %d re-validation round(s) %.1fs" % (rounds, time.time() - t1))

    for tid, rj, t in allrej:
        e = t["events"][rj["line"] - 1]
        if t["kind"] == "hist":
            what = "graph %s, history %s: event %d %s rejected: %s" % (
                json.dumps(t["g"], sort_keys=True), json.dumps([_short(x) for x in t["events"][:rj["line"] - 1]]),
                rj["line"], json.dumps(_short(e)), rj["clause"])
        else:
            what = "filters %s, lines %s, path %s: kept %s (collected=%s, %s): %s" % (
                json.dumps(concrete.get(tid, {}).get("filters"), ensure_ascii=False),
                json.dumps(concrete.get(tid, {}).get("lines"), ensure_ascii=False), e["path"], e["out"],
                e["collected"], e.get("note", ""), rj["clause"])
        verdict.reject(lib.sig(prop, rj["clause"]), what, dict(trace=t, concrete=concrete.get(tid), rejected=rj))

    if vacuous and not verdict.violations:
        raise lib.MachineryError("; ".join(vacuous))
    for v in vacuous:
        print("note: %s (violations were found, so this is reported with them)" % v)
    htr = [t for t in traces if t["kind"] == "hist"]
    ctr = [t for t in traces if t["kind"] == "content"]
    nontrivial = len(set(json.dumps([c["g"], c["hist"]], sort_keys=True) for c in hcases if hist_nontrivial(c))) + \
        len(set(json.dumps([c["lines"], c["allow"]], sort_keys=True) for c in ccases if content_nontrivial(c)))
    dash = sum(1 for t in ctr for e in t["events"][:1]
               if e["feat"] == "first-sorted-filter-leading-dash" and e["path"] == "host-file")
    samples = [dict(graph=c["g"], history=c["hist"]) for c in hcases[:2]]
    samples += [dict(content=c["lines"], allow=c["allow"], concrete=concrete.get(c["id"] + "/archive")) for c in ccases[:2]]
    if htr:
        samples.append(dict(trace_id=htr[0]["id"], events=htr[0]["events"][:5]))
    if ctr:
        samples.append(dict(trace_id=ctr[0]["id"], events=[dict((k, v) for k, v in e.items() if k != "lines")
                                                           for e in ctr[0]["events"][:3]]))
    ev = lib.evidence(
        prop, tier, models, val, evaluations=nev, distinct_nontrivial=nontrivial,
        rule="histories = every add/get interleaving of depth 3 TLC enumerated over the 20 graphs (VERIF_SEED sample "
             "when over the replay budget) + TLC -simulate histories of depth 8 + seeded random histories of depth "
             "6-14, replayed with real SpecSet/RegistryPoint/parser/combiner objects through add_filter/get_filters; "
             "contents = (line classes, budgets) TLC enumerated (sampled) + seeded random contents of up to 9 lines "
             "and 5 filters, concretised with filter strings from the pools and pushed through every code path; "
             "evaluations = recorded events (one add / get / content-through-one-path each); distinct_nontrivial = "
             "distinct histories in which a look-up follows a successful registration that follows a look-up, plus "
             "distinct contents with at least two matching lines and a finite budget",
        samples=samples, assumptions=ASSUMPTIONS,
        extra=dict(histories_emitted=emitted_h, histories_replayed=len(hcases), contents_emitted=emitted_c,
                   contents_replayed=len(ccases), host_grep_runs=grep_runs, grep_semantics_cross_checked=grep_checked,
                   contents_with_leading_dash_first=dash, selftest_corrupted_rejected=len(bad),
                   paths=PATHS[:-1] + ["host-cmd-write", "tests-inputdata", "tests-context-wrap", "archive-glob",
                                       "host-glob", "serialized-file", "serialized-glob"],
                   files_hydrated_from_serialized_archives=hydrated,
                   stale_cache_model=dict(cache_rule="self", violated=st.violation, steps=cex_len["stale"],
                                          states=st.distinct),
                   direct_deps_cache_model=dict(cache_rule="direct", violated=res["direct"].violation,
                                                steps=cex_len["direct"], states=res["direct"].distinct),
                   invariants_checked_on_model=HIST_INV + ["LookupIsUnion"] + CONTENT_INV, exhaustive=False))
    return verdict.finish(ev)


def replay(prop, path):
    """Re-execute a recorded history against the current tree (contents: re-validate the recorded observation,
    whose concrete filters and lines are in the file) and validate it again."""
    with open(path) as f:
        rec = json.load(f)
    t = rec["replay"]["trace"]
    print("replaying %s (%s)" % (t["id"], rec["signature"]))
    if t["kind"] == "hist":
        hist = [dict(op="add", k=e["k"], pats=e["pats"], mx=e["mx"]) if e["ev"] == "add"
                else dict(op="get", k=e["c"], pats=[], mx=0) for e in t["events"]]
        out = lib.run_driver("drive_filters.py", dict(mode="hist", seed=lib.seed(),
                                                      cases=[dict(id=t["id"], g=t["g"], hist=hist)]))
        traces = out["traces"]
        for x in traces:
            for e in x["events"]:
                if e["ev"] == "get":
                    e["skip"] = False
    else:
        print("concrete case: %s" % json.dumps(rec["replay"].get("concrete"), ensure_ascii=False))
        traces = [t]
    val = lib.validate_traces("FiltersTrace", "FiltersTrace.cfg", traces, jobs=1)
    for x in traces:
        print(json.dumps(x, sort_keys=True)[:3000])
    for r in val["rejected"]:
        print("REJECTED %s at event %d: %s" % (r["id"], r["line"], r["clause"]))
    if not val["rejected"]:
        print("accepted: the case no longer violates C07 on this tree")
    return 1 if val["rejected"] else 0


def _short(e):
    if e["ev"] == "add":
        return "add(%s,%s,%s)%s" % (e["k"], e["pats"], e["mx"], " raised" if e["raised"] else "")
    return "get(%s)=%s" % (e["c"], [r[0] for r in e["ret"]])
