"""Driver for Cleaner: concretise the abstract cleaning cases TLC explored
(specs/CleanerMC.tla), run them through the REAL insights.cleaner.Cleaner
(clean_content, clean_file, ContentProvider.write) and record, per token,
what happened to it.  Contains no oracle: the records are judged by
specs/CleanerTrace.tla.

usage: drive_cleaner.py <in.json> <out.json>
in : {"mode": "lines" | "runs", "cases": [{"id", "cf", "content": [{"sp", "lines"}]}],
      "nconc": 3, "seed": 0, "paths": ["content", "file", "provider"], "tmp": <dir>, "facts": bool}
out: mode lines: {"traces": [...], "stats": {...}}
     mode runs : {"runs": {case id: run record}, "hashseed": .., "stats": {...}}
"""
import json
import os
import random
import re
import shutil
import sys

from insights.cleaner import Cleaner
from insights.client.config import InsightsConfig
from insights.core.context import HostContext
from insights.core.exceptions import ContentException, NoFilterException
from insights.core.spec_factory import DatasourceProvider, TextFileProvider

UP = "GHJKLMNPRSTVWXY"          # never hexadecimal, never in a marker (Z, Q)
LOW = "ghjkmnrtuvwxy"
HOST1 = "jkqvwz"                # letters that occur in no substitute the obfuscators issue
HOSTN = "bdfgjknqrtuvwyz0123456789"
DIG = "0123456789"
PUNCT = list(",;()[]{}<>\"'=/|!#@%&+?~$^`")
PUNCT_R = PUNCT + [". "]
PUNCT_PW_R = list(",;\"'[]{}<>|~?`")
SPACE = [" ", " ", "\t"]
PW_SEPS = [": ", ":", "=", " = ", "= \"", "=\"", " ", " --md5 ", ": \"", "\t", " : "]
AKEYS = {1: "AKYHV7", 2: "AKYJW3", 3: "AKYKX5"}     # the allow-list keys of the filterable specs (see filter_specs)
AKEY = AKEYS[1]
LINE_MARK = re.compile(r"ZL(\d+)Z")
GAP_MARK = re.compile(r" ZQ(\d+)Z ")


def pick(rng, xs):
    return xs[rng.randrange(len(xs))]


def word(rng, alpha, lo, hi):
    return "".join(pick(rng, alpha) for _ in range(rng.randint(lo, hi)))


class Conc(object):
    """Concrete values underneath the abstract ids of one trace."""

    def __init__(self, rng, cf, nid):
        self.rng = rng
        self.cf = cf
        self.width = False
        fam = cf["fam"]
        self.short = word(rng, HOST1, 2, 2) + word(rng, HOSTN, 1, 5)
        # the system's FQDN has 2, 3 or 4 labels (host.lan, host.site.corp, host.a.b.org)
        nlab = rng.randint(1, 3)
        while True:
            labels = [word(rng, HOST1, 2, 2) + word(rng, HOSTN, 0, 4) for _ in range(nlab - 1)] + \
                     [pick(rng, ["jv", "wk", "qz", "vkw", "jklan", "qvdomain", "wzk8"])]
            if not any(self.short in lab or lab in self.short for lab in labels):
                break           # (the short name is replaced wherever it occurs: keep it out of the domain's labels)
        if fam == "collide":
            labels = ["example", "com"]
        self.domain = ".".join(labels)
        self.fqdn = self.short + "." + self.domain if cf["sysdom"] else self.short
        otherdom = word(rng, HOST1, 3, 3) + ".kvw"
        dom = self.domain if cf["sysdom"] else otherdom
        # hosts of the domain
        self.dom = {}
        used = set([self.short])
        eqlen = rng.randint(3, 7)
        for i in range(1, nid["dom"] + 1):
            while True:
                if fam == "eqlen":
                    # names of equal length; with three or more hosts the last one may be longer
                    n = eqlen + (rng.randint(1, 3) if i == nid["dom"] >= 3 and rng.random() < 0.5 else 0)
                    lab = word(rng, HOST1, 2, 2) + word(rng, HOSTN, n - 2, n - 2)
                else:
                    lab = word(rng, HOST1, 2, 2) + word(rng, HOSTN, 0, 5)
                if fam != "eqlen" and rng.random() < 0.2:
                    lab += pick(rng, ["-", "_", "."]) + word(rng, HOSTN, 1, 3)
                if not any(lab in u or u in lab for u in used):
                    break
            used.add(lab)
            self.dom[i] = lab + "." + dom
        if fam == "suffix" and nid["dom"] >= 2:
            self.dom[2] = word(rng, HOSTN[:15], 1, 2) + self.dom[1]
        if fam == "collide" and cf["sysdom"]:
            from insights.cleaner.hostname import Hostname
            scratch = Hostname(self.fqdn)
            self.dom[1] = scratch.parse_line("%s.%s" % (word(rng, HOST1, 4, 4), self.domain))
        # addresses
        self.ip = {}
        for i in range(1, nid["ip"] + 1):
            while True:
                a = self._ip()
                if not any(a in b or b in a for b in self.ip.values()):
                    break
            self.ip[i] = a
        if fam == "prefix" and nid["ip"] >= 2:
            # the re-drawn pair must stay distinct from, and unrelated by containment to, the other addresses
            # of the trace (ids 3..): two ids with one text would be one original
            others = [self.ip[k] for k in self.ip if k > 2]
            while True:
                a = self._ip()
                last = a.rsplit(".", 1)[1]
                if not (len(last) <= 2 and int(last) > 0 and int(last + "0") <= 255):
                    continue
                a2 = a + pick(rng, "012345") if int(last) < 25 else a + "0"
                if not any(x in b or b in x for b in others for x in (a, a2)):
                    break
            self.ip[1] = a
            self.ip[2] = a2
        if fam == "collide":
            labels = ["example", "com"]
        self.domain = ".".join(labels)
        self.fqdn = self.short + "." + self.domain if cf["sysdom"] else self.short
        otherdom = word(rng, HOST1, 3, 3) + ".kvw"
        dom = self.domain if cf["sysdom"] else otherdom
        # hosts of the domain
        self.dom = {}
        used = set([self.short])
        eqlen = rng.randint(3, 7)
        for i in range(1, nid["dom"] + 1):
            while True:
                if fam == "eqlen":
                    # names of equal length; with three or more hosts the last one may be longer
                    n = eqlen + (rng.randint(1, 3) if i == nid["dom"] >= 3 and rng.random() < 0.5 else 0)
                    lab = word(rng, HOST1, 2, 2) + word(rng, HOSTN, n - 2, n - 2)
                else:
                    lab = word(rng, HOST1, 2, 2) + word(rng, HOSTN, 0, 5)
                if fam != "eqlen" and rng.random() < 0.2:
                    lab += pick(rng, ["-", "_", "."]) + word(rng, HOSTN, 1, 3)
                if not any(lab in u or u in lab for u in used):
                    break
            used.add(lab)
            self.dom[i] = lab + "." + dom
        if fam == "suffix" and nid["dom"] >= 2:
            self.dom[2] = word(rng, HOSTN[:15], 1, 2) + self.dom[1]
        if fam == "collide" and cf["sysdom"]:
            from insights.cleaner.hostname import Hostname
            scratch = Hostname(self.fqdn)
            self.dom[1] = scratch.parse_line("%s.%s" % (word(rng, HOST1, 4, 4), self.domain))
        # addresses
        self.ip = {}
        for i in range(1, nid["ip"] + 1):
            while True:
                a = self._ip()
                if not any(a in b or b in a for b in self.ip.values()):
                    break
            self.ip[i] = a
        if fam == "prefix" and nid["ip"] >= 2:
            while True:
                a = self._ip()
                last = a.rsplit(".", 1)[1]
                # the re-drawn pair must stay distinct from, and unrelated by containment to, the other
                # addresses of the trace (ids 3..): two ids with one text would be one original
                others = [self.ip[j] for j in self.ip if j > 2]
                if len(last) <= 2 and int(last) > 0 and int(last + "0") <= 255 and \
                        not any(a in b or b in a for b in others):
                    break
            self.ip[1] = a
            self.ip[2] = a + pick(rng, "012345") if int(last) < 25 else a + "0"
        if fam == "collide":
            from insights.cleaner.ip import IPv4
            scratch = IPv4()
            self.ip[1] = scratch.parse_line("1.1.1.1")
        # IPv6 addresses: full eight-group notation, one letter case per trace
        self.ip6 = {}
        up6 = rng.random() < 0.3
        for i in range(1, nid.get("ip6", 0) + 1):
            while True:
                a = ":".join(pick(rng, [word(rng, "0123456789abcdef", 1, 4), word(rng, "0123456789abcdef", 4, 4),
                                        "0", "fe80", word(rng, "abcdef", 2, 4)]) for _ in range(8))
                if a not in self.ip6.values() and len(set(a.split(":"))) > 2:
                    break
            self.ip6[i] = a.upper() if up6 else a
        if fam == "collide" and nid.get("ip6", 0) >= 2:
            from insights.cleaner.ip import IPv6
            self.ip6[1] = IPv6().parse_line(self.ip6[2])
        # MAC addresses: one notation per trace
        self.mac_sep = pick(rng, [":", ":", "-"])
        self.mac_up = rng.random() < 0.4
        self.mac = {}
        for i in range(1, nid["mac"] + 1):
            while True:
                m = self._mac()
                if m not in self.mac.values():
                    break
            self.mac[i] = m
        if fam == "collide" and nid["mac"] >= 2:
            from insights.cleaner.mac import Mac
            self.mac[1] = Mac().parse_line(self.mac[2])
        self.nullmac = pick(rng, ["00:00:00:00:00:00", "ff:ff:ff:ff:ff:ff", "FF:FF:FF:FF:FF:FF"])
        # keywords / patterns: everything the user could configure, the configured subset is cf.kws / cf.pats
        self.kw = {}
        for i in range(1, nid["kw"] + 1):
            while True:
                k = word(rng, UP, 2, 3) + word(rng, UP + DIG, 2, 5)
                if rng.random() < 0.25:
                    k += pick(rng, [" ", "-", "_", "."]) + word(rng, UP, 2, 4)
                if not any(k in o or o in k for o in self.kw.values()):
                    break
            self.kw[i] = k
        if fam == "kwdom":
            self.kw[1] = labels[0]
        if fam in ("kwsub", "kwsup") and nid["kw"] >= 2:
            # one configured keyword is a part of another one (secret / topsecret), in both orders of configuration
            a, b = (1, 2) if fam == "kwsub" else (2, 1)
            self.kw[b] = word(rng, UP, 2, 3) + self.kw[a] + pick(rng, ["", "", word(rng, UP, 1, 2)])
        if fam == "kwhost":
            # the keyword is a part of the host label of dom 1 (vault / vaultsrv.corp.test)
            while True:
                k = word(rng, HOST1, 2, 2) + word(rng, HOSTN[:15], 2, 4)
                if not any(k in u or u in k for u in list(used) + [self.domain]):
                    break           # (used holds the short name: it is replaced wherever it occurs)
            self.kw[1] = k
            self.dom[1] = pick(rng, ["", word(rng, HOST1, 2, 2)]) + k + pick(rng, ["", "srv", "01", "-a"]) + "." + dom
        self.pat = {}       # id -> (configured pattern, text that contains / matches it)
        cores = []
        for i in range(1, nid["pat"] + 1):
            while True:
                core = "PT" + word(rng, UP, 2, 4)
                if not any(core.startswith(c) or c.startswith(core) for c in cores):
                    break
            cores.append(core)
            if cf["regex"]:
                # every pattern of a list is a regular expression of its own: capture groups, numbered and named
                # back-references, inline flags, anchors and bare alternations mean what they mean in THAT pattern
                form = pick(rng, [2, 2, 2, 0, 1, 3]) if i == 1 else pick(rng, [0, 1, 2, 3, 4, 4, 5, 5, 6, 7, 8, 9])
                d = pick(rng, DIG)
                if form == 4:       # numbered back-reference to the pattern's own first group
                    self.pat[i] = (core + r"(\d)\1{2}", core + d * 3)
                elif form == 5:     # two groups, reference to the second
                    self.pat[i] = (core + r"([G-Y])(\d)\2\1", core + "%s%s%s%s" % ("K", d, d, "K"))
                elif form == 6:     # named group + named back-reference (the same name in every pattern of the list)
                    self.pat[i] = (core + r"(?P<n>\d)x(?P=n)", core + d + "x" + d)
                elif form == 7:     # inline flag at the start of the pattern
                    self.pat[i] = ("(?i)" + core.lower() + r"\d", core[:2] + core[2:].lower() + d)
                elif form == 8:     # anchors
                    self.pat[i] = ("^.*" + core + r"\d+.*$", core + d + d)
                elif form == 9:     # bare alternation
                    self.pat[i] = (core + "A|" + core + "B|" + core + r"\d", core + pick(rng, ["A", "B", d]))
                elif form == 0:
                    self.pat[i] = (core + "[[:digit:]]+", core + word(rng, DIG, 1, 3))
                elif form == 1:
                    self.pat[i] = (core + r"\d{2}[G-Y]", core + word(rng, DIG, 2, 2) + pick(rng, UP))
                elif form == 2:
                    self.pat[i] = (core + "(K|M)x?", core + pick(rng, ["K", "M", "Kx"]))
                else:
                    self.pat[i] = ("[[:upper:]]T" + core[2:] + "$|" + core + "[^0-9]", core + pick(rng, UP))
            else:
                # plain patterns are literal text: also with characters that mean something in a regular expression
                r = rng.random()
                if r < 0.45:
                    p = core
                elif r < 0.6:
                    p = core + pick(rng, [" ", "=", "/", "."]) + word(rng, UP, 1, 3)
                else:
                    x = word(rng, UP, 1, 3)
                    p = pick(rng, ["$" + core, core + "+" + x + "@", core + "[12]-" + x, "(" + core + ")", core + ".*" + x,
                                   core + "?" + x, "^" + core, core + "|" + x, core + "\\d", core + "{2}", "*" + core,
                                   core + "$", "[" + core, core + "\\"])
                self.pat[i] = (p, word(rng, UP, 0, 2) + p + word(rng, UP + DIG, 0, 2))
        self.table = {}
        for i, v in self.ip.items():
            self.table.setdefault(v, ("ip", i))
        for i, v in self.dom.items():
            self.table.setdefault(v, ("dom", i))
        for i, v in self.mac.items():
            self.table.setdefault(v, ("mac", i))
        for i, v in self.kw.items():
            self.table.setdefault(v, ("kw", i))
        for i, v in self.ip6.items():
            self.table.setdefault(v, ("ip6", i))
        self.table[self.fqdn] = ("fqdn", 0)

    def _ip(self):
        rng = self.rng
        r = rng.random()
        if r > 0.93:
            # ordinary addresses whose text is a part of the loopback address's text
            return pick(rng, ["27.0.0.1", "7.0.0.1", "27.0.0.1", "127.0.0.10", "127.0.0.11", "12.7.0.1"])
        if r < 0.08:
            first = 127
        else:
            first = pick(rng, [1, 9, 11, 100, 172, 192, 198, 203, 223, 25, 8, 49])
        rest = [pick(rng, [0, 1, 7, 10, 25, 99, 100, 127, 168, 200, 254, 255, rng.randint(0, 255)]) for _ in range(3)]
        a = "%d.%d.%d.%d" % (first, rest[0], rest[1], rest[2])
        if a == "127.0.0.1" or a.startswith("10.230."):
            return self._ip()
        return a

    def _mac(self):
        rng = self.rng
        while True:
            if rng.random() < 0.15:
                # an ordinary address made of 00 and ff octets only (00:00:00:00:00:ff, ff:ff:ff:00:00:00): only the
                # all-zero and the broadcast address are exempt
                hx = [pick(rng, ["00", "ff"]) for _ in range(6)]
                if len(set(hx)) == 2:
                    break
                continue
            hx = ["%02x" % rng.randrange(256) for _ in range(6)]
            if len(set(hx)) > 2:
                break
        m = self.mac_sep.join(hx)
        return m.upper() if self.mac_up else m

    # -- one token -----------------------------------------------------------
    def token(self, t):
        """-> (text, sensitive part)"""
        rng = self.rng
        k, i = t["k"], t["id"]
        if k == "text":
            w = word(rng, UP + DIG, 1, 6) if rng.random() < 0.7 else word(rng, LOW, 2, 6)
            if self.cf["fam"] == "vt":
                w = word(rng, UP, 1, 3) + pick(rng, ["\x0b", "\x0c", "\x1c", "\x1d", "\x1e"]) + w    # (ASCII only: independent of the locale)
            return w, w
        if k == "ip":
            return self.ip[i], self.ip[i]
        if k == "loop":
            return "127.0.0.1", "127.0.0.1"
        if k == "short":
            return self.short, self.short
        if k == "fqdn":
            return self.fqdn, self.fqdn
        if k == "dom":
            return self.dom[i], self.dom[i]
        if k == "mac":
            return self.mac[i], self.mac[i]
        if k == "nullmac":
            return self.nullmac, self.nullmac
        if k == "kw":
            return self.kw[i], self.kw[i]
        if k == "pat":
            return self.pat[i][1], self.pat[i][1]
        if k == "akey":
            tx = pick(rng, ["", "", "x=", "G"]) + AKEYS[i] + pick(rng, ["", "", ":", "7"])
            return tx, tx
        if k == "ip6":
            return self.ip6[i], self.ip6[i]
        if k == "pw":
            if self.cf["fam"] == "pwip":
                secret = sens = self.ip[1]
            else:
                secret = sens = pick(rng, UP + LOW) + word(rng, UP + LOW + DIG, 3, 6)
                if rng.random() < 0.5:
                    tail = word(rng, UP + LOW + DIG, 3, 5)
                    secret += pick(rng, list("!@#$%^&()+/-_")) + tail
                    sens = (sens, tail)         # no part of the secret may survive
            key = pick(rng, ["", "", "", "db_", "root"]) + "password" + pick(rng, ["", "", "", "_hash", "2", "File"])
            return key + pick(rng, PW_SEPS) + secret, sens
        raise ValueError(k)

    def delim(self, cls, side, k):
        """characters of class cls on the given side ('l' / 'r') of a token of kind k"""
        rng = self.rng
        if cls == "edge":
            return ""
        if cls == "space":
            return " " if self.width else pick(rng, SPACE)
        if cls == "punct":
            if side == "l" and k == "ip6":
                # family v6lb keeps ] ^ ` apart: until /repo 32aeef7 the look-behind of the IPv6 pattern contained the
                # character range \\-a (\\ ] ^ _ ` a) and an address after one of these was recognised from its second
                # character on (D24, fixed); the family stays so that the defect is reported again if it returns
                return pick(rng, list("]^`")) if self.cf["fam"] == "v6lb" else pick(rng, [c for c in PUNCT if c not in "]^`"])
            if side == "l":
                return pick(rng, PUNCT)
            return pick(rng, PUNCT_PW_R if k == "pw" else PUNCT_R)
        if cls == "alpha":
            return pick(rng, UP + LOW + "_")
        if cls == "digit":
            if k == "mac":
                return pick(rng, "0123456789abcdefABCDEF")
            return pick(rng, DIG)
        if cls == "colon":
            return ":"
        if cls == "dash":
            return "-"
        if cls == "dotnum":
            # '.443' / '.51234' (tcpdump, BSD netstat: address.port), '.7'; on the left '7.' / '443.'
            n = pick(rng, [pick(rng, DIG[1:]), "22", "80", "443", "8080", "51234", str(rng.randint(256, 65535)),
                           str(rng.randint(1, 255))])
            return (n + ".") if side == "l" else ("." + n)
        raise ValueError(cls)


class Line(object):
    """One concretised line: text, tokens with their sensitive parts, the
    separators that allow each token's rendering to be cut out of the output."""

    def __init__(self, conc, toks, src, want_mark):
        rng = conc.rng
        self.src = src
        self.toks = [dict(t) for t in toks]
        self.texts, self.sens = [], []
        self.mark = False
        self.width = conc.width
        if not toks:
            self.text = ""
            return
        for t in toks:
            tx, se = conc.token(t)
            self.texts.append(tx)
            self.sens.append(se)
        n = len(toks)
        lch = [conc.delim(t["l"], "l", t["k"]) for t in toks]
        rch = [conc.delim(t["r"], "r", t["k"]) for t in toks]
        # interior "edge" is white space (the gap filler provides it)
        pre, post = lch[0], rch[-1]
        # fixed-width mode: netstat-like columns, room after every token for a longer substitute
        pad = " " * rng.randint(24, 30) if self.width else " "   # (a repeated address re-aligns the first column once per occurrence)
        if want_mark:
            if toks[-1]["r"] != "edge" or self.width:
                post = rch[-1] + (pad if not rch[-1].endswith(" ") or self.width else "") + "ZL%dZ" % src
                self.mark = True
            elif toks[0]["l"] != "edge":
                pre = "ZL%dZ " % src + lch[0]
                self.mark = True
        seps = []
        for g in range(n - 1):
            a, b = toks[g], toks[g + 1]
            glue = (a["r"] in ("space", "punct") and b["l"] in ("space", "punct", "edge") and
                    a["k"] != "pw" and b["k"] != "pw" and not self.width and rng.random() < 0.5)
            if glue:
                # the two tokens are separated by their delimiter characters only
                sp = rch[g] + lch[g + 1]
                if b["l"] == "edge" and not sp.endswith((" ", "\t")):
                    sp += " "
                seps.append(sp)
            else:
                seps.append(rch[g] + pad + "ZQ%dZ " % g + lch[g + 1])
        self.pre, self.post, self.seps = pre, post, seps
        s = pre
        for g in range(n):
            s += self.texts[g]
            if g < n - 1:
                s += seps[g]
        self.text = s + post

    def renderings(self, out):
        """cut the output line into one rendering per token"""
        n = len(self.toks)

        def lit(x):
            if not self.width:
                return re.escape(x)
            # the fixed-width mode pads / removes blanks after an address: compare modulo runs of blanks
            return " +".join(re.escape(y) for y in re.split(" +", x))
        rx = "^" + lit(self.pre)
        for g in range(n):
            rx += "(.*?)"
            if g < n - 1:
                rx += lit(self.seps[g])
        rx += lit(self.post) + "$"
        m = re.match(rx, out, re.S)
        if m:
            return list(m.groups()), [True] * n
        # some delimiter was swallowed: cut at the gap markers, then cut every region on its own
        regions = GAP_MARK.split(out)
        cuts = [i for i, sp in enumerate(self.seps) if GAP_MARK.search(sp)]
        if len(regions) != 2 * len(cuts) + 1:
            return [out] * n, [False] * n
        regions = regions[0::2]
        res, exact = [], []
        bounds = [-1] + cuts + [n - 1]
        for r, reg in enumerate(regions):
            lo, hi = bounds[r] + 1, bounds[r + 1]
            if r == 0:
                left = self.pre
            else:
                sp = self.seps[lo - 1]
                left = sp[GAP_MARK.search(sp).end():]
            if r == len(regions) - 1:
                right = self.post
            else:
                sp = self.seps[hi]
                right = sp[:GAP_MARK.search(sp).start()]
            rx = "^" + lit(left)
            for g in range(lo, hi + 1):
                rx += "(.*?)"
                if g < hi:
                    rx += lit(self.seps[g])
            rx += lit(right) + "$"
            m = re.match(rx, reg, re.S)
            for g in range(lo, hi + 1):
                res.append(m.group(g - lo + 1) if m else reg)
                exact.append(bool(m))
        return res, exact


class Interner(object):
    def __init__(self):
        self.ids = {}

    def __call__(self, s):
        if s not in self.ids:
            self.ids[s] = len(self.ids) + 1
        return self.ids[s]


def make_config(cf, tmp):
    conf = InsightsConfig(obfuscate=cf["obf"], obfuscate_hostname=cf["host"], obfuscate_mac=cf["mac"],
                          obfuscate_ipv6=bool(cf.get("v6")))
    conf.rhsm_facts_file = os.path.join(tmp, "facts-%d.json" % os.getpid())
    return conf


class declared_os_name(object):
    """The system's own name is DECLARED by the driver: the OS functions determine_hostname() consults
    (insights/util/hostname.py: socket.gethostname, getfqdn, gethostbyname_ex) answer with the declared name."""

    def __init__(self, conc):
        self.conc = conc

    def __enter__(self):
        import socket
        self.socket = socket
        self.saved = (socket.gethostname, socket.getfqdn, socket.gethostbyname_ex)
        short, fqdn = self.conc.short, self.conc.fqdn
        socket.gethostname = lambda: short
        socket.getfqdn = lambda *a: fqdn
        socket.gethostbyname_ex = lambda *a: (fqdn, [], ["192.0.2.1"])

    def __exit__(self, *a):
        self.socket.gethostname, self.socket.getfqdn, self.socket.gethostbyname_ex = self.saved


def make_cleaner(cf, conc, tmp):
    rm = {}
    if cf["kws"]:
        rm["keywords"] = [conc.kw[i] for i in cf["kws"]]
    if cf["pats"]:
        pats = [conc.pat[i][0] for i in cf["pats"]]
        rm["patterns"] = {"regex": pats} if cf["regex"] else pats
    conf = make_config(cf, tmp)
    if cf.get("nofqdn"):
        # built as insights/collect.py builds it: no explicit fqdn; the inventory label (display_name) may be configured
        if cf.get("dname"):
            # the label is free text of the user's: a name of a foreign domain, a bare label, a label inside the
            # system's own domain; the second inventory label (ansible_host) may be set next to it
            lab = "inventory-label-%s" % word(conc.rng, LOW, 3, 6)
            conf.display_name = pick(conc.rng, [lab + ".labels.test", lab + ".labels.test", lab,
                                                lab + "." + (conc.domain if cf["sysdom"] else "labels.test")])
            if conc.rng.random() < 0.3:
                conf.ansible_host = "ansible-%s.labels.test" % word(conc.rng, LOW, 3, 6)
        with declared_os_name(conc):
            return Cleaner(conf, rm)
    return Cleaner(conf, rm, conc.fqdn)


def issued(cleaner, cf, conc):
    subs = set()
    maps = {}
    for name in ("ip", "ipv6", "hostname", "mac", "keyword"):
        o = cleaner.obfuscate.get(name)
        if o:
            maps[name] = o.mapping()
            for e in maps[name]:
                subs.add(e["obfuscated"])
    return subs, maps


def universe(case):
    nid = dict(ip=1, dom=1, mac=1, kw=1, pat=1, ip6=0)
    for s in case["content"]:
        for ln in s["lines"]:
            for t in ln:
                if t["k"] in nid:
                    nid[t["k"]] = max(nid[t["k"]], t["id"])
    for k, key in (("kw", "kws"), ("pat", "pats")):
        for i in case["cf"][key]:
            nid[k] = max(nid[k], i)
    if case["cf"]["fam"] in ("collide", "suffix", "prefix"):
        for k in ("ip", "dom", "mac"):
            nid[k] = max(nid[k], 2)
        if nid["ip6"]:
            nid["ip6"] = max(nid["ip6"], 2)
    return nid


_VS = {}
_PS = {}


def plain_spec(nored, noobf):
    """A generated non-filterable registry point RegistryPoint(no_redact=.., no_obfuscate=[..]) with a simple_file
    implementation, as the shipped spec sets declare their specs (the implementation inherits the point's settings)."""
    key = (bool(nored), tuple(sorted(noobf)))
    if key not in _PS:
        from insights.core.spec_factory import RegistryPoint, SpecSet, simple_file
        n = len(_PS)
        specs = type("VerifPlainSpecs%d" % n, (SpecSet,), {"p": RegistryPoint(no_redact=key[0], no_obfuscate=list(key[1]))})
        impl = type("VerifPlainImpl%d" % n, (specs,), {"p": simple_file("verif_src")})
        _PS[key] = impl.p
    return _PS[key]


def allow_dict(spec):
    """the allow list of a filterable spec: {key 1: n, ..., key nak: n} in that order"""
    return dict((AKEYS[i], spec["allow"]) for i in range(1, int(spec.get("nak") or 1) + 1))


def filter_specs(spec):
    """A generated filterable spec with real registered filters: the keys of the case, each with max_match n."""
    key = (spec["allow"], int(spec.get("nak") or 1))
    if key not in _VS:
        from insights.core import filters
        from insights.core.spec_factory import RegistryPoint, SpecSet, simple_file
        name = "verif_f%d_%d" % key
        specs = type("VerifFSpecs%d_%d" % key, (SpecSet,), {"f": RegistryPoint(filterable=True)})
        impl = type("VerifFImpl%d_%d" % key, (specs,), {"f": simple_file(name)})
        for i in range(1, key[1] + 1):
            filters.add_filter(specs.f, AKEYS[i], key[0])
        _VS[key] = (impl.f, name)
        _VS["filters"] = filters
    return _VS[key] + (_VS["filters"],)


def run_spec(cleaner, spec, lines, path, tmp, tag, allow_obj=None):
    """-> (output lines or None when nothing was stored, stored, raised)"""
    texts = [l.text for l in lines]
    noobf = list(spec["noobf"])
    if path == "filterprovider" and not spec.get("allow"):
        path = "provider"
    if path == "filterprovider":
        # the collection path of a filterable spec: grep pre-filter, then the cleaner with the registered filters
        ds, fname, filters = filter_specs(spec)
        root = os.path.join(tmp, "root-%s" % tag)
        os.makedirs(root)
        dst = os.path.join(root, "archive", "data", "spec")
        with open(os.path.join(root, fname), "w") as f:
            f.write("".join(t + "\n" for t in texts))
        raised = False
        try:
            try:
                prov = TextFileProvider(fname, root=root, ds=ds, ctx=HostContext(root=root), cleaner=cleaner)
                prov.write(dst)
            except (ContentException, NoFilterException):
                raised = True
            stored = os.path.exists(dst)
            out = []
            if stored:
                with open(dst) as f:
                    out = f.read().split("\n")
        finally:
            shutil.rmtree(root, True)
        if allow_obj is not None:
            allow_obj.clear()
            allow_obj.update(filters.get_filters(ds, True))
        return out, stored, raised
    width = bool(spec.get("width"))
    # the only spec cleaned in fixed-width mode is the one whose path ends in netstat_-neopa (spec_factory.py:109)
    name = "netstat_-neopa" if width else "spec"
    if path == "content":
        out = cleaner.clean_content(list(texts), no_obfuscate=noobf, no_redact=spec["nored"], width=width,
                                    allowlist=allow_obj if spec.get("allow") else None)
        return out, len(out) > 0, False
    if path == "file":
        os.makedirs(os.path.join(tmp, "f-%s" % tag))
        p = os.path.join(tmp, "f-%s" % tag, name)
        with open(p, "w") as f:
            f.write("".join(t + "\n" for t in texts))
        cleaner.clean_file(p, no_obfuscate=noobf, no_redact=spec["nored"],
                           allowlist=allow_obj if spec.get("allow") else None)
        if not os.path.exists(p):
            os.rmdir(os.path.dirname(p))
            return [], False, False
        with open(p) as f:
            out = f.read().split("\n")
        os.unlink(p)
        os.rmdir(os.path.dirname(p))
        if out and out[-1] == "":
            out.pop()
        return out, True, False
    if path == "specprovider" and width:
        path = "fileprovider"           # (the fixed-width mode goes by the file name)
    if path in ("provider", "fileprovider", "specprovider"):
        root = os.path.join(tmp, "root-%s" % tag)
        os.makedirs(root)
        dst = os.path.join(root, "archive", "data", "spec")
        ctx = HostContext(root=root)
        try:
            if path == "provider":
                prov = DatasourceProvider(list(texts), "insights_commands/" + name, root=root, ctx=ctx, cleaner=cleaner,
                                          no_obfuscate=noobf, no_redact=spec["nored"])
            elif path == "specprovider":
                ds = plain_spec(spec["nored"], noobf)
                if ds.no_redact != bool(spec["nored"]) or sorted(ds.no_obfuscate) != sorted(noobf):
                    raise RuntimeError("generated spec does not carry the exemptions of the case")
                with open(os.path.join(root, "verif_src"), "w") as f:
                    f.write("".join(t + "\n" for t in texts))
                prov = TextFileProvider("verif_src", root=root, ds=ds, ctx=ctx, cleaner=cleaner)
            else:
                class DS(object):
                    no_obfuscate = noobf
                    no_redact = spec["nored"]
                with open(os.path.join(root, name), "w") as f:
                    f.write("".join(t + "\n" for t in texts))
                prov = TextFileProvider(name, root=root, ds=DS(), ctx=ctx, cleaner=cleaner)
            raised = False
            try:
                prov.write(dst)
            except ContentException:
                raised = True
            stored = os.path.exists(dst)
            out = []
            if stored:
                with open(dst) as f:
                    out = f.read().split("\n")
        finally:
            shutil.rmtree(root, True)
        return out, stored, raised
    raise ValueError(path)


def provenance(out, lines):
    """per output line: which input line's marker it carries"""
    unmarked = [l.src for l in lines if l.toks and not l.mark]
    res = []
    for o in out:
        if o == "":
            res.append({"src": 0, "nm": 0})
            continue
        ms = LINE_MARK.findall(o)
        if ms:
            res.append({"src": int(ms[0]), "nm": len(ms)})
        elif len(unmarked) == 1:
            res.append({"src": unmarked[0], "nm": 1})
        else:
            res.append({"src": 99, "nm": 0})
    return res


def classify(line, outline, subs, intern):
    obs = []
    if outline is None:
        return [{"st": "dropped", "v": 0} for _ in line.toks], True
    rend, exacts = line.renderings(outline)
    for g, t in enumerate(line.toks):
        r = rend[g]
        exact = exacts[g]
        if exact and r == line.texts[g] and r in subs:
            # left as it is, and it is a substitute the obfuscator issued (C08's exception clause)
            obs.append({"st": "self", "v": intern(line.texts[g])})
        elif exact and r in subs:
            obs.append({"st": "sub", "v": intern(r)})
        elif any(x in r for x in (line.sens[g] if isinstance(line.sens[g], tuple) else (line.sens[g],))):
            obs.append({"st": "kept", "v": intern(line.texts[g])})
        else:
            obs.append({"st": "sub" if r in subs else "other", "v": intern(r)})
    return obs, all(exacts)


def abstract_maps(maps, conc, intern, alltext):
    res = []
    gname = {"ip": "ip", "ipv6": "ip6", "hostname": "host", "mac": "mac", "keyword": "kw"}
    for name, entries in sorted(maps.items()):
        for e in entries:
            k, i = conc.table.get(e["original"], ("unknown", 0))
            if k != "unknown" and gname[name] != {"ip": "ip", "ip6": "ip6", "dom": "host", "fqdn": "host", "mac": "mac", "kw": "kw"}[k]:
                k, i = "unknown", 0
            res.append({"g": gname[name], "k": k, "id": i, "v": intern(e["obfuscated"]),
                        "inc": e["original"] in alltext})
    return res


def do_case(case, j, seed, path, tmp, facts, stats, prop="C08"):
    rng = random.Random("%d/%s/%d" % (seed, case["id"], j))
    cf = case["cf"]
    conc = Conc(rng, cf, universe(case))
    intern = Interner()
    events = []
    alltext = ""

    def crashed(stage, ex):
        # the code under test raised on a legal configuration / content: recorded, judged by the trace spec
        stats["raised"] = stats.get("raised", 0) + 1
        events.append({"ev": "raised", "stage": stage, "exc": type(ex).__name__})
        return {"id": "%s/%d/%s" % (case["id"], j, path), "mode": "lines", "prop": prop, "cf": cf, "special": [],
                "events": events, "concrete": {"fqdn": conc.fqdn, "lines": alltext.split("\n")[:8], "error": repr(ex)[:300],
                                               "patterns": [conc.pat[i][0] for i in cf["pats"]]}}
    try:
        cleaner = make_cleaner(cf, conc, tmp)
    except Exception as ex:
        return crashed("init", ex)
    for si, spec in enumerate(case["content"]):
        nunm = 0
        lines = []
        spec["sp"] = dict(spec["sp"], width=bool(spec["sp"].get("width")), allow=int(spec["sp"].get("allow") or 0))
        conc.width = spec["sp"]["width"]
        for li, toks in enumerate(spec["lines"]):
            ln = Line(conc, toks, li + 1, True)
            if toks and not ln.mark:
                nunm += 1
                if nunm > 1:
                    # keep provenance decidable: at most one unmarked line per spec
                    toks = [dict(t) for t in toks]
                    toks[-1]["r"] = "space"
                    ln = Line(conc, toks, li + 1, True)
            lines.append(ln)
        alltext += "\n".join(l.text for l in lines) + "\n"
        tag = "%d-%d-%d" % (os.getpid(), stats["cleanings"], si)
        try:
            out, stored, raised = run_spec(cleaner, spec["sp"], lines, path, tmp, tag)
        except Exception as ex:
            return crashed("clean", ex)
        stats["cleanings"] += 1
        subs, maps = issued(cleaner, cf, conc)
        subs.add("********")
        prov = provenance(out, lines)
        bysrc = {}
        for o, p in zip(out, prov):
            if p["src"] not in (0, 99) and p["nm"] == 1:
                bysrc.setdefault(p["src"], o)
        events.append({"ev": "spec", "sp": spec["sp"], "n": len(lines), "path": path})
        for ln in reversed(lines):
            if not ln.toks:
                events.append({"ev": "line", "src": ln.src, "toks": [], "obs": []})
                continue
            obs, exact = classify(ln, bysrc.get(ln.src), subs, intern)
            for o in obs:
                stats[o["st"]] = stats.get(o["st"], 0) + 1
            if not exact and ln.src in bysrc:
                stats["unaligned"] = stats.get("unaligned", 0) + 1
            events.append({"ev": "line", "src": ln.src, "toks": ln.toks, "obs": obs})
        events.append({"ev": "endspec", "out": prov, "stored": stored, "raised": raised, "path": path})
    subs, maps = issued(cleaner, cf, conc)
    events.append({"ev": "report", "via": "mapping", "maps": abstract_maps(maps, conc, intern, alltext)})
    if facts:
        cleaner.generate_rhsm_facts()
        with open(cleaner.rhsm_facts_file) as f:
            fx = json.load(f)
        os.unlink(cleaner.rhsm_facts_file)
        fmaps = {}
        for name, key in (("ip", "obfuscated_ipv4"), ("ipv6", "obfuscated_ipv6"), ("hostname", "obfuscated_hostname"),
                          ("mac", "obfuscated_mac"), ("keyword", "obfuscated_keyword")):
            fmaps[name] = json.loads(fx["insights_client." + key])
        events.append({"ev": "report", "via": "facts", "maps": abstract_maps(fmaps, conc, intern, alltext)})
    return {"id": "%s/%d/%s" % (case["id"], j, path), "mode": "lines", "prop": prop, "cf": cf,
            "special": [1] if cf["fam"] in ("collide", "suffix", "prefix") else [], "events": events,
            "concrete": {"fqdn": conc.fqdn, "lines": alltext.split("\n")[:8]}}


def do_run_case(case, seed, tmp, stats, repeat=True):
    """C10: the case is cleaned several times in this process - every time with a FRESH cleaner, the same
    configuration and the caller's objects (the allow list of a filterable spec) reused - with the application
    order logged.  The parent puts the repetitions of all child interpreters (one per PYTHONHASHSEED) into one trace."""
    rng = random.Random("%d/%s/run" % (seed, case["id"]))
    cf = case["cf"]
    conc = Conc(rng, cf, universe(case))
    filtered = any(sp["sp"].get("allow") for sp in case["content"])
    paths = case.get("paths", ["content", "provider"])
    allow_objs = dict(((p, si), allow_dict(sp["sp"])) for p in paths for si, sp in enumerate(case["content"])
                      if sp["sp"].get("allow"))
    reps = []
    for ri in range((3 if filtered else 2) if repeat else 1):
        res = {"specs": []}
        for path in paths:
            cleaner = make_cleaner(cf, conc, tmp)
            conc.rng = random.Random("%d/%s/run-lines" % (seed, case["id"]))
            order_log = []
            for name, o in cleaner.obfuscate.items():
                if o:
                    def mk(name, orig):
                        def parse_line(line, **kw):
                            order_log.append(name)
                            return orig(line, **kw)
                        return parse_line
                    o.parse_line = mk(name, o.parse_line)
            for si, spec in enumerate(case["content"]):
                conc.width = bool(spec["sp"].get("width"))
                lines = [Line(conc, toks, li + 1, True) for li, toks in enumerate(spec["lines"])]
                del order_log[:]
                tag = "%d-%d-%d" % (os.getpid(), stats["cleanings"], si)
                aobj = allow_objs.get((path, si))
                out, stored, raised = run_spec(cleaner, spec["sp"], lines, path, tmp, tag, aobj)
                stats["cleanings"] += 1
                orders = []
                cur = []
                for name in order_log:
                    if name in cur:
                        orders.append(cur)
                        cur = []
                    cur.append(name)
                if cur:
                    orders.append(cur)
                uniq = []
                for o in orders:
                    if o not in uniq:
                        uniq.append(o)
                res["specs"].append({"path": path, "si": si + 1, "orders": uniq, "out": provenance(out, lines),
                                     "texts": out, "stored": stored, "raised": raised,
                                     "mutated": aobj is not None and aobj != allow_dict(spec["sp"]),
                                     "input": [l.text for l in lines]})
        reps.append(res)
    return {"reps": reps}


def main():
    with open(sys.argv[1]) as f:
        inp = json.load(f)
    tmp = inp["tmp"]
    os.makedirs(tmp, exist_ok=True)
    stats = {"cleanings": 0}
    if inp["mode"] == "lines":
        traces = []
        paths = inp.get("paths", ["content"])
        for ci, case in enumerate(inp["cases"]):
            for j in range(inp["nconc"]):
                path = paths[(ci + j) % len(paths)]
                traces.append(do_case(case, j, inp["seed"], path, tmp, inp.get("facts", False) and j == 0, stats,
                                      inp.get("prop", "C08")))
        out = {"traces": traces, "stats": stats}
    else:
        runs = {}
        for case in inp["cases"]:
            runs[case["id"]] = do_run_case(case, inp["seed"], tmp, stats, inp.get("repeat", True))
        out = {"runs": runs, "hashseed": os.environ.get("PYTHONHASHSEED"), "stats": stats}
    with open(sys.argv[2], "w") as f:
        json.dump(out, f, separators=(",", ":"))


if __name__ == "__main__":
    main()
