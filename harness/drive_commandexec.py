"""Driver for CommandExec (X03): concretise the abstract calls emitted by TLC (every stage of a pipeline is a
small generated sh script: optionally copies / drains its stdin into a side file, prints given lines, optionally
sleeps, leaves marker files with the argv / environment it saw, exits with a status or kills itself), run them
through the REAL subproc.call / Pipeline / Pipeline.write / HostContext.shell_out / ExecutionContext.connect /
a generated simple_command spec (content and stream()), and record one event per phase:
  (order of the events: timing, spawn, stdin, time, result, after)
  timing  which stages ran to their end / whether the watchdog fired: lets the trace specification see that the
          harness' own timing assumption (a stage that does not sleep finishes long before a timeout) failed on a
          loaded machine; such cases are run again with longer times (round 2) before anything is concluded
  spawn   what every stage saw: argv, selected environment variables, which of two same-named commands ran
  stdin   what every stage read on its standard input (caller's sentinel line / predecessor's lines / nothing)
  result  value or exception, abstracted: kind, status name, shape, the lines as tokens, exception fields
  time    wall-time class, which stages ran to their end, whether the watchdog had to end the call
  after   live / un-reaped children and open descriptors right after the call, after what the next Popen would
          clean up (subprocess._cleanup), and whether the driver could restore its baseline
Contains no oracle: the records are judged by specs/CommandExecTrace.tla.  The only comparisons made here are
inverse look-ups of the driver's own concretisation (concrete line -> token, exit status -> name) and the R4
measurement of the tools the model abstracts (`timeout`, sh exit statuses, SIGPIPE, pipe size, grep -F).

usage: drive_commandexec.py <in.json> <out.json>
in : {"base": dir, "seed": n, "params": {"T":, "TL":, "S":, "WD":, "OVER":}, "cases": [CASE records + "id"]}
out: {"traces": [{"id", "round", "case", "events"}], "stats": {..}, "tools": {...}}
"""
import fcntl
import json
import logging
import os
import random
import shlex
import shutil
import signal
import subprocess
import sys
import threading
import time
import warnings

from insights.core import dr, filters
from insights.core.context import HostContext
from insights.core.exceptions import CalledProcessError, ContentException
from insights.core.spec_factory import SAFE_ENV, RegistryPoint, SpecSet, simple_command
from insights.util import streams, subproc

SENTINEL = "X03-CALLER-STDIN"
META_ARG = 'a;b|c $HOME * "q" `id` > x03meta && true'
BIG = 70000
HIT, MISS = "PLAIN", "X03NOSUCHTEXT"
STATUS = {0: "0", 1: "1", 2: "2", 127: "127", -15: "sig", -9: "kill9", 124: "t124", -13: "pipe"}
SH, SLEEP, CAT, TEE = "/bin/sh", "/bin/sleep", "/bin/cat", "/usr/bin/tee"
ENVVARS = ("X03_LEAK", "X03_MARK", "X03_INH", "X03_OVR", "PATH", "LC_ALL")


class HarnessError(Exception):
    pass


def status_name(rc):
    return STATUS.get(rc, "x%s" % rc)


# ---------------------------------------------------------------------------
# concretisation of lines, and its inverse
# ---------------------------------------------------------------------------

def line_bytes(s, k, i):
    if k == "p":
        return (" s%dp%d %s x03 \t" % (s, i, HIT)).encode()        # blanks at both ends: nothing may strip them
    if k == "b":
        return ("s%db%d BIN " % (s, i)).encode() + b"\xff\xfe" + b" x03"
    if k == "L":
        return ("%0*d" % (BIG, s * 10 + i)).encode()
    if k == "e":
        return ("s%de%d ERR x03" % (s, i)).encode()
    if k == "C":
        return SENTINEL.encode()
    raise HarnessError("kind %r" % k)


def line_printf(s, k, i):
    """sh text that prints the line"""
    if k == "b":
        return "printf 's%db%d BIN \\377\\376 x03\\n'" % (s, i)
    if k == "L":
        return "printf '%%0%dd\\n' %d" % (BIG, s * 10 + i)
    return "printf '%s\\n'" % line_bytes(s, k, i).decode()


class Table(object):
    """concrete line (bytes or text) -> token; built from the case, so that it is the inverse of concretise"""

    def __init__(self, case):
        self.bytab, self.txtab = {}, {}
        toks = [(0, "C", 1)]
        for si, b in enumerate(case["st"], 1):
            for j, k in enumerate(b["out"], 1):
                toks.append((si, k, j))
            toks.append((si, "e", 1))
        for (s, k, i) in toks:
            raw = line_bytes(s, k, i)
            if k == "b":
                self.bytab[raw] = dict(s=s, k=k, i=i, d="raw")
                self.txtab[raw.decode("utf-8", "ignore")] = dict(s=s, k=k, i=i, d="ign")
                self.txtab[raw.decode("utf-8", "replace")] = dict(s=s, k=k, i=i, d="rep")
                self.txtab[raw.decode("utf-8", "surrogateescape")] = dict(s=s, k=k, i=i, d="esc")
            else:
                self.bytab[raw] = dict(s=s, k=k, i=i, d="-")
                self.txtab[raw.decode()] = dict(s=s, k=k, i=i, d="-")

    def tok(self, line):
        t = (self.bytab if isinstance(line, bytes) else self.txtab).get(line)
        return dict(t) if t else dict(s=0, k="?", i=0, d="-")

    def toks_of_blob(self, blob):
        """bytes or str holding newline-terminated lines"""
        nl = b"\n" if isinstance(blob, bytes) else "\n"
        parts = blob.split(nl)
        if parts and len(parts[-1]) == 0:
            parts = parts[:-1]
        return [self.tok(p) for p in parts]

    def toks_of_lines(self, lines):
        return [self.tok(l) for l in lines]


# ---------------------------------------------------------------------------
# processes
# ---------------------------------------------------------------------------

def _children(pid):
    out = []
    try:
        for t in os.listdir("/proc/%d/task" % pid):
            try:
                with open("/proc/%d/task/%s/children" % (pid, t)) as f:
                    out.extend(int(x) for x in f.read().split())
            except (OSError, ValueError):
                pass
    except OSError:
        pass
    return out


def _state(pid):
    try:
        with open("/proc/%d/stat" % pid) as f:
            s = f.read()
        return s[s.rindex(")") + 2:].split()[0]
    except (OSError, ValueError, IndexError):
        return "X"


def descendants():
    """[(pid, state, is a direct child)] of this process, through /proc/<pid>/task/<tid>/children"""
    me = os.getpid()
    out, todo = [], [(k, True) for k in _children(me)]
    while todo:
        pid, direct = todo.pop()
        out.append((pid, _state(pid), direct))
        todo.extend((k, False) for k in _children(pid))
    return out


def census():
    """(running descendants, un-reaped children of this process)"""
    d = descendants()
    running = [p for p, st, direct in d if st not in "ZX"]
    if running:
        time.sleep(0.04)          # a process between closing its descriptors and becoming a zombie is not `running`
        d = descendants()
        running = [p for p, st, direct in d if st not in "ZX"]
    zombies = [p for p, st, direct in d if st == "Z" and direct]
    return len(running), len(zombies)


def kill_descendants():
    n = 0
    for _ in range(5):
        d = [p for p, st, direct in descendants() if st not in "ZX"]
        if not d:
            break
        for p in d:
            try:
                os.kill(p, signal.SIGKILL)
                n += 1
            except OSError:
                pass
        time.sleep(0.01)
    return n


def reap_all():
    subprocess._cleanup()
    while True:
        try:
            pid, _ = os.waitpid(-1, os.WNOHANG)
        except ChildProcessError:
            break
        if pid == 0:
            break
    subprocess._cleanup()


def nfds():
    return len(os.listdir("/proc/self/fd"))


# ---------------------------------------------------------------------------
# R4: the tools the model abstracts, measured
# ---------------------------------------------------------------------------

def _rc(argv, timeout=20, **kw):
    p = subprocess.Popen(argv, stdin=subprocess.DEVNULL, stdout=subprocess.DEVNULL, stderr=subprocess.DEVNULL, **kw)
    return p.wait(timeout=timeout)


def measure_tools(base):
    t = {}
    tmo = shutil.which("timeout")
    if not tmo:
        raise HarnessError("`timeout` is not installed: the code under test cannot time anything out")
    for tool in (SH, SLEEP, CAT, TEE):
        if not os.access(tool, os.X_OK):
            raise HarnessError("%s missing" % tool)
    t["kill"] = {"KILL": status_name(_rc([tmo, "-s", "9", "0.1", SLEEP, "5"])),
                 "TERM": status_name(_rc([tmo, "-s", "15", "0.1", SLEEP, "5"]))}
    bodies = {"r0": "exit 0", "r1": "exit 1", "r2": "exit 2", "r127": "exit 127", "rsig": "kill -TERM $$"}
    t["plain"] = dict((k, status_name(_rc([SH, "-c", b]))) for k, b in bodies.items())
    t["wrapped"] = dict((k, status_name(_rc([tmo, "-s", "9", "5", SH, "-c", b]))) for k, b in bodies.items())
    # a writer nobody reads from
    p = subprocess.Popen([SH, "-c", line_printf(1, "L", 1) + "; " + line_printf(1, "p", 1)], stdin=subprocess.DEVNULL,
                         stdout=subprocess.PIPE, stderr=subprocess.DEVNULL)
    time.sleep(0.05)
    p.stdout.close()
    t["epipe"] = status_name(p.wait(timeout=20))
    r, w = os.pipe()
    try:
        t["bigblocks"] = fcntl.fcntl(w, 1032) < BIG + 1       # F_GETPIPE_SZ
    finally:
        os.close(r)
        os.close(w)
    keeps = {}
    for k in "pbLe":
        q = subprocess.run(["grep", "-F", "-e", HIT], input=line_bytes(1, k, 1) + b"\n", stdout=subprocess.PIPE,
                           stderr=subprocess.DEVNULL, env=SAFE_ENV, timeout=20)
        keeps[k] = q.stdout == line_bytes(1, k, 1) + b"\n"
        if not keeps[k] and q.stdout:
            raise HarnessError("grep -F printed something else for kind %s: %r" % (k, q.stdout[:80]))
    t["grep"] = keeps
    # the sh fragments print what line_bytes says (both directions of the concretisation)
    for k in "pbLe":
        q = subprocess.run([SH, "-c", line_printf(2, k, 1)], stdin=subprocess.DEVNULL, stdout=subprocess.PIPE, timeout=20)
        if q.stdout != line_bytes(2, k, 1) + b"\n":
            raise HarnessError("sh printf of kind %s does not print the concrete line" % k)
    if shlex.split(" ".join(shlex.quote(a) for a in ["/x/y", META_ARG])) != ["/x/y", META_ARG]:
        raise HarnessError("shlex.quote / shlex.split do not round-trip the metacharacter argument")
    return t


# ---------------------------------------------------------------------------
# a case in the file system
# ---------------------------------------------------------------------------

class World(object):
    def __init__(self, base, idx, case, params):
        self.case, self.P = case, params
        self.d = os.path.join(base, "c%d" % idx)
        os.makedirs(self.d)
        self.envbin = os.path.join(self.d, "envbin")
        self.osbin = os.path.join(self.d, "osbin")
        os.makedirs(self.envbin)
        os.makedirs(self.osbin)
        self.n = len(case["st"])
        self.argvs, self.extra = [], [META_ARG] if case["meta"] else []
        for i, b in enumerate(case["st"], 1):
            if b["rc"] == "nf":
                cmd = "x03nf%d" % i if case["bare"] else os.path.join(self.d, "nf%d" % i)
            elif case["bare"]:
                cmd = "x03s%d" % i
                self.script(os.path.join(self.envbin, cmd), i, b, "env")
                self.script(os.path.join(self.osbin, cmd), i, b, "os")
            else:
                cmd = os.path.join(self.d, "s%d" % i)
                self.script(cmd, i, b, "abs")
            self.argvs.append([cmd] + self.extra)
        self.given_path = os.pathsep.join([self.envbin, "/usr/bin", "/bin"])
        self.os_path = os.pathsep.join([self.osbin, ORIG_PATH])

    def script(self, path, i, b, which):
        d = self.d
        L = ["#!/bin/sh", "{ printf 'which=%s\\n' " + which + "; for a in \"$@\"; do printf 'arg=%s\\n' \"$a\"; done"]
        for v in ENVVARS:
            L.append("  printf '%s=%%s\\n' \"${%s-<unset>}\"" % (v, v))
        L.append("} > %s/s%d.start" % (d, i))
        if b["slow"]:
            # the sleep runs from the start of the stage (all slow stages of a pipeline wake together, as in the
            # model's clock); the stage waits for it after it has written its output
            L.append("%s %s </dev/null >/dev/null 2>&1 &" % (SLEEP, self.P["S"]))
            L.append("SL=$!")
        if b["rd"] == "pass":
            L.append("%s %s/s%d.in" % (TEE, d, i))
        elif b["rd"] == "drain":
            L.append("%s > %s/s%d.in" % (CAT, d, i))
        for j, k in enumerate(b["out"], 1):
            L.append(line_printf(i, k, j))
        if b["err"]:
            L.append(line_printf(i, "e", 1) + " >&2")
        if b["slow"]:
            L.append("wait $SL")
        L.append(": > %s/s%d.end" % (d, i))
        L.append("kill -TERM $$" if b["rc"] == "sig" else "exit %s" % b["rc"])
        with open(path, "w") as f:
            f.write("\n".join(L) + "\n")
        os.chmod(path, 0o755)

    # --- what the stages saw -------------------------------------------------
    def stage_views(self):
        out = []
        for i in range(1, self.n + 1):
            p = os.path.join(self.d, "s%d.start" % i)
            if not os.path.exists(p):
                out.append(dict(started=False, argv="none", which="none",
                                env=dict(leak=False, mark=False, inh=False, ovr=False, path="none", lc="none")))
                continue
            with open(p, "rb") as f:
                lines = f.read().decode("utf-8", "replace").split("\n")
            kv, args = {}, []
            for l in lines:
                if l.startswith("arg="):
                    args.append(l[4:])
                elif "=" in l:
                    k, v = l.split("=", 1)
                    kv[k] = v
            path = kv.get("PATH", "<unset>")
            lc = kv.get("LC_ALL", "<unset>")
            env = dict(leak=kv.get("X03_LEAK") == "leak", mark=kv.get("X03_MARK") == "mark",
                       inh=kv.get("X03_INH") == "inh", ovr=kv.get("X03_OVR") == "ovr",
                       path="os" if path == self.os_path else "given" if path == self.given_path
                       else "safe" if path == SAFE_ENV["PATH"] else "unset" if path == "<unset>" else "other",
                       lc="unset" if lc == "<unset>" else "C" if lc == "C" else "other")
            out.append(dict(started=True, argv="exact" if args == self.extra else "changed", which=kv.get("which", "none"),
                            env=env))
        return out

    def stage_inputs(self, tab):
        out = []
        for i in range(1, self.n + 1):
            p = os.path.join(self.d, "s%d.in" % i)
            if not os.path.exists(p):
                out.append(dict(read="none", toks=[]))
                continue
            with open(p, "rb") as f:
                blob = f.read()
            toks = tab.toks_of_blob(blob)
            out.append(dict(read="caller" if any(t["k"] == "C" for t in toks) else "data" if toks else "eof", toks=toks))
        return out

    def ended(self):
        return [os.path.exists(os.path.join(self.d, "s%d.end" % i)) for i in range(1, self.n + 1)]


# ---------------------------------------------------------------------------
# calling the real code
# ---------------------------------------------------------------------------

UID = [0]


def abstract_cmd(cmd, w, wrapped):
    """which command of the pipeline CalledProcessError.cmd names"""
    if cmd is None:
        return "none"
    argvs = w.argvs
    texts = [" ".join(shlex.quote(a) for a in av) for av in argvs]

    def is_stage(x, k):
        if isinstance(x, (list, tuple)):
            x = list(x)
            return x == argvs[k] or (len(x) > len(argvs[k]) and x[-len(argvs[k]):] == argvs[k] and
                                     os.path.basename(str(x[0])) == "timeout")
        if isinstance(x, str):
            return x == texts[k] or (x.endswith(texts[k]) and x.split()[0].endswith("timeout"))
        return False

    if is_stage(cmd, 0):
        return "first"
    for k in range(1, len(argvs)):
        if is_stage(cmd, k):
            return "stage"
    if isinstance(cmd, (list, tuple)) and len(cmd) == len(argvs) + (1 if w.case["flt"] != "none" else 0) and \
            all(is_stage(x, k) for k, x in enumerate(cmd[:len(argvs)])):
        return "all"
    return "other"


def invoke(w, tab):
    """Run the call.  Returns the `result` event (without timing)."""
    c, P = w.case, w.P
    api = c["api"]
    cmds = [list(av) for av in w.argvs] if c["form"] == "list" else [" ".join(shlex.quote(a) for a in av) for av in w.argvs]
    arg_t = P["T"] if c["tmo"] in ("arg", "both") else None
    ctx_t = P["T"] if c["tmo"] == "ctx" else P["TL"] if c["tmo"] == "both" else None
    signum = signal.SIGTERM if c["sig"] == "TERM" else None
    env = None
    if c["env"] == "given":
        env = {"PATH": w.given_path, "X03_MARK": "mark"}
    kw = {}
    ev = dict(ev="result", kind="ret", rc="none", shape="none", out=[], file="none",
              xrc="none", xcmd="none", xout="none", xtoks=[], note="")
    out_path = os.path.join(w.d, "out.txt")
    try:
        if api in ("call", "pipe", "write"):
            if env is not None:
                kw["env"] = env
            if arg_t is not None:
                kw["timeout"] = arg_t
            if signum is not None:
                kw["signum"] = signum
            if api == "call":
                r = subproc.call(cmds, keep_rc=c["keep"], **kw)
            elif api == "pipe":
                r = subproc.Pipeline(*cmds, **kw)(keep_rc=c["keep"])
            else:
                r = subproc.Pipeline(*cmds, **kw).write(out_path, keep_rc=c["keep"])
                with open(out_path, "rb") as f:
                    blob = f.read()
                r = (r, blob) if c["keep"] else blob
                if not c["keep"] and False:
                    pass
        elif api == "shell":
            ctx = HostContext(root=w.d, timeout=ctx_t)
            r = ctx.shell_out(cmds, split=c["split"], timeout=arg_t, keep_rc=c["keep"], env=env, signum=signum)
        elif api == "connect":
            ctx = HostContext(root=w.d, timeout=ctx_t)
            if env is not None:
                kw["env"] = env
            if arg_t is not None:
                kw["timeout"] = arg_t
            if len(cmds) == 1 and w.P["seed"] % 2 == 0:
                with ctx.stream(cmds[0], **kw) as s:
                    r = list(streams.reader(s))
            else:
                with ctx.connect(*cmds, **kw) as s:
                    r = list(streams.reader(s))
        elif api in ("prov", "provs"):
            UID[0] += 1
            u = UID[0]
            base = type("X03Base%d" % u, (SpecSet,), {"cmd": RegistryPoint(filterable=c["flt"] != "none")})
            sc = simple_command(cmds[0], context=HostContext, split=c["split"], keep_rc=c["keep"], timeout=arg_t,
                                inherit_env=["X03_INH", "X03_ABSENT"] if c["env"] == "safep" else None,
                                override_env={"X03_OVR": "ovr"} if c["env"] == "safep" else None, signum=signum)
            type("X03Host%d" % u, (base,), {"cmd": sc})
            if c["flt"] != "none":
                filters.add_filter(base.cmd, HIT if c["flt"] == "hit" else MISS)
            broker = dr.Broker()
            broker[HostContext] = HostContext(root=w.d, timeout=ctx_t)
            dr.run(dr.get_dependency_graph(base.cmd), broker=broker)
            if base.cmd not in broker:
                excs = [e for lst in broker.exceptions.values() for e in lst]
                if not excs:
                    raise HarnessError("spec not in broker and no exception recorded")
                raise excs[0]
            prov = broker[base.cmd]
            if c["flt"] != "none":
                args = prov.create_args()
                if len(args) != 2 or args[1][:2] != ["grep", "-F"]:
                    ev["note"] = "no-grep-stage"
            if api == "prov":
                content = prov.content
                r = (prov.rc, content) if c["keep"] else content
            else:
                r = list(prov.stream())
        else:
            raise HarnessError("api %r" % api)
    except HarnessError:
        raise
    except CalledProcessError as ex:
        ev["kind"] = "cpe"
        ev["xrc"] = status_name(ex.returncode) if isinstance(ex.returncode, int) else "other"
        ev["xcmd"] = abstract_cmd(ex.cmd, w, arg_t or ctx_t)
        o = ex.output
        if o is None:
            ev["xout"] = "none"
        elif isinstance(o, (bytes, str)):
            ev["xout"] = "data"
            ev["xtoks"] = tab.toks_of_blob(o)
        else:
            ev["xout"] = "other"
        ev["file"] = "present" if os.path.exists(out_path) else "absent"
        return ev
    except ContentException:
        ev["kind"] = "content"
        return ev
    except UnicodeDecodeError:
        ev["kind"] = "decode"
        return ev
    except OSError:
        ev["kind"] = "oserror"
        ev["file"] = "present" if os.path.exists(out_path) else "absent"
        return ev
    except Exception as ex:
        ev["kind"] = "exc:" + type(ex).__name__
        ev["note"] = str(ex)[:120]
        return ev
    # a value came back
    if c["keep"] and api not in ("connect", "provs"):
        if not (isinstance(r, tuple) and len(r) == 2):
            ev["shape"] = "not-a-pair"
            return ev
        rc, r = r
        ev["rc"] = status_name(rc) if isinstance(rc, int) and not isinstance(rc, bool) else "other"
    if api == "write":
        ev["shape"] = "file"
        ev["file"] = "present"
        ev["out"] = tab.toks_of_blob(r)
    elif isinstance(r, bytes):
        ev["shape"] = "bytes"
        ev["out"] = tab.toks_of_blob(r)
    elif isinstance(r, str):
        ev["shape"] = "str"
        ev["out"] = tab.toks_of_blob(r)
    elif isinstance(r, list):
        ev["shape"] = "list"
        ev["out"] = tab.toks_of_lines(r)
    else:
        ev["shape"] = "other"
    return ev


def run_case(base, idx, case, params, stats):
    w = World(base, idx, case, params)
    tab = Table(case)
    # the caller's standard input: a file holding one line
    sfd = os.open(SENTINEL_FILE, os.O_RDONLY)
    os.dup2(sfd, 0)
    os.close(sfd)
    os.environ["PATH"] = w.os_path
    reap_all()
    deadline = time.time() + 10
    while True:                       # a killed process may need a moment to go away on a loaded machine
        d = descendants()
        if not d:
            break
        if time.time() > deadline:
            raise HarnessError("children before the case: %s" % (d,))
        kill_descendants()
        reap_all()
        time.sleep(0.02)
    if subprocess._active:
        raise HarnessError("subprocess._active not empty before the case")
    fds0 = nfds()
    fired = []

    def watchdog():
        fired.append(kill_descendants())

    timer = threading.Timer(params["WD"], watchdog)
    timer.daemon = True
    t0 = time.time()
    timer.start()
    try:
        res = invoke(w, tab)
    finally:
        timer.cancel()
    wall = time.time() - t0
    timer.join()
    if fired:
        res["kind_before_watchdog"] = res["kind"]
        res["kind"] = "hang"
    ended = w.ended()
    run1, zom1 = census()
    fds1 = nfds() - fds0
    # settled: give processes that are about to finish a moment, then do what the next Popen() would do
    deadline = time.time() + params.get("GRACE", 0.4)
    while run1 and time.time() < deadline and any(st not in "ZX" for _, st, _ in descendants()):
        time.sleep(0.02)
    subprocess._cleanup()
    run2, zom2 = census()
    fds2 = nfds() - fds0
    killed = kill_descendants()
    reap_all()
    deadline = time.time() + 10
    while (descendants() or subprocess._active) and time.time() < deadline:     # killed, not yet gone
        kill_descendants()
        time.sleep(0.02)
        reap_all()
    unrestored = max(0, nfds() - fds0) + len(subprocess._active)
    if unrestored:
        del subprocess._active[:]
    events = [dict(ev="timing", ended=ended, watchdog=bool(fired)),
              dict(ev="spawn", stages=w.stage_views()),
              dict(ev="stdin", stages=w.stage_inputs(tab)),
              dict(ev="time", overran=wall >= params["OVER"], ended=ended, watchdog=bool(fired), wall_ms=int(wall * 1000)),
              res,
              dict(ev="after", now=dict(running=run1, zombies=zom1, fds=max(0, fds1)),
                   settled=dict(running=run2, zombies=zom2, fds=max(0, fds2)), unrestored=unrestored,
                   killed_by_driver=killed)]
    stats["kind:" + res["kind"]] = stats.get("kind:" + res["kind"], 0) + 1
    stats["procs"] = stats.get("procs", 0) + sum(1 for v in events[1]["stages"] if v["started"])
    if fired:
        stats["watchdog"] = stats.get("watchdog", 0) + 1
    shutil.rmtree(w.d, True)
    return events


ORIG_PATH = os.environ.get("PATH", "/usr/bin:/bin")
SENTINEL_FILE = None


def main():
    global SENTINEL_FILE
    with open(sys.argv[1]) as f:
        job = json.load(f)
    logging.disable(logging.CRITICAL)
    warnings.simplefilter("ignore")
    base = job["base"]
    os.makedirs(base, exist_ok=True)
    if " " in base or any(ch in base for ch in "'\"$;|*"):
        raise HarnessError("scratch prefix %r needs quoting" % base)
    SENTINEL_FILE = os.path.join(base, "caller-stdin.txt")
    with open(SENTINEL_FILE, "w") as f:
        f.write(SENTINEL + "\n")
    os.environ["X03_LEAK"] = "leak"
    os.environ["X03_INH"] = "inh"
    os.environ["LC_ALL"] = "en_US.X03"
    os.environ.pop("X03_MARK", None)
    os.environ.pop("X03_OVR", None)
    os.environ.pop("X03_ABSENT", None)
    os.chdir(base)
    params = dict(job["params"])
    params["seed"] = job["seed"]
    tools = measure_tools(base) if job.get("measure", True) else {}
    stats, traces = {}, []
    for idx, case in enumerate(job["cases"]):
        cs = dict(case)
        cs["st"] = [dict(b) for b in case["st"]]
        events = run_case(base, idx, cs, params, stats)
        pub = dict((k, case[k]) for k in ("st", "api", "keep", "tmo", "sig", "split", "form", "meta", "env", "bare", "flt"))
        traces.append(dict(id=case["id"], round=int(job.get("round", 1)), case=pub, events=events))
    kill_descendants()
    os.environ["PATH"] = ORIG_PATH
    with open(sys.argv[2], "w") as f:
        f.write(json.dumps(dict(traces=traces, stats=stats, tools=tools), separators=(",", ":")))


if __name__ == "__main__":
    main()
