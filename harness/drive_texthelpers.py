"""Driver for TextHelpers (C15): render abstract documents (key/value documents,
fixed-width and delimited tables, INI documents, row sets with queries) to
text in seed-chosen ways (letters, spacings, comment styles, cell offsets),
call the REAL helpers of insights.parsers / IniConfigFile on the text and
record the result abstracted back to pairs / rows / sections.  No oracle here:
the records are judged by specs/TextHelpersTrace.tla.

usage: drive_texthelpers.py <in.json> <out.json>
in : {"cases":[{"id":..,"fam":..,"inp":{..}}], "seed": n, "nvar": k, "random": {fam: n}, "chunk": i}
out: {"traces":[{"id":..,"fam":..,"events":[..]}], "stats":{..}}

Text travels as arrays of one-character strings (TLA+ takes it apart).
"""
import json
import random
import string
import sys

from insights.core import IniConfigFile
from insights.parsers import (get_active_lines, keyword_search, parse_delimited_table, parse_fixed_table,
                              split_kv_pairs)
from insights.tests import context_wrap


def S(chars):
    return "".join(chars)


def C(text):
    return list(text)


def pairs_of(d):
    return [dict(k=C(k), v=C(v if isinstance(v, str) else "<%s>" % type(v).__name__)) for k, v in d.items()]


def sp(rng, lo=0, hi=2):
    return " " * rng.randrange(lo, hi + 1)


# ---------------------------------------------------------------------------
# letter renaming: an injective, case-preserving map on letters; everything
# else (blanks, separators, comment characters) stays
# ---------------------------------------------------------------------------
def renaming(rng, identity):
    if identity:
        return lambda chars: list(chars)
    perm = list(string.ascii_lowercase)
    rng.shuffle(perm)
    m = dict(zip(string.ascii_lowercase, perm))
    m.update(dict((a.upper(), b.upper()) for a, b in list(m.items())))
    return lambda chars: [m.get(c, c) for c in chars]


# ---------------------------------------------------------------------------
# key/value documents, get_active_lines
# ---------------------------------------------------------------------------
COMMENT_TEXT = ["note", "x = y", "## more", "key: value", "", "a=b # c"]


def comment_text(rng, cc, filt):
    """text of a comment; with a filter string it often contains the filter (a comment must not make a line pass)"""
    text = rng.choice(COMMENT_TEXT).replace("#", cc)
    if filt and rng.random() < 0.6:
        text = rng.choice(["see %s above", "%s", "old: %s = 1", "x%sx"]) % filt
    return text


def run_kv(inp, rng, stats, ren):
    sep, cc = S(inp["sep"]), S(inp["cc"])
    doc = dict(lines=[dict(t=l["t"], k=ren(l["k"]), v=ren(l["v"]), c=bool(l["c"])) for l in inp["lines"]],
               sep=inp["sep"], cc=inp["cc"], part=bool(inp["part"]), filt=ren(inp.get("filt", [])))
    filt = S(doc["filt"])
    lines = []
    for l in doc["lines"]:
        tail = ""
        if l["c"]:
            tail = sp(rng) + cc + sp(rng, 0, 1) + comment_text(rng, cc, filt)
        if l["t"] == "pair":
            text = sp(rng, 0, 3) + S(l["k"]) + sp(rng) + sep + sp(rng) + S(l["v"]) + tail + sp(rng)
        elif l["t"] == "bare":
            text = sp(rng, 0, 3) + S(l["k"]) + tail + sp(rng)
        elif l["t"] == "comment":
            text = sp(rng, 0, 3) + cc + sp(rng, 0, 1) + comment_text(rng, cc, filt)
        else:
            text = rng.choice(["", " ", "   ", "\t"])
        lines.append(text)
    ordered = rng.random() < 0.5
    kwargs = dict(use_partition=doc["part"], ordered=ordered)
    if not doc["part"] and rng.random() < 0.3:
        del kwargs["use_partition"]
    if not ordered and rng.random() < 0.3:
        del kwargs["ordered"]
    if sep != "=" or rng.random() < 0.5:
        kwargs["split_on"] = sep
    if cc != "#" or rng.random() < 0.5:
        kwargs["comment_char"] = cc or None
    if filt:
        kwargs["filter_string"] = filt
    evs = []
    exc, res = "", []
    try:
        res = pairs_of(split_kv_pairs(list(lines), **kwargs))
    except Exception as e:      # noqa
        exc = type(e).__name__
    evs.append(dict(ev="kv", doc=doc, ordered=ordered, res=res, exc=exc, text=lines[:8]))
    if cc:
        exc, res = "", []
        try:
            res = [C(x) for x in get_active_lines(list(lines), comment_char=cc)]
        except Exception as e:      # noqa
            exc = type(e).__name__
        evs.append(dict(ev="active", lines=[C(x) for x in lines], cc=inp["cc"], res=res, exc=exc))
    stats["kv"] = stats.get("kv", 0) + 1
    if filt:
        stats["kv_filter"] = stats.get("kv_filter", 0) + 1
    return evs


def run_active(inp, rng, stats, ren):
    lines = [S(ren(l)) for l in inp["lines"]]
    cc = S(inp["cc"])
    exc, res = "", []
    try:
        res = [C(x) for x in (get_active_lines(list(lines)) if cc == "#" and rng.random() < 0.5
                              else get_active_lines(list(lines), cc))]
    except Exception as e:      # noqa
        exc = type(e).__name__
    stats["active"] = stats.get("active", 0) + 1
    return [dict(ev="active", lines=[C(x) for x in lines], cc=inp["cc"], res=res, exc=exc)]


# ---------------------------------------------------------------------------
# tables
# ---------------------------------------------------------------------------
def rows_of(table):
    return [pairs_of(r) for r in table]


def blank_variants(lines, rng):
    """lines of blanks only: as '', 1-4 blanks or a tab (chosen per line)"""
    out = []
    for l in lines:
        if not S(l).strip():
            l = C(rng.choice(["", " ", "  ", "   ", "    ", "\t", S(l)]))
        out.append(l)
    return out


def edge_lines(tab, ren, rng):
    junk = [S(ren(j)) for j in tab["junk"]]
    foot = [S(ren(f)) for f in tab["foot"]]
    return junk, foot


def run_fixed(inp, rng, stats, ren):
    tab = dict(cols=[dict(name=ren(c["name"]), w=c["w"]) for c in inp["cols"]],
               rows=[[ren(c) for c in r] for r in inp["rows"]], margin=inp["margin"], hi=bool(inp["hi"]),
               junk=blank_variants([ren(j) for j in inp["junk"]], rng), ti=inp["ti"],
               foot=blank_variants([ren(f) for f in inp["foot"]], rng))
    n = len(tab["cols"])
    mg = " " * tab["margin"]
    header = mg + "".join(S(c["name"]).ljust(c["w"]) for c in tab["cols"][:-1]) + S(tab["cols"][-1]["name"]) + sp(rng, 0, 3)
    lines = [S(j) for j in tab["junk"]] + [header]
    for r in tab["rows"]:
        text = mg
        for i, cell in enumerate(r):
            cell = S(cell)
            if i < n - 1:
                w = tab["cols"][i]["w"]
                off = rng.randrange(0, w - len(cell) + 1) if cell and rng.random() < 0.4 else 0
                text += (" " * off + cell).ljust(w)
            else:
                text += (sp(rng, 0, 3) if cell and rng.random() < 0.4 else "") + cell + sp(rng, 0, 2)
        if rng.random() < 0.5:
            text = text.rstrip()
        lines.append(text)
    lines += [S(f) for f in tab["foot"]]
    kwargs = {}
    if tab["hi"]:
        kwargs["heading_ignore"] = [S(tab["cols"][0]["name"])]
    if tab["ti"]:
        kwargs["trailing_ignore"] = [S(tab["ti"])]
    exc, res = "", []
    try:
        res = rows_of(parse_fixed_table(list(lines), **kwargs))
    except Exception as e:      # noqa
        exc = type(e).__name__
    stats["fixed"] = stats.get("fixed", 0) + 1
    return [dict(ev="fixed", tab=tab, res=res, exc=exc, text=lines[:8])]


def run_delim(inp, rng, stats, ren):
    delim = S(inp["delim"])
    if delim and not inp.get("concrete"):
        delim = rng.choice([",", "|", ";", ":"])
    tab = dict(delim=C(delim), names=[ren(x) for x in inp["names"]], rows=[[ren(c) for c in r] for r in inp["rows"]],
               hi=bool(inp["hi"]), junk=blank_variants([ren(j) for j in inp["junk"]], rng), ti=inp["ti"],
               foot=blank_variants([ren(f) for f in inp["foot"]], rng))

    def join(cells):
        if not delim:
            out = sp(rng, 0, 2)
            for i, c in enumerate(cells):
                out += ("" if i == 0 else rng.choice([" ", "  ", "\t", "   "])) + S(c)
            return out + sp(rng, 0, 2)
        pad = rng.choice([(0, 0), (1, 1), (0, 1), (2, 2)])
        return sp(rng, 0, 2) + (" " * pad[0] + delim + " " * pad[1]).join(S(c) for c in cells) + sp(rng, 0, 2)
    lines = [S(j) for j in tab["junk"]] + [join(tab["names"])] + [join(r) for r in tab["rows"]] + \
        [S(f) for f in tab["foot"]]
    kwargs = {}
    if delim or rng.random() < 0.5:
        kwargs["delim"] = delim or None
    if tab["hi"]:
        kwargs["heading_ignore"] = [S(tab["names"][0])]
    if tab["ti"]:
        kwargs["trailing_ignore"] = [S(tab["ti"])]
    exc, res = "", []
    try:
        res = rows_of(parse_delimited_table(list(lines), **kwargs))
    except Exception as e:      # noqa
        exc = type(e).__name__
    stats["delim"] = stats.get("delim", 0) + 1
    return [dict(ev="delim", tab=tab, res=res, exc=exc, text=lines[:8])]


# ---------------------------------------------------------------------------
# keyword_search
# ---------------------------------------------------------------------------
class Rows(list):
    """a list that can carry keyword_search's key-transformation cache"""


def ren_kw(kw, ren):
    text = S(kw)
    if "__" in text:
        key, _, rest = text.partition("__")
        return ren(C(key)) + C("__" + rest)
    return ren(kw)


def run_search(inp, rng, stats, ren):
    rows = [[dict(k=ren(p["k"]), v=ren(p["v"])) for p in r] for r in inp["rows"]]
    q = [dict(kw=ren_kw(t["kw"], ren), v=ren(t["v"])) for t in inp["q"]]
    rkc = bool(inp["rkc"])
    data = [dict((S(p["k"]), S(p["v"])) for p in r) for r in rows]
    cached = rng.random() < 0.4
    if cached:
        data = Rows(data)
    kwargs = dict((S(t["kw"]), S(t["v"])) for t in q)
    evs = []

    def call(query, kw):
        exc, res = "", []
        try:
            got = keyword_search(data, row_keys_change=rkc, **kw) if (rkc or rng.random() < 0.5) \
                else keyword_search(data, **kw)
            for g in got:
                hit = [i + 1 for i, r in enumerate(data) if r is g]
                res.append(hit[0] if hit else 0)
        except Exception as e:      # noqa
            exc = type(e).__name__
        evs.append(dict(ev="search", inp=dict(rows=rows, q=query, rkc=rkc), res=res, exc=exc))
    call(q, kwargs)
    if cached and q:
        # a second search over the same rows object goes through the cached key transformation
        sub = q[:1] if len(q) > 1 else q
        call(sub, dict((S(t["kw"]), S(t["v"])) for t in sub))
    stats["search"] = stats.get("search", 0) + len(evs)
    return evs


# ---------------------------------------------------------------------------
# INI
# ---------------------------------------------------------------------------
def case_variant(rng, name):
    return rng.choice([name, name.upper(), name.lower(), name.swapcase()])


def run_ini(inp, rng, stats, ren):
    doc = dict(items=[dict(t=it["t"], k=(it["k"] if it["t"] == "comment" else ren(it["k"])), v=ren(it["v"]), n=it["n"])
                      for it in inp["items"]], oi=inp["oi"])
    lines = []
    cur = None
    asked = []
    for it in doc["items"]:
        if it["t"] == "sec":
            cur = S(it["k"])
            inner = rng.choice(["", " ", "  "])
            lines.append("[" + inner + cur + inner + "]" + sp(rng, 0, 1))
        elif it["t"] == "opt":
            sepc = "=" if it["n"] == 0 else ":"
            text = " " * doc["oi"] + S(it["k"]) + sp(rng) + sepc + sp(rng) + S(it["v"])
            lines.append(text + (sp(rng, 0, 2) if it["v"] else ""))
            asked.append((cur, S(it["k"])))
        elif it["t"] == "comment":
            lines.append(" " * it["n"] + S(it["k"]) + sp(rng, 0, 1) + S(it["v"]))
        else:
            lines.append(rng.choice(["", "", "  "]))

    class Ini(IniConfigFile):
        pass

    exc, secs, gets = "", [], []
    try:
        cfg = Ini(context_wrap(list(lines)))
        for name in cfg.sections():
            secs.append(dict(name=C(name), opts=pairs_of(cfg.items(name))))
        queries = []
        for sec, opt in asked:
            queries.append((rng.choice(["", " "]) + sec + rng.choice(["", " "]), case_variant(rng, opt)))
        if asked:
            queries.append((asked[0][0], "zz9-absent"))
        for sec, opt in queries[:8]:
            err = ""
            try:
                v = cfg.get(sec, opt)
                found = True
            except Exception as e:      # noqa
                v = ""
                found = False
                if type(e).__name__ not in ("NoOptionError", "NoSectionError"):
                    err = type(e).__name__
            if bool(cfg.has_option(sec, opt)) != found:
                err = err or "has_option-disagrees-with-get"
            gets.append(dict(sec=C(sec), opt=C(opt), found=found, err=err,
                             v=C(v if isinstance(v, str) else repr(v))))
    except Exception as e:      # noqa
        exc = type(e).__name__
    stats["ini"] = stats.get("ini", 0) + 1
    return [dict(ev="ini", doc=doc, secs=secs, gets=gets, exc=exc, text=lines[:10])]


# ---------------------------------------------------------------------------
# random documents beyond TLC's bounds (TLC decides whether they are admitted)
# ---------------------------------------------------------------------------
KEYS = ["name", "Listen", "max_size", "log.level", "path", "User Name", "db-host", "ENABLED", "x", "timeout.ms"]
VALS = ["1", "yes", "/var/log/x", "a b c", "", "http://h:80/p?q=1", "k=v, j=w", "'quoted'", "100M", "on:off", "Yes"]
HEADS = ["UUID", "ID", "NAME", "TYPE", "PE", "STATE", "STATUS", "US", "DEVICE", "VICE", "Mounted", "on", "IDX", "SIZE"]
CELLS = ["", "1", "ok", "eth0", "a b", "9c1", "--", "n/a", "x y z", "12.5G", "up"]


def rand_kv(rng):
    sep = rng.choice(["=", "=", ":", "=>"])
    cc = rng.choice(["#", "#", ";", "//", ""])          # "" = comment_char None: no comments, no blank lines
    lines = []
    for _ in range(rng.randrange(0, 11)):
        r = rng.random()
        if r < 0.6 or (not cc and r < 0.85):
            v = rng.choice(VALS)
            if rng.random() < 0.3:
                v = v + sep + rng.choice(VALS)
            lines.append(dict(t="pair", k=C(rng.choice(KEYS)), v=C(v.strip()), c=bool(cc) and rng.random() < 0.4))
        elif r < 0.7 or not cc:
            lines.append(dict(t="bare", k=C(rng.choice(KEYS)), v=[], c=bool(cc) and rng.random() < 0.3))
        elif r < 0.85:
            lines.append(dict(t="comment", k=[], v=[], c=False))
        else:
            lines.append(dict(t="blank", k=[], v=[], c=False))
    filt = ""
    if rng.random() < 0.5:
        # part of a key or of a value that occurs in the document, or an unrelated word
        words = [S(l["k"]) for l in lines if l["k"]] + [S(l["v"]) for l in lines if l["v"]] + ["size", "zzz"]
        w = rng.choice(words).split()[0]
        a = rng.randrange(0, len(w))
        filt = w[a:a + rng.randrange(1, 5)] if rng.random() < 0.5 else w
    return dict(lines=lines, sep=C(sep), cc=C(cc), part=rng.random() < 0.5, filt=C(filt))


def rand_active(rng):
    alphabet = "ab #;/ =\t"
    cc = rng.choice(["#", "#", ";", "//"])
    return dict(lines=[C("".join(rng.choice(alphabet) for _ in range(rng.randrange(0, 12))))
                       for _ in range(rng.randrange(0, 6))], cc=C(cc))


def rand_edges(rng, first):
    hi = rng.random() < 0.4
    ti = rng.choice(["", "", "--", "Total:"])
    junk = [C(rng.choice(["# generated", "", "WARNING: stale cache", "   note", "  ", "\t"]))
            for _ in range(rng.randrange(0, 3))] if hi else []
    foot = [C(rng.choice([ti + " 3 rows", "", ti, "  " + ti + " end", "   ", " "])) for _ in range(rng.randrange(0, 4))] if ti else []
    return dict(hi=hi, junk=junk, ti=C(ti), foot=foot)


def rand_fixed(rng):
    n = rng.randrange(1, 6)
    names = rng.sample(HEADS, n)
    cols = [dict(name=C(x), w=len(x) + rng.choice([1, 1, 2, 3, 6])) for x in names]
    rows = []
    for _ in range(rng.randrange(0, 6)):
        row = []
        for i, c in enumerate(cols):
            cell = rng.choice(CELLS)
            if i < n - 1 and len(cell) > c["w"]:
                cell = cell[:c["w"]].strip()
            if rng.random() < 0.15 and i < n - 1:
                cell = "z" * c["w"]
            row.append(C(cell))
        rows.append(row)
    t = dict(cols=cols, rows=rows, margin=rng.choice([0, 0, 1, 4]))
    t.update(rand_edges(rng, names[0]))
    return t


def rand_delim(rng):
    delim = rng.choice(["", "", ",", "|", ";", ":"])
    n = rng.randrange(1, 6)
    names = rng.sample(HEADS if not delim else HEADS + ["Mounted on", "IP addr"], n)
    rows = []
    for _ in range(rng.randrange(0, 6)):
        m = n if rng.random() < 0.8 else rng.randrange(1, n + 1)
        cells = [rng.choice([c for c in CELLS if (delim or (c and " " not in c)) and (not delim or delim not in c)])
                 for _ in range(m)]
        rows.append([C(c) for c in cells])
    t = dict(delim=C(delim), names=[C(x) for x in names], rows=rows, concrete=True)
    t.update(rand_edges(rng, names[0]))
    return t


SKEYS = ["item", "fix-up path", "Local Address", "value", "pid", "user-name", "TYPE"]
SVALS = ["nofile", "Nofile", "stack", "soft", "/usr/bin/x", "", "127.0.0.1:80", "hard"]


def rand_search(rng):
    keys = rng.sample(SKEYS, rng.randrange(1, 4))
    rkc = rng.random() < 0.4
    rows = []
    for _ in range(rng.randrange(0, 7)):
        ks = keys if not rkc or rng.random() < 0.6 else rng.sample(SKEYS, rng.randrange(1, 4))
        rows.append([dict(k=C(key), v=C(rng.choice(SVALS))) for key in ks])
    q = []
    used = set()
    for _ in range(rng.choice([0, 1, 1, 1, 2, 2, 3])):
        key = rng.choice(keys + ["absent"]) if rng.random() < 0.9 else rng.choice(SKEYS)
        kw = key.replace(" ", "_").replace("-", "_")
        suffix = rng.choice(["", "", "__contains", "__startswith", "__endswith", "__lower_value", "__regex"])
        v = rng.choice(SVALS)
        if suffix in ("__contains", "__startswith", "__endswith") and v and rng.random() < 0.7:
            a = rng.randrange(0, len(v))
            v = {"__contains": v[a:a + 3], "__startswith": v[:a + 1], "__endswith": v[a:]}[suffix]
        if suffix == "__lower_value" and rng.random() < 0.5:
            v = v.upper()
        if kw + suffix in used:
            continue
        used.add(kw + suffix)
        q.append(dict(kw=C(kw + suffix), v=C(v)))
    return dict(rows=rows, q=q, rkc=rkc)


SECS = ["main", "Main", "global", "program opts", "logging", "db:primary", "section.1"]
OPTS = ["key", "Key", "KEY", "log level", "memsize", "Delay", "admin_token", "ssl-verify", "x"]
IVALS = ["1", "true", "a b c", "", "http://h:80/p", "a ; b", "k=v", "1.5", "/var/log/x", "ADMIN", "50%"]


def rand_ini(rng):
    oi = rng.choice([0, 0, 2, 4])
    items = [dict(t="sec", k=C(rng.choice(SECS)), v=[], n=0)]
    for _ in range(rng.randrange(0, 12)):
        r = rng.random()
        if r < 0.15:
            items.append(dict(t="sec", k=C(rng.choice(SECS)), v=[], n=0))
        elif r < 0.7:
            items.append(dict(t="opt", k=C(rng.choice(OPTS)), v=C(rng.choice(IVALS)), n=rng.randrange(2)))
        elif r < 0.88:
            # comment lines: at the left margin or level with the options (deeper ones: see known finding D16,
            # exercised by the enumerated documents and by a quarter of the random ones)
            ind = rng.choice([0, oi, oi, oi + 2]) if rng.random() < 0.25 else rng.choice([0, oi])
            items.append(dict(t="comment", k=C(rng.choice("#;")), v=C(rng.choice(["note", "k = v", "[x]", ""])), n=ind))
        else:
            items.append(dict(t="blank", k=[], v=[], n=0))
    return dict(items=items, oi=oi)


RUN = {"kv": run_kv, "active": run_active, "fixed": run_fixed, "delim": run_delim, "search": run_search, "ini": run_ini}
RAND = {"kv": rand_kv, "active": rand_active, "fixed": rand_fixed, "delim": rand_delim, "search": rand_search,
        "ini": rand_ini}


def main():
    with open(sys.argv[1]) as f:
        payload = json.load(f)
    seed = payload.get("seed", 0)
    nvar = payload.get("nvar", 1)
    stats = {}
    traces = []
    for c in payload.get("cases", []):
        for v in range(nvar):
            rng = random.Random("%s/%s/%d" % (seed, c["id"], v))
            ren = renaming(rng, identity=(v == 0 and seed % 2 == 0))
            evs = RUN[c["fam"]](c["inp"], rng, stats, ren)
            traces.append(dict(id="%s/v%d" % (c["id"], v), fam=c["fam"], events=evs))
    for fam, n in sorted(payload.get("random", {}).items()):
        for i in range(n):
            rng = random.Random("%s/rand/%s/%s/%d" % (seed, payload.get("chunk", 0), fam, i))
            inp = RAND[fam](rng)
            evs = RUN[fam](inp, rng, stats, renaming(rng, True))
            traces.append(dict(id="rand-%s-%s-%d/v0" % (fam, payload.get("chunk", 0), i), fam=fam, events=evs))
    with open(sys.argv[2], "w") as f:
        json.dump(dict(traces=traces, stats=stats), f, separators=(",", ":"))


if __name__ == "__main__":
    main()
