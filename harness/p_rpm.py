"""C13: package version comparison is RPM's ordering.

Model: specs/RpmVercmp.tla (reference VerCmp / EvrCmp, laws) checked and
enumerated by specs/RpmVercmpMC.tla; driver harness/drive_rpm.py; trace
validation specs/RpmVercmpTrace.tla."""
import concurrent.futures
import json
import os
import random
import time

import lib

TILDE, CARET = 126, 94
NONASCII = [0xe9, 0x3b1, 0xff11, 0xb2, 0x660, 0x4e2d]       # e-acute, alpha, fullwidth 1, superscript 2, arabic 0, CJK
SEPS = [ord(c) for c in "-_+/: ,"]
DIGITS = [ord(c) for c in "0123456789"]
LETTERS = [ord(c) for c in "abcxyzABXZ"]

ALL_BRANCHES = ["identical", "tilde", "caret-vs-end", "caret-vs-segment", "equal", "leftover", "num-vs-alpha",
                "num-length", "num-length-zeros", "num-digits", "num-digits-zeros", "alpha"]

ASSUMPTIONS = [
    "the reference VerCmp is a transcription of rpm's lib/rpmvercmp.c (rpm >= 4.15); it is validated against the "
    "upstream rpmvercmp.at table kept in insights/tests/parsers/test_rpm_vercmp.py on every run",
    "strings are sequences of Unicode code points >= 1; a code >= 128 stands for the bytes of a non-ASCII character, "
    "which rpm's ASCII-only classifiers treat as separators",
    "epochs are absent, '(none)' or decimal numerals of at most 9 digits",
    "exhaustive only up to the stated string lengths over the stated alphabets; longer strings are sampled from VERIF_SEED",
    "packages are compared under one name; hashing is not constrained (the property does not state it)",
]


def cfg_text(c):
    def st(xs):
        return "{" + ", ".join(str(x) for x in sorted(xs)) + "}"
    return "\n".join([
        "SPECIFICATION Spec", "CONSTANTS",
        '  Mode = "%s"' % c["mode"],
        "  SymSet = %s" % st(c.get("sym", [])), "  L = %d" % c.get("L", 0), "  TL = %d" % c.get("TL", 0),
        "  EpochNums = %s" % st(c.get("epochs", [])),
        "  VSymSet = %s" % st(c.get("vsym", [])), "  VL = %d" % c.get("VL", 0),
        "  RSymSet = %s" % st(c.get("rsym", [])), "  RL = %d" % c.get("RL", 0),
        "INVARIANT RowLaws", "CONSTRAINT Emit", "CHECK_DEADLOCK FALSE", ""])


def codes(s):
    return [ord(c) for c in s]


def seeded_alphabet(rng, n):
    """n symbols: always a non-ASCII character and a separator other than '.', the rest drawn from
    digits / letters / tilde / caret."""
    sym = {rng.choice(NONASCII), rng.choice(SEPS)}
    pool = DIGITS + LETTERS + [TILDE, CARET, 48, 48]
    while len(sym) < n:
        sym.add(rng.choice(pool))
    return sorted(sym)


def plan(tier, rng):
    if tier == "quick":
        return [
            dict(name="v8", mode="ver", sym=codes("012ab.~^"), L=3, TL=2),
            dict(name="vseed", mode="ver", sym=seeded_alphabet(rng, 7), L=3, TL=2),
            dict(name="evr", mode="evr", epochs=[0, 2, 10], vsym=codes("01a~"), VL=2, rsym=codes("1^"), RL=1),
        ]
    return [
        dict(name="v8", mode="ver", sym=codes("012ab.~^"), L=3, TL=2),
        dict(name="v10", mode="ver", sym=codes("012ab.-~^") + [0xe9], L=3, TL=2),
        dict(name="v6l4", mode="ver", sym=codes("01a.~^"), L=4, TL=2),
        dict(name="v5t3", mode="ver", sym=codes("01a.~"), L=3, TL=3),
        dict(name="v5t3c", mode="ver", sym=codes("09b^") + [0x3b1], L=3, TL=3),
        dict(name="vseed", mode="ver", sym=seeded_alphabet(rng, 7), L=3, TL=2),
        dict(name="vseed2", mode="ver", sym=seeded_alphabet(rng, 5), L=4, TL=3),
        dict(name="evr", mode="evr", epochs=[0, 2, 10], vsym=codes("01a~."), VL=2, rsym=codes("1a^"), RL=1),
        dict(name="evr2", mode="evr", epochs=[1, 9, 10, 100], vsym=codes("09^"), VL=2, rsym=codes("0~") + [0xe9], RL=2),
    ]


# ---- seeded random inputs beyond TLC's bounds ------------------------------

def rand_segment(rng):
    k = rng.random()
    if k < 0.35:
        n = rng.choice([1, 1, 2, 3, 5, 9])
        return [48] * rng.choice([0, 0, 0, 1, 2]) + [rng.choice(DIGITS) for _ in range(n)]
    if k < 0.6:
        return [rng.choice(LETTERS) for _ in range(rng.choice([1, 1, 2, 3]))]
    if k < 0.8:
        return [rng.choice(SEPS + [46, 46, 46])] * rng.choice([1, 1, 2])
    if k < 0.88:
        return [TILDE]
    if k < 0.95:
        return [CARET]
    return [rng.choice(NONASCII)]


def rand_string(rng, maxlen):
    s = []
    for _ in range(rng.randint(0, 6)):
        s += rand_segment(rng)
    return s[:maxlen]


def mutate(rng, s, maxlen):
    s = list(s)
    k = rng.randint(0, 9)
    pos = rng.randint(0, len(s))
    if k == 0 and s:
        del s[min(pos, len(s) - 1)]
    elif k == 1:
        s[pos:pos] = rand_segment(rng)
    elif k == 2:
        s += rand_segment(rng)
    elif k == 3:
        s[pos:pos] = [48]
    elif k == 4 and s:
        p = min(pos, len(s) - 1)
        s[p] = s[p] + rng.choice([-1, 1]) if 49 <= s[p] <= 56 or 98 <= s[p] <= 121 else s[p]
    elif k == 5:
        s += [rng.choice([TILDE, CARET])] + rand_segment(rng)
    elif k == 6:
        s[pos:pos] = [rng.choice(SEPS + [46])]
    elif k == 7 and s:
        s = s[:pos]
    elif k == 8:
        s = [rng.choice(SEPS + [46])] * rng.randint(0, 2) + s + [rng.choice(SEPS + [46])] * rng.randint(0, 2)
    else:
        s[pos:pos] = [rng.choice(NONASCII)]
    return s[:maxlen]


def rand_family(rng, n, maxlen):
    """n distinct strings that share material, so that all pairs among them compare deep."""
    out, seen = [], set()
    while len(out) < n:
        if not out or rng.random() < 0.15:
            s = rand_string(rng, maxlen)
        else:
            s = mutate(rng, rng.choice(out), maxlen)
        if tuple(s) not in seen:
            seen.add(tuple(s))
            out.append(s)
    return out


EPOCH_POOL = ["", "(none)", "0", "00", "1", "2", "9", "10", "010", "11", "100", "999999999"]


def rand_evrs(rng, n, maxlen):
    vs = rand_family(rng, max(4, n // 4), maxlen)
    rs = rand_family(rng, max(3, n // 6), maxlen)
    out, seen = [], set()
    while len(out) < n:
        x = dict(e=codes(rng.choice(EPOCH_POOL)), v=rng.choice(vs), r=rng.choice(rs))
        key = json.dumps(x)
        if key not in seen:
            seen.add(key)
            out.append(x)
    return out


SAFE = set(ord(c) for c in "abcdefghijklmnopqrstuvwxyzABCDEFGHIJKLMNOPQRSTUVWXYZ0123456789._~^+")


def text_safe(x):
    """Can the `rpm -qa` / `yum list` text formats carry this triple?  (which lists are offered to those
    parsers is a concretisation choice; the driver re-checks)"""
    return bool(x["v"]) and bool(x["r"]) and set(x["v"]) | set(x["r"]) <= SAFE and all(48 <= c <= 57 for c in x["e"])


def sel_lists(rng, items, count, maxsize=5):
    """Package lists (as index sequences, order significant, repeats allowed) for newest / oldest; every
    other list only uses triples that the text formats can carry."""
    every = list(range(1, len(items) + 1))
    safe = [i for i in every if text_safe(items[i - 1])]
    out = []
    for n in range(count):
        pool = safe if n % 2 and len(safe) >= 2 else every
        out.append([rng.choice(pool) for _ in range(rng.randint(1, maxsize))])
    return out


# ---- orchestration ---------------------------------------------------------

def split_rows(n, parts):
    parts = max(1, min(parts, n))
    return [list(range(1 + p, n + 1, parts)) for p in range(parts)]


def show(cs):
    return "".join(chr(c) for c in cs)


def show_evr(x):
    return "%s:%s-%s" % (show(x["e"]) or "<absent>", show(x["v"]), show(x["r"]))


def build_jobs(blocks, rng, parts):
    """blocks: list of dict(name, kind 'ver'|'evr', items, nsel).  Returns driver jobs."""
    jobs = []
    for b in blocks:
        n = len(b["items"])
        chunks = split_rows(n, parts if n >= 100 else 1)
        for ci, rows in enumerate(chunks):
            jid = "%s/%d" % (b["name"], ci)
            if b["kind"] == "ver":
                jobs.append(dict(id=jid, kind="vrows", strs=b["items"], rows=rows))
            else:
                sel = sel_lists(rng, b["items"], (b.get("nsel", 0) + len(chunks) - 1) // len(chunks))
                jobs.append(dict(id=jid, kind="erows", evrs=b["items"], rows=rows, sel=sel, variant=rng.randint(0, 5)))
    jobs.append(dict(id="upstream-table/0", kind="table"))
    return jobs


def validate(traces, jobs=None):
    return lib.validate_traces("RpmVercmpTrace", "RpmVercmpTrace.cfg", traces, jobs=jobs, chunk=None)


def describe(trace, rej):
    """Concrete input of a rejection, for the VIOLATION text and the replay file."""
    ev = trace["events"][rej["line"] - 1]
    at = rej.get("at", [])
    if ev["ev"] in ("vrow", "table") and len(at) == 2:
        a, b = trace["strs"][at[0] - 1], trace["strs"][at[1] - 1]
        got = ev["rs"][at[1] - 1] if ev["ev"] == "vrow" else ev["r"]
        return ("_rpm_vercmp(%r, %r) observed %s" % (show(a), show(b), got),
                dict(id="replay/0", kind="vrows", strs=[a, b], rows=[1, 2]))
    if ev["ev"] == "erow" and len(at) == 2:
        a, b = trace["evrs"][at[0] - 1], trace["evrs"][at[1] - 1]
        return ("%s(arch %r) %s vs %s(arch %r) %s: rpm_version_compare observed %s, operators [<,==,>,<=,>=,!=] observed %s"
                % (ev["lc"], ev["la"], show_evr(a), ev["rc"], ev["ra"], show_evr(b), ev["cmp"][at[1] - 1],
                   ev["ops"][at[1] - 1]),
                dict(id="replay/0", kind="erows", evrs=[a, b], rows=[1, 2], sel=[], variant=0))
    if ev["ev"] == "sel":
        pk = [trace["evrs"][i - 1] for i in ev["pk"]]
        return ("%s holding %s (in this order; it reports %s of them): newest -> position %s, oldest -> %s, "
                "get_max -> %s, get_min -> %s (0: none of them, -1: raised)"
                % (ev["via"], [show_evr(x) for x in pk], ev["n"], ev["mx"], ev["mn"], ev["gmx"], ev["gmn"]),
                dict(id="replay/0", kind="erows", evrs=pk, rows=[], variant=0,
                     sel=[list(range(1, ev.get("first", len(pk)) + 1))] +
                         ([list(range(ev["first"] + 1, len(pk) + 1))] if ev.get("first") else [])))
    return ("event %r" % (ev,), None)


def selftest(traces):
    """Binding demonstration (R5): a recorded trace with one corrupted result must be rejected,
    and exactly there."""
    import copy
    muts = []
    for want in ("vrow", "erow", "sel"):
        for t in traces:
            evs = [e for e in t["events"] if e["ev"] == want]
            if evs:
                e = copy.deepcopy(evs[0])
                if want == "vrow":
                    e["rs"][-1] = {0: 1, 1: -1, -1: 0}.get(e["rs"][-1], 0)
                elif want == "erow":
                    e["ops"][-1][3] = not e["ops"][-1][3]
                else:
                    e["gmx"] = 0                      # "returned none of the packages"
                muts.append(dict(id="selftest-" + want, strs=t["strs"], evrs=t["evrs"], events=[evs[0], e]))
                break
    val = validate(muts, jobs=1)
    got = sorted((r["id"], r["line"]) for r in val["rejected"])
    if got != sorted((m["id"], 2) for m in muts) or len(muts) != 3:
        raise lib.MachineryError("self-test: corrupted traces were not rejected exactly where corrupted: %s" % (got,))
    print("self-test: %d corrupted traces rejected at the corrupted event" % len(muts))


def run(prop, tier):
    rng = random.Random(lib.seed() * 7919 + 13)
    t0 = time.time()
    gen = lib.subdir("gencfg-rpm")
    cfgs = plan(tier, rng)
    heavy = max(2, lib.NCPU // 2)

    def model(c):
        path = os.path.join(gen, "RpmVercmpMC_%s.cfg" % c["name"])
        with open(path, "w") as f:
            f.write(cfg_text(c))
        r = lib.run_tlc("RpmVercmpMC", path, workers=max(2, heavy // 2), tag="rpm-" + c["name"], timeout=3000)
        lib.require_ok(r, "RpmVercmp model " + c["name"])
        return c, r

    models, blocks, expected, branches = [], [], {}, {}
    with concurrent.futures.ThreadPoolExecutor(max_workers=3 if tier == "quick" else 4) as ex:
        for c, r in ex.map(model, cfgs):
            cases = sorted(r.cases, key=lambda x: x["k"])
            if [x["k"] for x in cases] != list(range(1, len(cases) + 1)) or not cases:
                raise lib.MachineryError("model %s: emitted rows are not 1..N" % c["name"])
            items = [x["x"] for x in cases]
            whys = set()
            for x in cases:
                expected[(c["name"], x["k"])] = x["row"]
                whys.update(x["whys"])
            branches[c["name"]] = sorted(whys)
            # vacuity: the fixed exhaustive alphabet must drive the reference through every branch
            if c["name"] == "v8" and set(ALL_BRANCHES) - whys:
                raise lib.MachineryError("branches of VerCmp never decisive in %s: %s"
                                         % (c["name"], sorted(set(ALL_BRANCHES) - whys)))
            if c["name"] == "evr" and not {"epoch"} <= whys or c["name"] == "evr" and not any(
                    w.startswith("release.") for w in whys):
                raise lib.MachineryError("EvrCmp never decided by epoch / release in %s: %s" % (c["name"], sorted(whys)))
            r.cases = []
            models.append(r)
            blocks.append(dict(name=c["name"], kind="ver" if c["mode"] == "ver" else "evr", items=items,
                               nsel=(1200 if tier == "quick" else 12000) if c["mode"] == "evr" else 0,
                               cfg=c))
    print("timing: models %.1fs (%s)" % (time.time() - t0, ", ".join("%s:%d items" % (b["name"], len(b["items"]))
                                                                      for b in blocks)))
    # random inputs beyond the model's bounds
    nfam = (4, 170, 2, 70) if tier == "quick" else (12, 320, 6, 150)
    for i in range(nfam[0]):
        blocks.append(dict(name="rand%d" % i, kind="ver", items=rand_family(rng, nfam[1], 12 if i % 2 == 0 else 24)))
    for i in range(nfam[2]):
        blocks.append(dict(name="randevr%d" % i, kind="evr", items=rand_evrs(rng, nfam[3], 10),
                           nsel=400 if tier == "quick" else 3000))

    t1 = time.time()
    jobs = build_jobs(blocks, rng, lib.NCPU)
    rng.shuffle(jobs)
    payloads = [dict(jobs=ch) for ch in lib.chunks(jobs, lib.NCPU) if ch]
    outs = lib.run_driver_parallel("drive_rpm.py", payloads, timeout=3000)
    traces, stats = [], {}
    for o in outs:
        traces.extend(o["traces"])
        for k, v in o["stats"].items():
            stats[k] = stats.get(k, 0) + v
    print("timing: drivers %.1fs, %d traces, %s" % (time.time() - t1, len(traces), stats))
    vias = ["json", "line", "yum-installed", "yum-available", "mixin", "extended"]
    vacuous = None
    pairs = ["InstalledRpm_InstalledRpm", "YumListRpm_InstalledRpm", "InstalledRpm_YumListRpm", "YumListRpm_YumListRpm",
             "OwnRpm_InstalledRpm", "InstalledRpm_OwnRpm", "OwnRpm_YumListRpm"]
    if not stats.get("vercmp_calls") or not stats.get("op_calls") or not stats.get("sel_calls") \
            or any(not stats.get("sel_" + v) for v in vias) or any(not stats.get("pair_" + v) for v in pairs) \
            or any(not stats.get("again_" + v) for v in ("reparse", "append", "insert")) \
            or len([k for k in stats if k.startswith("arch_")]) < 8:
        vacuous = "driver did not reach all of the code under test (every kind of RpmList included): %s" % stats

    t1 = time.time()
    val = validate(traces)
    print("timing: validation %.1fs (%d events, %d JVMs)" % (time.time() - t1, val["events"], val["jvms"]))

    if vacuous and not val["rejected"]:
        raise lib.MachineryError(vacuous)          # with rejections it is a verdict, not vacuity
    byid = dict((t["id"], t) for t in traces)
    rejected = {}
    for rj in val["rejected"]:
        rejected[(rj["id"], rj["line"])] = rj
    # R4: the transcription must reproduce the upstream table
    bad = [rj for rj in val["rejected"] if rj["id"].startswith("upstream-table/") or rj["clause"] == "malformed-event"]
    if bad:
        t = byid[bad[0]["id"]]
        raise lib.MachineryError("reference transcription / trace shape rejected: %s (%s)"
                                 % (bad[0]["clause"], describe(t, bad[0])[0]))
    ntable = sum(len(t["events"]) for t in traces if t["id"].startswith("upstream-table/"))
    if ntable < 90:
        raise lib.MachineryError("upstream table has only %d rows" % ntable)
    # consistency of the two directions: the table TLC emitted and TLC's verdict on the observed row
    for t in traces:
        name = t["id"].split("/")[0]
        for ln, ev in enumerate(t["events"], 1):
            exp = expected.get((name, ev.get("a")))
            if exp is None or ev["ev"] not in ("vrow", "erow"):
                continue
            same = exp == (ev["rs"] if ev["ev"] == "vrow" else ev["cmp"])
            if not same and (t["id"], ln) not in rejected:
                raise lib.MachineryError("emitted table and trace validation disagree on %s event %d" % (t["id"], ln))

    if tier == "thorough" or os.environ.get("VERIF_SELFTEST"):
        selftest(traces)

    verdict = lib.Verdict(prop, tier)
    per_sig = {}
    for rj in val["rejected"]:
        t = byid[rj["id"]]
        s = lib.sig(prop, rj["clause"])
        per_sig[s] = per_sig.get(s, 0) + 1
        if per_sig[s] > 3 and s not in verdict.known:
            continue
        what, job = describe(t, rj)
        verdict.reject(s, "%s; reference clause %s" % (what, rj["clause"]),
                       dict(job=job, trace_id=rj["id"], event=rj["line"], clause=rj["clause"]))
    if per_sig:
        print("note: rejected events per signature: %s" % json.dumps(per_sig, sort_keys=True)[:3000])

    # ---- evidence ----
    calls = stats["vercmp_calls"] + stats["evr_calls"] + stats["op_calls"] + stats["sel_calls"] + ntable
    seen, distinct = set(), 0
    for b in blocks:
        keys = set(json.dumps(x, sort_keys=True) for x in b["items"])
        old = len(keys & seen)
        distinct += len(keys) * (len(keys) - 1) - old * (old - 1 if old else 0)
        seen |= keys
    v8 = blocks[0]["items"]
    samples = [
        dict(call="_rpm_vercmp", a=show(v8[min(37, len(v8) - 1)]), b=show(v8[min(301, len(v8) - 1)]),
             reference=expected[(blocks[0]["name"], min(37, len(v8) - 1) + 1)][min(301, len(v8) - 1)]),
        dict(block="rand0", strings=[show(s) for s in blocks[len(cfgs)]["items"][:8]]),
        dict(block="evr", triples=[show_evr(x) for x in [b for b in blocks if b["kind"] == "evr"][0]["items"][40:46]]),
        dict(trace_id=traces[0]["id"], event=dict((k, (v[:12] if isinstance(v, list) else v))
                                                  for k, v in traces[0]["events"][0].items()) if traces[0]["events"] else {}),
    ]
    ev = lib.evidence(
        prop, tier, models, val, evaluations=calls, distinct_nontrivial=distinct,
        rule="every string over the listed alphabets up to the listed length (TLC enumerates them and checks the "
             "ordering laws on the reference) is compared with every other by the real _rpm_vercmp; every EVR triple "
             "of the evr blocks with every other by rpm_version_compare and the six InstalledRpm operators; "
             "newest/oldest on seeded package lists; plus all pairs inside seeded families of longer strings. "
             "evaluations = calls of the code under test whose result TLC compared with the reference; "
             "distinct_nontrivial = distinct ordered pairs (a, b) of different inputs, counted per block as n(n-1) "
             "minus the pairs of inputs already present in an earlier block",
        samples=samples, assumptions=ASSUMPTIONS,
        extra=dict(blocks=[dict(name=b["name"], kind=b["kind"], items=len(b["items"]),
                                alphabet=[show([c]) for c in b["cfg"].get("sym", [])] if "cfg" in b else "seeded",
                                max_len=b["cfg"].get("L") if "cfg" in b else None) for b in blocks],
                   laws_checked_on_model=["Reflexive", "WalkReflexive", "Antisymmetric", "TotalPreorder(rank)",
                                          "ThreeValued", "OpsExactlyOne", "EvrOrder", "Transitive(triples)",
                                          "EqIsCongruence(triples)"],
                   upstream_table_rows_validated=ntable, driver_stats=stats, reference_branches_decisive=branches,
                   exhaustive=False))
    return verdict.finish(ev)


def replay(prop, path):
    with open(path) as f:
        rec = json.load(f)
    print(json.dumps(dict(signature=rec["signature"], what=rec["what"]), indent=1))
    job = rec["replay"].get("job")
    if not job:
        return 0
    out = lib.run_driver("drive_rpm.py", dict(jobs=[job]))
    val = validate(out["traces"], jobs=1)
    for rj in val["rejected"]:
        print("still rejected: clause %s: %s" % (rj["clause"], describe(out["traces"][0], rj)[0]))
    if not val["rejected"]:
        print("the recorded case is accepted on the current tree")
    return 1 if val["rejected"] else 0
