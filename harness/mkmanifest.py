#!/usr/bin/env python3
"""Assemble /verif/MANIFEST.json from harness/registry/*.json (one file per claimed property)."""
import json
import os

HERE = os.path.dirname(os.path.dirname(os.path.abspath(__file__)))
props = [json.loads(l)["id"] for l in open(os.path.join(HERE, "properties.jsonl")) if l.strip()]
reg = {}
d = os.path.join(HERE, "harness", "registry")
for fn in sorted(os.listdir(d)):
    if fn.endswith(".json"):
        r = json.load(open(os.path.join(d, fn)))
        reg[r["property_id"]] = r
ready_path = os.path.join(d, "READY")
if os.path.exists(ready_path):
    ready = set(open(ready_path).read().split())
    reg = dict((k, v) for k, v in reg.items() if k in ready)
na_path = os.path.join(d, "not_applicable.txt")
na_reason = {}
if os.path.exists(na_path):
    for line in open(na_path):
        if line.strip():
            k, _, v = line.strip().partition(" ")
            na_reason[k] = v
checks = []
engines = {}
for p in props:
    if p in reg:
        r = dict(reg[p])
        r.pop("module", None)
        checks.append(r)
        engines.setdefault(r.get("engine", "tlc"), []).append(p)
man = {
    "version": 1,
    "setup_cmd": "./check --setup",
    "hooks": {
        "guard": "INSIGHTS_CORE_VERIF",
        "enable": "no source hooks are needed: executions are observed through public API (Broker observers, "
                  "wrapped module functions inside the driver process, recording contexts, temp directories); "
                  "the guard name is reserved and unused, /repo contains no instrumentation",
        "baseline_off_cmd": "python3 harness/baseline.py",
        "source_commits": [],
        "add_only": True,
    },
    "engines": [dict(name=k, path="harness/lib.py", serves_properties=v,
                     kind_free_text="TLC model checking of specs/*.tla + replay drivers + TLC trace validation")
                for k, v in sorted(engines.items())],
    "checks": checks,
    "notes": "All checks: ./check <id> --tier quick|thorough. Exit 2 = machinery failure (never a verdict). "
             "known_findings.json lists recorded (open) and repaired (fixed) defects.",
    "not_applicable": [dict(property_id=p, reason=na_reason.get(p, "check not built yet in this round (planned, see DESIGN.md section 5)"))
                       for p in props if p not in reg],
}
json.dump(man, open(os.path.join(HERE, "MANIFEST.json"), "w"), indent=1)
print("MANIFEST.json: %d checks, %d not_applicable" % (len(checks), len(man["not_applicable"])))
