"""C19: parser combinators implement ordered-choice PEG semantics; the JSON and
tag-expression grammars agree with their reference meaning.

Models: specs/Peg.tla (+PegMC), specs/TagLang.tla (+TagLangMC), specs/JsonDoc.tla
(+JsonDocMC); driver harness/drive_peg.py; trace validation PegTrace.tla,
TagLangTrace.tla, JsonDocTrace.tla."""
import concurrent.futures
import json
import os
import random
import string
import time

import lib

ASSUMPTIONS = [
    "terms: repetition (Many, Until) only over sub-terms that consume input on success (the property's quantifier); "
    "functions given to Map / Lift are total or raise Backtrack",
    "combinator semantics is observed through parser(input) and through the documented process(pos, data, ctx) protocol",
    "tag expressions are written under the grammar's lexical contract: nothing between '!' and its operand, a bare "
    "regex ends at a blank, directly nested negation is parenthesised, bare tags contain no operator character",
    "documented JSON subset: integers and plain decimals, non-empty ASCII strings needing no escape other than \\\", "
    "true/false/null, arrays, objects, texts as written by json.dumps (compact, default, indent=2)",
    "exhaustive only inside the listed TLC configurations; deeper terms / expressions / documents are seeded samples",
]

ALL_BIN = ["seq", "choice", "until", "kl", "kr", "fb", "nfb", "lift1", "lift3", "lift4"]


def peg_cfg(c):
    def st(xs, q=False):
        return "{" + ", ".join(('"%s"' % x) if q else str(x) for x in xs) + "}"
    alpha = "{" + ", ".join('"%s"' % ("BS" if ch == "\\" else ch) for ch in c["alpha"]) + "}"
    return "\n".join(["SPECIFICATION Spec", "CONSTANTS",
                      "  LeafIds = %s" % st(c["leaves"]), "  UnIds = %s" % st(c["un"]),
                      "  BinIds = %s" % st(c["bin"], True), "  Depth = %d" % c["depth"],
                      "  Nary = %s" % ("TRUE" if c.get("nary") else "FALSE"),
                      "  Alpha = %s" % alpha, "  MaxLen = %d" % c["maxlen"],
                      "INVARIANT TermLaws", "CONSTRAINT Emit", "CHECK_DEADLOCK FALSE", ""])


def atom_cfg(inv, c):
    return "\n".join(["SPECIFICATION Spec", "CONSTANTS",
                      "  AtomIds = {%s}" % ", ".join(str(x) for x in c["atoms"]), "  Depth = %d" % c["depth"],
                      "INVARIANT %s" % inv, "CONSTRAINT Emit", "CHECK_DEADLOCK FALSE", ""])


def plan(tier):
    deep_bin = ["seq", "choice", "until", "kl", "kr", "fb", "nfb", "lift4"]
    if tier == "quick":
        return [
            dict(name="deep2", mod="PegMC", leaves=[1, 2], un=[1, 2, 4, 5, 6, 8], bin=deep_bin, depth=2, nary=True,
                 alpha=["a", "b"], maxlen=3, sample=9000),
            dict(name="leafy1", mod="PegMC", leaves=list(range(1, 19)), un=list(range(1, 9)), bin=ALL_BIN, depth=1,
                 alpha=["a", "b", "\\"], maxlen=3),
            dict(name="leafy1c", mod="PegMC", leaves=list(range(1, 19)), un=list(range(1, 9)), bin=ALL_BIN, depth=1,
                 alpha=["a", "b", "A"], maxlen=2),
            dict(name="tag2", mod="TagLangMC", atoms=[1, 2, 3, 4, 5], depth=2),
            dict(name="json2", mod="JsonDocMC", atoms=[1, 2, 3, 4, 6, 8], depth=2),
            dict(name="json1", mod="JsonDocMC", atoms=list(range(1, 21)), depth=1),
        ]
    return [
        dict(name="deep2", mod="PegMC", leaves=[1, 2], un=[1, 2, 4, 5, 6, 8], bin=deep_bin, depth=2, nary=True,
             alpha=["a", "b"], maxlen=4),
        dict(name="deep2e", mod="PegMC", leaves=[1, 2, 3], un=[1, 2, 3, 4, 6, 7, 8],
             bin=["seq", "choice", "until", "kl", "kr", "fb", "nfb", "lift3"], depth=2, nary=True,
             alpha=["a", "b"], maxlen=4),
        dict(name="leafy1", mod="PegMC", leaves=list(range(1, 19)), un=list(range(1, 9)), bin=ALL_BIN, depth=1,
             alpha=["a", "b", "A", "\\"], maxlen=4),
        dict(name="tag2", mod="TagLangMC", atoms=[1, 2, 3, 4, 5], depth=2),
        dict(name="tag2b", mod="TagLangMC", atoms=[6, 7, 8, 9, 10], depth=2),
        dict(name="json2", mod="JsonDocMC", atoms=list(range(1, 9)), depth=2),
        dict(name="json1", mod="JsonDocMC", atoms=list(range(1, 21)), depth=1),
    ]


# ---- seeded random cases beyond the models' bounds --------------------------

RALPHA = ["a", "b", "A", "B", "\\", "k"]


def nd(k, s=(), e=(), n=0, d=(), ts=()):
    return dict(k=k, s=list(s), e=list(e), n=n, d=list(d), ts=list(ts))


def consumes(t):
    """Mirror of Consumes in Peg.tla (only used to generate well-formed terms; TLC re-checks WF)."""
    k = t["k"]
    if k in ("char", "inset", "any"):
        return True
    if k == "str":
        return t["n"] >= 1
    if k == "lit":
        return len(t["s"]) >= 1
    if k in ("eof", "until", "opt"):
        return False
    if k in ("seq", "lift", "kl", "kr"):
        return any(consumes(c) for c in t["ts"])
    if k == "choice":
        return all(consumes(c) for c in t["ts"])
    if k == "many":
        return t["n"] >= 1 and consumes(t["ts"][0])
    return consumes(t["ts"][0])


def rand_leaf(rng):
    k = rng.choice(["char", "char", "inset", "any", "eof", "str", "str", "lit", "lit"])
    sub = lambda: rng.sample(RALPHA, rng.randint(1, 3))
    if k == "char":
        return nd("char", [rng.choice(RALPHA)])
    if k == "inset":
        return nd("inset", sub())
    if k == "str":
        return nd("str", sub(), rng.choice([[], [], sub()]), n=rng.choice([0, 1, 1, 1, 2]))
    if k == "lit":
        return nd("lit", [rng.choice(RALPHA[:4]) for _ in range(rng.choice([0, 1, 1, 2, 3]))],
                  n=rng.choice([0, 0, 1]), d=rng.choice([[], [], ["N"], ["T"], ["$x"]]))
    return nd(k)


def rand_term(rng, depth, must_consume=False):
    for _ in range(60):
        if depth == 0 or rng.random() < 0.12:
            t = rand_leaf(rng)
        else:
            k = rng.choice(["seq", "choice", "many", "until", "opt", "kl", "kr", "fb", "nfb", "map", "lift",
                            "seq", "choice", "many"])
            sub = lambda mc=False: rand_term(rng, depth - 1, mc)
            if k in ("seq", "choice"):
                t = nd(k, ts=[sub() for _ in range(rng.choice([0, 1, 2, 2, 2, 3]))])
            elif k == "lift":
                t = nd(k, n=rng.choice([1, 2, 3, 4]), ts=[sub() for _ in range(rng.choice([0, 1, 2, 2, 3]))])
            elif k == "many":
                t = nd(k, n=rng.choice([0, 0, 1, 2]), ts=[sub(True)])
            elif k == "until":
                t = nd(k, ts=[sub(True), sub()])
            elif k == "opt":
                t = nd(k, d=rng.choice([["N"], ["N"], ["$x"], ["[", "]"], ["$b"], ["F"], ["[", "$a", "N", "]"]]),
                       ts=[sub()])
            elif k == "map":
                t = nd(k, n=rng.choice([1, 2, 3]), ts=[sub()])
            else:
                t = nd(k, ts=[sub(), sub()])
        if not must_consume or consumes(t):
            return t
    return nd("char", ["a"])


def rand_inputs(rng, n, maxlen):
    base = [[]] + [[c] for c in RALPHA] + [[c, d] for c in "ab" for d in "ab"]
    seen = set(tuple(w) for w in base)
    while len(base) < n:
        w = [rng.choice(RALPHA[:2] * 3 + RALPHA) for _ in range(rng.randint(2, maxlen))]
        if tuple(w) not in seen:
            seen.add(tuple(w))
            base.append(w)
    return base


UNIVERSE = ["a", "b", "ab"]
BODIES = ["a", "b", "^a", "b$"]


def rand_ast(rng, depth):
    if depth == 0 or rng.random() < 0.2:
        if rng.random() < 0.7:
            return dict(k="tag", a=rng.choice(UNIVERSE), q=rng.choice([0, 0, 1, 2]), ts=[])
        return dict(k="re", a=rng.choice(BODIES), q=rng.choice([0, 1, 2]), ts=[])
    k = rng.choice(["not", "and", "or", "or", "par", "and"])
    if k in ("not", "par"):
        return dict(k=k, a="", q=0, ts=[rand_ast(rng, depth - 1)])
    return dict(k=k, a=rng.choice("|,") if k == "or" else "", q=0, ts=[rand_ast(rng, depth - 1), rand_ast(rng, depth - 1)])


def tok(t, a="", q=0):
    return dict(t=t, a=a, q=q)


def render(x):
    """Mirror of Render in TagLang.tla (concretisation of a random AST; TLC reads the tokens itself)."""
    prec = {"or": 1, "and": 2, "not": 3}.get(x["k"], 4)
    def wrap(y, need):
        return [tok("(")] + render(y) + [tok(")")] if need else render(y)
    def p(y):
        return {"or": 1, "and": 2, "not": 3}.get(y["k"], 4)
    k = x["k"]
    if k == "tag":
        return [tok("tag", x["a"], x["q"])]
    if k == "re":
        return [tok("re", x["a"], x["q"])] + ([tok("sp")] if x["q"] == 0 else [])
    if k == "par":
        return wrap(x["ts"][0], True)
    if k == "not":
        return [tok("!")] + wrap(x["ts"][0], p(x["ts"][0]) <= 3)
    if k == "and":
        return wrap(x["ts"][0], p(x["ts"][0]) < 2) + [tok("&")] + wrap(x["ts"][1], p(x["ts"][1]) < 2)
    assert prec == 1
    return render(x["ts"][0]) + [tok(x["a"])] + render(x["ts"][1])


JCHARS = [c for c in string.printable if c not in "\\\t\n\r\x0b\x0c"]


def rand_jstr(rng):
    return "".join(rng.choice(JCHARS if rng.random() < 0.5 else "abc \"'") for _ in range(rng.randint(1, 8)))


def jn(k, a="", ks=(), ts=()):
    return dict(k=k, a=a, ks=list(ks), ts=list(ts))


def rand_json(rng, depth):
    if depth == 0 or rng.random() < 0.3:
        k = rng.choice(["int", "int", "dec", "str", "str", "true", "false", "null", "arr", "obj"])
        if k == "int":
            return jn("int", str(rng.choice([0, 0, 1, -1, 7, 10, rng.randint(-10 ** 6, 10 ** 6), rng.randint(0, 10 ** 25)])))
        if k == "dec":
            while True:
                a = repr(rng.choice([0.0, 0.5, -2.25, round(rng.uniform(-1000, 1000), rng.randint(1, 6))]))
                if "e" not in a and "n" not in a:
                    return jn("dec", a)
        if k == "str":
            return jn("str", rand_jstr(rng))
        return jn(k)
    if rng.random() < 0.5:
        return jn("arr", ts=[rand_json(rng, depth - 1) for _ in range(rng.choice([0, 1, 2, 2, 3, 5]))])
    ks = sorted(set(rand_jstr(rng) for _ in range(rng.choice([0, 1, 2, 3]))))
    return jn("obj", ks=ks, ts=[rand_json(rng, depth - 1) for _ in ks])


# ---- orchestration ---------------------------------------------------------

def key(x):
    return json.dumps(x, sort_keys=True, separators=(",", ":"))


def shape(t):
    return t["k"] + ("(" + ",".join(c["k"] for c in t["ts"]) + ")" if t["ts"] else "")


def term_text(t):
    k = t["k"]
    arg = []
    if t["s"]:
        arg.append(repr("".join(t["s"])))
    if t["e"]:
        arg.append("esc=" + repr("".join(t["e"])))
    if k in ("str", "many", "lit", "map", "lift") and (t["n"] or k in ("str", "many")):
        arg.append({"str": "min=%d", "many": "lower=%d", "lit": "ci=%d", "map": "f%d", "lift": "f%d"}[k] % t["n"])
    if t["d"]:
        arg.append("value=" + " ".join(t["d"]))
    arg += [term_text(c) for c in t["ts"]]
    return "%s(%s)" % (k, ", ".join(arg))


def pick(rng, items, n):
    items = list(items)
    if len(items) <= n:
        return items
    return rng.sample(items, n)


def run(prop, tier):
    rng = random.Random(lib.seed() * 104729 + 19)
    quick = tier == "quick"
    t0 = time.time()
    gen = lib.subdir("gencfg-peg")
    cfgs = plan(tier)

    def model(c):
        path = os.path.join(gen, "%s_%s.cfg" % (c["mod"], c["name"]))
        with open(path, "w") as f:
            f.write(peg_cfg(c) if c["mod"] == "PegMC" else
                    atom_cfg("ExprLaws" if c["mod"] == "TagLangMC" else "ValueLaws", c))
        r = lib.run_tlc(c["mod"], path, workers=max(2, lib.NCPU // 4), tag="peg-" + c["name"], timeout=3000)
        lib.require_ok(r, "%s model %s" % (c["mod"], c["name"]))
        return c, r

    models, emitted = [], {}
    with concurrent.futures.ThreadPoolExecutor(max_workers=3) as ex:
        for c, r in ex.map(model, cfgs):
            emitted[c["name"]] = r.cases
            r.cases = []
            models.append(r)
    print("timing: models %.1fs (%s)" % (time.time() - t0, ", ".join("%s:%d" % (k, len(v)) for k, v in emitted.items())))

    jobs, expect = [], {}
    counts = dict(peg_terms=0, peg_pairs=0, tag_exprs=0, json_docs=0)

    # -- combinators: emitted terms
    npeg = 0
    for c in cfgs:
        if c["mod"] != "PegMC":
            continue
        cases = emitted[c["name"]]
        first = [x for x in cases if x.get("first")]
        if len(first) != 1:
            raise lib.MachineryError("PegMC %s did not emit its input list" % c["name"])
        ws = first[0]["ws"]
        terms = [x for x in cases if not x.get("first")]
        npeg += len(terms)
        if c.get("sample") and len(terms) > c["sample"]:
            # the model run stays exhaustive; the replay takes all small terms and a seeded sample of the rest
            small = [x for x in terms if all(not g["ts"] for g in x["t"]["ts"])]
            terms = small + pick(rng, [x for x in terms if not all(not g["ts"] for g in x["t"]["ts"])],
                                 c["sample"] - len(small))
        items = []
        for x in terms:
            hows = ["classes", "operators", "forward"] if not quick else [rng.choice(["classes", "operators", "classes",
                                                                                      "operators", "forward"])]
            for how in hows:
                items.append(dict(t=x["t"], how=how))
            expect[("peg", key(x["t"]), key(ws))] = x["res"]
        rng.shuffle(items)
        for i, ch in enumerate(lib.chunks(items, max(1, len(items) // 500))):
            if ch:
                jobs.append(dict(id="%s/%d" % (c["name"], i), kind="peg", ws=ws, terms=ch))
        counts["peg_terms"] += len(items)
        counts["peg_pairs"] += len(items) * len(ws)
    # -- combinators: seeded deeper terms over a richer alphabet
    nrand = 2500 if quick else 40000
    for i in range(max(1, nrand // 500)):
        ws = rand_inputs(rng, 36, 6 if i % 2 else 4)
        items = [dict(t=rand_term(rng, rng.choice([2, 3, 3, 4])), how=rng.choice(["classes", "operators", "forward"]))
                 for _ in range(500)]
        jobs.append(dict(id="randpeg/%d" % i, kind="peg", ws=ws, terms=items))
        counts["peg_terms"] += len(items)
        counts["peg_pairs"] += len(items) * len(ws)

    # -- tag expressions
    retab = [[b, t] for b in BODIES for t in UNIVERSE]
    ntag_model = 0
    for c in cfgs:
        if c["mod"] != "TagLangMC":
            continue
        cases = emitted[c["name"]]
        first = [x for x in cases if x.get("first")]
        if len(first) != 1:
            raise lib.MachineryError("TagLangMC %s did not emit its tag sets" % c["name"])
        sets = first[0]["sets"]
        exprs = [x for x in cases if not x.get("first")]
        ntag_model += len(exprs)
        small = [x for x in exprs if len(x["toks"]) <= 6]
        chosen = exprs if not quick else small + pick(rng, [x for x in exprs if len(x["toks"]) > 6], 7000)
        items = []
        for x in chosen:
            items.append(dict(toks=x["toks"], sp=[rng.randint(0, 4) if rng.random() < 0.5 else 0 for _ in range(5)]))
            expect[("tag", key(x["toks"]))] = x["vals"]
        for i, ch in enumerate(lib.chunks(items, max(1, len(items) // 1500))):
            if ch:
                jobs.append(dict(id="%s/%d" % (c["name"], i), kind="tag", sets=sets, exprs=ch, retab=retab))
        counts["tag_exprs"] += len(items)
    sets = [[], ["a"], ["b"], ["ab"], ["a", "b"], ["a", "ab"], ["b", "ab"], ["a", "b", "ab"]]
    nrt = 3000 if quick else 40000
    for i in range(max(1, nrt // 1000)):
        items = [dict(toks=render(rand_ast(rng, rng.choice([3, 4, 5]))), sp=[rng.randint(0, 4) for _ in range(7)])
                 for _ in range(1000)]
        jobs.append(dict(id="randtag/%d" % i, kind="tag", sets=sets, exprs=items, retab=retab))
        counts["tag_exprs"] += len(items)

    # -- JSON documents
    modes = ["compact", "default", "indent"]
    njson_model = 0
    for c in cfgs:
        if c["mod"] != "JsonDocMC":
            continue
        vals = emitted[c["name"]]
        njson_model += len(vals)
        chosen = vals if len(vals) <= 2500 else pick(rng, vals, 2500 if quick else 25000)
        items = []
        for x in chosen:
            for m in (modes if not quick or len(vals) <= 2500 else [rng.choice(modes)]):
                items.append(dict(v=x["v"], mode=m))
            expect[("json", key(x["v"]))] = x["flat"]
        for i, ch in enumerate(lib.chunks(items, max(1, len(items) // 800))):
            if ch:
                jobs.append(dict(id="%s/%d" % (c["name"], i), kind="json", values=ch))
        counts["json_docs"] += len(items)
    nrj = 1500 if quick else 20000
    for i in range(max(1, nrj // 500)):
        items = [dict(v=rand_json(rng, rng.choice([2, 3, 4])), mode=rng.choice(modes)) for _ in range(500)]
        jobs.append(dict(id="randjson/%d" % i, kind="json", values=items))
        counts["json_docs"] += len(items)

    t1 = time.time()
    rng.shuffle(jobs)
    payloads = [dict(jobs=ch) for ch in lib.chunks(jobs, lib.NCPU * 2) if ch]
    outs = lib.run_driver_parallel("drive_peg.py", payloads, timeout=3000)
    traces, stats = dict(peg=[], tag=[], json=[]), {}
    kind_of = dict((j["id"], j["kind"]) for j in jobs)
    for o in outs:
        for t in o["traces"]:
            traces[kind_of[t["id"]]].append(t)
        for k, v in o["stats"].items():
            stats[k] = stats.get(k, 0) + v
    print("timing: drivers %.1fs, %s, %s" % (time.time() - t1, counts, stats))
    if stats.get("hangs"):
        print("note: %d term runs exceeded the per-term time limit (recorded as position -1); %d terms not run after that"
              % (stats["hangs"], stats.get("terms_not_run_after_hangs", 0)))
    vacuous = None
    if not (stats.get("parses") and stats.get("tag_evals") and stats.get("json_docs")):
        vacuous = "driver did not reach all of the code under test: %s" % stats
    elif stats["ok"] < stats["parses"] // 40 or stats["fail"] < stats["parses"] // 40:
        vacuous = "vacuous combinator run (successes %d, failures %d)" % (stats["ok"], stats["fail"])

    t1 = time.time()
    vpeg = lib.validate_traces("PegTrace", "PegTrace.cfg", traces["peg"])
    vtag = lib.validate_traces("TagLangTrace", "TagLangTrace.cfg", traces["tag"])
    vjson = lib.validate_traces("JsonDocTrace", "JsonDocTrace.cfg", traces["json"])
    val = lib.merge_val(vpeg, vtag, vjson)
    print("timing: validation %.1fs (%d events, %d JVMs; peg %.1fs, tag %.1fs, json %.1fs)"
          % (time.time() - t1, val["events"], val["jvms"], vpeg["wall"], vtag["wall"], vjson["wall"]))

    if vacuous and not val["rejected"]:
        raise lib.MachineryError(vacuous)      # with rejections it is a verdict, not vacuity
    byid = {}
    for k in traces:
        for t in traces[k]:
            byid[t["id"]] = t
    rejected = dict(((r["id"], r["line"]), r) for r in val["rejected"])
    bad = [r for r in val["rejected"] if r["clause"].startswith("malformed")]
    if bad:
        ev = byid[bad[0]["id"]]["events"][bad[0]["line"] - 1]
        raise lib.MachineryError("trace validation found a malformed case (%s): %s"
                                 % (bad[0]["clause"], json.dumps(ev)[:1500]))
    # consistency of the two directions: what TLC emitted and TLC's verdict on the observation
    for t in byid.values():
        kind = kind_of[t["id"]]
        for ln, ev in enumerate(t["events"], 1):
            if kind == "peg":
                exp = expect.get(("peg", key(ev["t"]), key(t["ws"])))
                same = exp == ev["res"] and all(c["ok"] == r["ok"] and c["v"] == r["v"] for c, r in zip(ev["cres"], ev["res"]))
            elif kind == "tag":
                exp = expect.get(("tag", key(ev["toks"]))) if ev["ev"] == "tag" else None
                same = exp is not None and ev["ok"] and exp == ev["vals"]
            else:
                exp = expect.get(("json", key(ev["v"])))
                same = exp is not None and ev["got"]["ok"] and ev["got"]["toks"] == exp
            if exp is not None and same == ((t["id"], ln) in rejected):
                raise lib.MachineryError("emitted expectation and trace validation disagree on %s event %d" % (t["id"], ln))

    verdict = lib.Verdict(prop, tier)
    groups = {}
    for r in val["rejected"]:
        parts = r["clause"].split(":")
        groups.setdefault(":".join(parts[:2]), []).append(r)
    per_sig = {}
    for g, rs in sorted(groups.items()):
        rs.sort(key=lambda r: (r.get("size", 0), r["clause"], r["id"], r["line"]))
        sigs = []
        for r in rs:
            s = lib.sig(prop, r["clause"])
            per_sig[s] = per_sig.get(s, 0) + 1
            if s in verdict.known:
                verdict.reject(s, "", None)       # counted, reported as KNOWN-FINDING
                continue
            if s not in sigs:
                if len(sigs) >= 4:
                    continue                  # larger cases of the same kind of disagreement: not reported separately
                sigs.append(s)
            elif per_sig[s] > 2:
                continue
            t = byid[r["id"]]
            ev = t["events"][r["line"] - 1]
            kind = kind_of[t["id"]]
            if kind == "peg":
                j = r.get("at", 1) - 1
                what = "%s built by %s on input %r: process -> %s, call -> %s" % (
                    term_text(ev["t"]), ev["how"], "".join(t["ws"][j]), ev["res"][j], ev["cres"][j])
                rep = dict(job=dict(id="replay/0", kind="peg", ws=[t["ws"][j]], terms=[dict(t=ev["t"], how=ev["how"])]))
            elif kind == "tag":
                what = "taglang.parse(%r): accepted=%s, results on %s = %s" % (ev["text"], ev["ok"], t["sets"], ev["vals"])
                rep = dict(job=dict(id="replay/0", kind="tag", sets=t["sets"], exprs=[dict(toks=ev["toks"], sp=[0])],
                                    retab=[]), text=ev["text"])
            else:
                what = "json_parser.loads(%r) -> %s, json.loads -> %s" % (ev["text"], ev["got"], ev["std"])
                rep = dict(job=dict(id="replay/0", kind="json", values=[dict(v=ev["v"], mode=ev["mode"])]))
            verdict.reject(s, what + "; clause " + r["clause"], rep)
    if per_sig:
        print("note: rejected events per signature: %s" % json.dumps(per_sig, sort_keys=True)[:3000])

    # ---- evidence ----
    distinct = set()
    nontrivial = 0
    for t in traces["peg"]:
        for ev in t["events"]:
            k = key(ev["t"])
            if k not in distinct:
                distinct.add(k)
                nontrivial += 1 if ev["t"]["ts"] else 0
    for t in traces["tag"]:
        for ev in t["events"]:
            if ev["ev"] == "tag":
                k = key(ev["toks"])
                if k not in distinct:
                    distinct.add(k)
                    nontrivial += 1 if len(ev["toks"]) > 1 else 0
    for t in traces["json"]:
        for ev in t["events"]:
            k = "j" + key(ev["v"])
            if k not in distinct:
                distinct.add(k)
                nontrivial += 1 if ev["v"]["ts"] else 0
    s_peg = traces["peg"][0]["events"][0]
    s_tag = [e for e in traces["tag"][0]["events"] if e["ev"] == "tag"][-1]
    s_json = traces["json"][0]["events"][-1]
    samples = [
        dict(term=term_text(s_peg["t"]), built_by=s_peg["how"], inputs=["".join(w) for w in traces["peg"][0]["ws"][:6]],
             observed=s_peg["res"][:6]),
        dict(tag_expression=s_tag["text"], tag_sets=traces["tag"][0]["sets"], results=s_tag["vals"]),
        dict(json_text=s_json["text"], decoded=s_json["got"]),
    ]
    evaluations = stats["parses"] + stats["tag_evals"] + 2 * stats["json_docs"]
    ev = lib.evidence(
        prop, tier, models, val, evaluations=evaluations, distinct_nontrivial=nontrivial,
        rule="TLC enumerates every well-formed term of the listed depth over the listed constructors (checking the PEG "
             "laws on each term x input), every tag expression of depth <= 2 over five atoms and every JSON value of "
             "the listed depth; each is built from the real classes / written out as text and run; seeded deeper "
             "terms, expressions and documents are added. evaluations = parser invocations (call and process per "
             "term x input) + predicate evaluations + decodings, each compared by TLC with the reference; "
             "distinct_nontrivial = distinct composite terms + distinct expressions with an operator + distinct "
             "container documents that were run",
        samples=samples, assumptions=ASSUMPTIONS,
        extra=dict(configs=[dict((k, v) for k, v in c.items()) for c in cfgs], case_counts=counts,
                   model_cases=dict(peg_terms=npeg, tag_expressions=ntag_model, json_values=njson_model),
                   laws_checked_on_model=["SequenceLeftToRight", "ChoiceCommits", "FailedAlternativeInvisible",
                                          "LookaheadConsumesNothing", "LookaheadDecides", "ManyGreedy", "OptNeverFails",
                                          "KeepSides", "UntilStops", "ConsumesSound", "RenderReadable", "RenderFaithful",
                                          "BooleanAlgebra", "DocExample", "FlatInjective", "FlatWellFormed"],
                   driver_stats=stats, exhaustive=False))
    return verdict.finish(ev)


def replay(prop, path):
    with open(path) as f:
        rec = json.load(f)
    print(json.dumps(dict(signature=rec["signature"], what=rec["what"]), indent=1))
    job = (rec.get("replay") or {}).get("job")
    if not job:
        return 0
    out = lib.run_driver("drive_peg.py", dict(jobs=[job]))
    mod = {"peg": "PegTrace", "tag": "TagLangTrace", "json": "JsonDocTrace"}[job["kind"]]
    val = lib.validate_traces(mod, mod + ".cfg", out["traces"], jobs=1)
    for rj in val["rejected"]:
        print("still rejected: clause %s" % rj["clause"])
    if not val["rejected"]:
        print("the recorded case is accepted on the current tree")
    return 1 if val["rejected"] else 0
