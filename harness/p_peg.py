"""C19: parser combinators implement ordered-choice PEG semantics; the JSON and
tag-expression grammars agree with their reference meaning.

Models: specs/Peg.tla (+PegMC), specs/TagLang.tla (+TagLangMC), specs/JsonDoc.tla
(+JsonDocMC); driver harness/drive_peg.py; trace validation PegTrace.tla,
TagLangTrace.tla, JsonDocTrace.tla."""
import concurrent.futures
import json
import os
import random
import string
import time

import lib

ASSUMPTIONS = [
    "terms: repetition (Many, Until) only over sub-terms that consume input on success (the property's quantifier); "
    "functions given to Map / Lift are total or raise Backtrack",
    "combinator semantics is observed through parser(input) and through the documented process(pos, data, ctx) protocol",
    "tag expressions are written under the grammar's lexical contract: nothing between '!' and its operand, a bare "
    "regex ends at a blank, directly nested negation is parenthesised, bare tags contain no operator character",
    "documented JSON subset: integers and plain decimals, non-empty ASCII strings needing no escape other than \\\", "
    "true/false/null, arrays, objects, texts as written by json.dumps (compact, default, indent=2)",
    "exhaustive only inside the listed TLC configurations; deeper terms / expressions / documents are seeded samples",
]

HOW_WEIGHTED = ["classes", "operators", "forward", "shared", "shared", "shared-ops", "shared-ops"]
KINDS = ["char", "inset", "any", "str", "lit", "eof", "seq", "choice", "many", "until", "opt", "kl", "kr", "fb", "nfb",
         "map", "lift"]
ALL_BIN = ["seq", "choice", "until", "kl", "kr", "fb", "nfb", "lift1", "lift3", "lift4"]


def peg_cfg(c):
    def st(xs, q=False):
        return "{" + ", ".join(('"%s"' % x) if q else str(x) for x in xs) + "}"
    alpha = "{" + ", ".join('"%s"' % ("BS" if ch == "\\" else ch) for ch in c["alpha"]) + "}"
    return "\n".join(["SPECIFICATION Spec", "CONSTANTS",
                      "  LeafIds = %s" % st(c["leaves"]), "  UnIds = %s" % st(c["un"]),
                      "  BinIds = %s" % st(c["bin"], True), "  Depth = %d" % c["depth"],
                      "  Nary = %s" % ("TRUE" if c.get("nary") else "FALSE"),
                      "  Alpha = %s" % alpha, "  MaxLen = %d" % c["maxlen"],
                      "INVARIANT TermLaws", "CONSTRAINT Emit", "CHECK_DEADLOCK FALSE", ""])


def atom_cfg(inv, c):
    return "\n".join(["SPECIFICATION Spec", "CONSTANTS",
                      "  AtomIds = {%s}" % ", ".join(str(x) for x in c["atoms"]), "  Depth = %d" % c["depth"]]
                     + (["  MutLen = %d" % c.get("mutlen", 5)] if c["mod"] == "TagLangMC" else [])
                     + ["INVARIANT %s" % inv, "CONSTRAINT Emit", "CHECK_DEADLOCK FALSE", ""])


def plan(tier):
    deep_bin = ["seq", "choice", "until", "kl", "kr", "fb", "nfb", "lift4"]
    if tier == "quick":
        return [
            dict(name="deep2", mod="PegMC", leaves=[1, 2], un=[1, 2, 4, 5, 6, 8], bin=deep_bin, depth=2, nary=True,
                 alpha=["a", "b"], maxlen=3, sample=9000),
            dict(name="leafy1", mod="PegMC", leaves=list(range(1, 19)), un=list(range(1, 9)), bin=ALL_BIN, depth=1,
                 alpha=["a", "b", "\\"], maxlen=3),
            dict(name="leafy1c", mod="PegMC", leaves=list(range(1, 19)), un=list(range(1, 9)), bin=ALL_BIN, depth=1,
                 alpha=["a", "b", "A"], maxlen=2),
            dict(name="tag2", mod="TagLangMC", atoms=[1, 2, 3, 4, 5], depth=2, mutlen=4),
            # bare regexes whose body holds operator characters (they run to the next blank)
            dict(name="tag2r", mod="TagLangMC", atoms=[1, 2, 11, 12], depth=2, mutlen=5),
            # every atom (anchored regexes, regexes that would match across two tags) at depth 1
            dict(name="tag1", mod="TagLangMC", atoms=list(range(1, 17)), depth=1, mutlen=3),
            dict(name="json2", mod="JsonDocMC", atoms=[1, 2, 3, 4, 6, 8], depth=2),
            dict(name="json1", mod="JsonDocMC", atoms=list(range(1, 24)), depth=1),
        ]
    return [
        dict(name="deep2", mod="PegMC", leaves=[1, 2], un=[1, 2, 4, 5, 6, 8], bin=deep_bin, depth=2, nary=True,
             alpha=["a", "b"], maxlen=4, hows=3),
        dict(name="deep2e", mod="PegMC", leaves=[1, 2, 3], un=[1, 2, 3, 4, 6, 7, 8],
             bin=["seq", "choice", "until", "kl", "kr", "fb", "nfb", "lift3"], depth=2, nary=True,
             alpha=["a", "b"], maxlen=4, sample=30000, hows=1),
        dict(name="leafy1", mod="PegMC", leaves=list(range(1, 19)), un=list(range(1, 9)), bin=ALL_BIN, depth=1,
             alpha=["a", "b", "A", "\\"], maxlen=3, hows=5),
        dict(name="tag2", mod="TagLangMC", atoms=[1, 2, 3, 4, 5], depth=2, mutlen=7),
        dict(name="tag2b", mod="TagLangMC", atoms=[6, 7, 8, 9, 10], depth=2, mutlen=5),
        dict(name="tag2r", mod="TagLangMC", atoms=[1, 2, 11, 12], depth=2, mutlen=7),
        dict(name="tag2s", mod="TagLangMC", atoms=[3, 13, 14, 16], depth=2, mutlen=5),
        dict(name="tag1", mod="TagLangMC", atoms=list(range(1, 17)), depth=1, mutlen=5),
        dict(name="json2", mod="JsonDocMC", atoms=list(range(1, 9)), depth=2),
        dict(name="json1", mod="JsonDocMC", atoms=list(range(1, 24)), depth=1),
    ]


# ---- seeded random cases beyond the models' bounds --------------------------

RALPHA = ["a", "b", "A", "B", "\\", "k"]


def nd(k, s=(), e=(), n=0, d=(), ts=()):
    return dict(k=k, s=list(s), e=list(e), n=n, d=list(d), ts=list(ts))


def consumes(t):
    """Mirror of Consumes in Peg.tla (only used to generate well-formed terms; TLC re-checks WF)."""
    k = t["k"]
    if k in ("char", "inset", "any"):
        return True
    if k == "str":
        return t["n"] >= 1
    if k == "lit":
        return len(t["s"]) >= 1
    if k in ("eof", "until", "opt"):
        return False
    if k in ("seq", "lift", "kl", "kr"):
        return any(consumes(c) for c in t["ts"])
    if k == "choice":
        return all(consumes(c) for c in t["ts"])
    if k == "many":
        return t["n"] >= 1 and consumes(t["ts"][0])
    return consumes(t["ts"][0])


def rand_leaf(rng):
    k = rng.choice(["char", "char", "inset", "any", "eof", "str", "str", "lit", "lit"])
    sub = lambda: rng.sample(RALPHA, rng.randint(1, 3))
    if k == "char":
        return nd("char", [rng.choice(RALPHA)])
    if k == "inset":
        return nd("inset", sub())
    if k == "str":
        return nd("str", sub(), rng.choice([[], [], sub()]), n=rng.choice([0, 1, 1, 1, 2]))
    if k == "lit":
        return nd("lit", [rng.choice(RALPHA[:4]) for _ in range(rng.choice([0, 1, 1, 2, 3]))],
                  n=rng.choice([0, 0, 1]), d=rng.choice([[], [], ["N"], ["T"], ["$x"]]))
    return nd(k)


def rand_term(rng, depth, must_consume=False):
    for _ in range(60):
        if depth == 0 or rng.random() < 0.12:
            t = rand_leaf(rng)
        else:
            k = rng.choice(["seq", "choice", "many", "until", "opt", "kl", "kr", "fb", "nfb", "map", "lift",
                            "seq", "choice", "many"])
            sub = lambda mc=False: rand_term(rng, depth - 1, mc)
            if k in ("seq", "choice"):
                t = nd(k, ts=[sub() for _ in range(rng.choice([0, 1, 2, 2, 2, 3]))])
            elif k == "lift":
                t = nd(k, n=rng.choice([1, 2, 3, 4]), ts=[sub() for _ in range(rng.choice([0, 1, 2, 2, 3]))])
            elif k == "many":
                t = nd(k, n=rng.choice([0, 0, 1, 2]), ts=[sub(True)])
            elif k == "until":
                t = nd(k, ts=[sub(True), sub()])
            elif k == "opt":
                t = nd(k, d=rng.choice([["N"], ["N"], ["$x"], ["[", "]"], ["$b"], ["F"], ["[", "$a", "N", "]"]]),
                       ts=[sub()])
            elif k == "map":
                t = nd(k, n=rng.choice([1, 2, 3]), ts=[sub()])
            else:
                t = nd(k, ts=[sub(), sub()])
        if not must_consume or consumes(t):
            return t
    return nd("char", ["a"])


NT_PREFIX = ["name=", "k=", "a b:"]
NT_REST = ["value", "v", "value x", "value\n  more", "vx", "xvalue", "val!", "x"]
NT_F = [nd("char", ["x"]), nd("char", ["v"]), nd("lit", list("va")), nd("lit", list("vx")), nd("inset", list("xyz")),
        nd("seq", ts=[nd("char", ["v"]), nd("char", ["x"])]), nd("seq", ts=[nd("lit", list("value")), nd("char", ["!"])]),
        nd("str", ["x"], n=1), nd("str", list("valu"), n=6), nd("kl", ts=[nd("char", ["v"]), nd("char", ["z"])]),
        nd("fb", ts=[nd("char", ["v"]), nd("char", ["q"])]), nd("nfb", ts=[nd("char", ["v"]), nd("char", ["a"])]),
        nd("lit", list("VALUE")), nd("map", n=3, ts=[nd("str", list("bv"), n=1)])]


def notrace_cases(rng, n):
    """prefix x failing-or-not alternative f x rest x form; all fixed combinations first, then seeded ones
    with random f (the reference decides whether f fails; only then the law applies)."""
    out = [dict(form=form, p=list(p), f=f, w=list(p + r))
           for form in ("choice", "opt", "many") for p in NT_PREFIX for f in NT_F for r in NT_REST
           if form != "many" or consumes(f)]
    rng.shuffle(out)
    out = out[:n]
    while len(out) < n:
        f = rand_term(rng, rng.choice([0, 1, 2]), True)
        w = rng.choice(NT_PREFIX)
        out.append(dict(form=rng.choice(["choice", "opt", "many"]), p=list(w),
                        f=f, w=list(w + "".join(rng.choice("abvx! ") for _ in range(rng.randint(1, 6))).lstrip() + "v")))
    return out


def rand_inputs(rng, n, maxlen):
    base = [[]] + [[c] for c in RALPHA] + [[c, d] for c in "ab" for d in "ab"]
    seen = set(tuple(w) for w in base)
    while len(base) < n:
        w = [rng.choice(RALPHA[:2] * 3 + RALPHA) for _ in range(rng.randint(2, maxlen))]
        if tuple(w) not in seen:
            seen.add(tuple(w))
            base.append(w)
    return base


UNIVERSE = ["a", "b", "ab"]
BODIES = ["a", "b", "^a", "b$", "b|a$", "a,b", "a&b", "^(a|b)$", "b.a"]


def rand_ast(rng, depth):
    if depth == 0 or rng.random() < 0.2:
        if rng.random() < 0.7:
            return dict(k="tag", a=rng.choice(UNIVERSE), q=rng.choice([0, 0, 1, 2]), ts=[])
        return dict(k="re", a=rng.choice(BODIES), q=rng.choice([0, 1, 2]), ts=[])
    k = rng.choice(["not", "and", "or", "or", "par", "and"])
    if k in ("not", "par"):
        return dict(k=k, a="", q=0, ts=[rand_ast(rng, depth - 1)])
    return dict(k=k, a=rng.choice("|,") if k == "or" else "", q=0, ts=[rand_ast(rng, depth - 1), rand_ast(rng, depth - 1)])


def tok(t, a="", q=0):
    return dict(t=t, a=a, q=q)


def render(x):
    """Mirror of Render in TagLang.tla (concretisation of a random AST; TLC reads the tokens itself)."""
    prec = {"or": 1, "and": 2, "not": 3}.get(x["k"], 4)
    def wrap(y, need):
        return [tok("(")] + render(y) + [tok(")")] if need else render(y)
    def p(y):
        return {"or": 1, "and": 2, "not": 3}.get(y["k"], 4)
    k = x["k"]
    if k == "tag":
        return [tok("tag", x["a"], x["q"])]
    if k == "re":
        return [tok("re", x["a"], x["q"])] + ([tok("sp")] if x["q"] == 0 else [])
    if k == "par":
        return wrap(x["ts"][0], True)
    if k == "not":
        return [tok("!")] + wrap(x["ts"][0], p(x["ts"][0]) <= 3)
    if k == "and":
        return wrap(x["ts"][0], p(x["ts"][0]) < 2) + [tok("&")] + wrap(x["ts"][1], p(x["ts"][1]) < 2)
    assert prec == 1
    return render(x["ts"][0]) + [tok(x["a"])] + render(x["ts"][1])


def mutate_toks(rng, tk):
    """A neighbour of a rendered expression, most often ill-formed (the reference reader of the text decides)."""
    tk = list(tk)
    k = rng.randint(0, 6)
    i = rng.randrange(len(tk))
    if k == 0:
        del tk[i]
    elif k == 1:
        tk.insert(i, tk[i])
    elif k == 2:
        tk.insert(i, tok(rng.choice(["&", "|", ",", "(", ")", "!"])))
    elif k == 3:
        tk.append(tok(rng.choice(["&", "|", ",", ")", "(", "!"])))
    elif k == 4:
        sps = [n for n, t in enumerate(tk) if t["t"] == "sp"]
        if sps:
            del tk[rng.choice(sps)]                 # the bare regex now swallows what follows
        else:
            tk.insert(0, tok(rng.choice(["&", "|", ","])))
    elif k == 5:
        j = rng.randrange(len(tk))
        tk[i], tk[j] = tk[j], tk[i]
    else:
        ps = [n for n, t in enumerate(tk) if t["t"] in "()"]
        if ps:
            del tk[rng.choice(ps)]
        else:
            tk.insert(rng.randrange(len(tk) + 1), tok(rng.choice("()")))
    return tk


JCHARS = [c for c in string.printable if c not in "\\\t\n\r\x0b\x0c"]


def rand_jstr(rng):
    return "".join(rng.choice(JCHARS if rng.random() < 0.5 else "abc \"'") for _ in range(rng.randint(1, 8)))


def jn(k, a="", ks=(), ts=()):
    return dict(k=k, a=a, ks=list(ks), ts=list(ts))


def rand_json(rng, depth):
    if depth == 0 or rng.random() < 0.3:
        k = rng.choice(["int", "int", "dec", "str", "str", "true", "false", "null", "arr", "obj"])
        if k == "int":
            return jn("int", str(rng.choice([0, 0, 1, -1, 7, 10, rng.randint(-10 ** 6, 10 ** 6), rng.randint(0, 10 ** 25),
                                                2 ** 53 + rng.randint(1, 999), -(2 ** 63) - rng.randint(1, 99)])))
        if k == "dec":
            while True:
                a = repr(rng.choice([0.0, 0.5, -2.25, round(rng.uniform(-1000, 1000), rng.randint(1, 6))]))
                if "e" not in a and "n" not in a:
                    return jn("dec", a)
        if k == "str":
            return jn("str", rand_jstr(rng))
        return jn(k)
    if rng.random() < 0.5:
        return jn("arr", ts=[rand_json(rng, depth - 1) for _ in range(rng.choice([0, 1, 2, 2, 3, 5]))])
    ks = sorted(set(rand_jstr(rng) for _ in range(rng.choice([0, 1, 2, 3]))))
    return jn("obj", ks=ks, ts=[rand_json(rng, depth - 1) for _ in ks])


# ---- orchestration ---------------------------------------------------------

def key(x):
    return json.dumps(x, sort_keys=True, separators=(",", ":"))


def shape(t):
    return t["k"] + ("(" + ",".join(c["k"] for c in t["ts"]) + ")" if t["ts"] else "")


def term_text(t):
    k = t["k"]
    arg = []
    if t["s"]:
        arg.append(repr("".join(t["s"])))
    if t["e"]:
        arg.append("esc=" + repr("".join(t["e"])))
    if k in ("str", "many", "lit", "map", "lift") and (t["n"] or k in ("str", "many")):
        arg.append({"str": "min=%d", "many": "lower=%d", "lit": "ci=%d", "map": "f%d", "lift": "f%d"}[k] % t["n"])
    if t["d"]:
        arg.append("value=" + " ".join(t["d"]))
    arg += [term_text(c) for c in t["ts"]]
    return "%s(%s)" % (k, ", ".join(arg))


def pick(rng, items, n):
    items = list(items)
    if len(items) <= n:
        return items
    return rng.sample(items, n)


class Stage(object):
    """Runs groups of driver jobs, validates their traces and keeps only what the verdict and
    the evidence need, so that memory stays bounded by the largest group."""

    MOD = {"peg": "PegTrace", "tag": "TagLangTrace", "json": "JsonDocTrace", "notrace": "PegTrace"}

    def __init__(self):
        self.val = lib.merge_val()
        self.stats = {}
        self.rej = []                 # dicts: clause, size, what, rep
        self.seen = set()
        self.nontrivial = 0
        self.samples = {}
        self.tdrv = 0.0
        self.tval = dict(peg=0.0, tag=0.0, json=0.0, notrace=0.0)
        self.by_kind = {}             # top kind of a term -> [successes, failures] observed
        self.keep = {}                # kind -> a one-event trace for the self-test
        self.tag_outcomes = [0, 0]    # tag texts rejected / accepted by the real parser

    def _note(self, k, nontrivial):
        h = lib.hashlib.sha1(k.encode()).digest()
        if h not in self.seen:
            self.seen.add(h)
            self.nontrivial += 1 if nontrivial else 0

    def run(self, jobs, expect, rng):
        if not jobs:
            return
        kind = jobs[0]["kind"]
        t1 = time.time()
        rng.shuffle(jobs)
        payloads = [dict(jobs=ch) for ch in lib.chunks(jobs, lib.NCPU * 2) if ch]
        outs = lib.run_driver_parallel("drive_peg.py", payloads, timeout=3000)
        traces = []
        for o in outs:
            traces.extend(o["traces"])
            for k, v in o["stats"].items():
                self.stats[k] = self.stats.get(k, 0) + v
        del outs
        self.tdrv += time.time() - t1
        t1 = time.time()
        val = lib.validate_traces(self.MOD[kind], self.MOD[kind] + ".cfg", traces)
        self.tval[kind] += time.time() - t1
        self.val = lib.merge_val(self.val, val)
        byid = dict((t["id"], t) for t in traces)
        rejected = dict(((r["id"], r["line"]), r) for r in val["rejected"])
        bad = [r for r in val["rejected"] if r["clause"].startswith("malformed")]
        if bad:
            ev = byid[bad[0]["id"]]["events"][bad[0]["line"] - 1]
            raise lib.MachineryError("trace validation found a malformed case (%s): %s"
                                     % (bad[0]["clause"], json.dumps(ev)[:1500]))
        if kind == "notrace":
            for r in val["rejected"]:
                ev = byid[r["id"]]["events"][r["line"] - 1]
                self.rej.append(dict(
                    clause=r["clause"], size=r.get("size", 0), id=r["id"], line=r["line"],
                    what="WithIndent(Literal(%r) >> <%s of WithIndent(%s), HangingString>) on %r -> %s, but without the "
                         "failing alternative -> %s" % ("".join(ev["p"]), ev["form"], term_text(ev["f"]), "".join(ev["w"]),
                                                        ev["outer"], ev["base"]),
                    rep=dict(job=dict(id="replay/0", kind="notrace", cases=[dict(form=ev["form"], p=ev["p"], f=ev["f"],
                                                                                 w=ev["w"])]))))
            return
        # consistency of the two directions: what TLC emitted and TLC's verdict on the observation
        for t in traces:
            for ln, ev in enumerate(t["events"], 1):
                if kind == "peg":
                    self._note(key(ev["t"]), ev["t"]["ts"])
                    oc = self.by_kind.setdefault(ev["t"]["k"], [0, 0])
                    nok = sum(1 for r in ev["res"] if r["ok"])
                    oc[0] += nok
                    oc[1] += len(ev["res"]) - nok
                    exp = expect.get(("peg", key(ev["t"]), key(t["ws"])))
                    same = exp == ev["res"] and all(c["ok"] == r["ok"] and c["v"] == r["v"]
                                                    for c, r in zip(ev["cres"], ev["res"]))
                elif kind == "tag":
                    if ev["ev"] != "tag":
                        continue
                    self._note("t" + ev["text"], len(ev["toks"]) > 1)
                    self.tag_outcomes[1 if ev["ok"] else 0] += 1
                    if ev.get("bad"):
                        exp = expect.get(("tagbad", key(ev["toks"])))
                        same = exp is not None and (
                            ((not exp["known"]) or (ev["ok"] and exp["vals"] == ev["vals"])) if exp["ok"]
                            else (exp["why"] == "unspecified" or not ev["ok"]))
                    else:
                        exp = expect.get(("tag", key(ev["toks"])))
                        same = exp is not None and ev["ok"] and exp == ev["vals"]
                else:
                    self._note("j" + key(ev["v"]), ev["v"]["ts"])
                    exp = expect.get(("json", key(ev["v"])))
                    same = exp is not None and ev["got"]["ok"] and ev["got"]["toks"] == exp
                if exp is not None and same == ((t["id"], ln) in rejected):
                    raise lib.MachineryError("emitted expectation and trace validation disagree on %s event %d"
                                             % (t["id"], ln))
        for r in val["rejected"]:
            t = byid[r["id"]]
            ev = t["events"][r["line"] - 1]
            if kind == "peg":
                j = max(r.get("at", 1), 1) - 1
                what = "%s built by %s on input %r: process -> %s, call -> %s" % (
                    term_text(ev["t"]), ev["how"], "".join(t["ws"][j]), ev["res"][j], ev["cres"][j])
                rep = dict(job=dict(id="replay/0", kind="peg", ws=[t["ws"][j]], terms=[dict(t=ev["t"], how=ev["how"], dbg=bool(ev.get("dbg")))]))
            elif kind == "tag":
                what = "taglang.parse(%r): accepted=%s, results on %s = %s" % (ev["text"], ev["ok"], t["sets"], ev["vals"])
                rep = dict(job=dict(id="replay/0", kind="tag", sets=t["sets"], exprs=[dict(text=ev["text"])], retab=[]),
                           text=ev["text"])
            else:
                what = "json_parser.loads(%r) -> %s, json.loads -> %s" % (ev["text"], ev["got"], ev["std"])
                rep = dict(job=dict(id="replay/0", kind="json", values=[dict(v=ev["v"], mode=ev["mode"])]))
            self.rej.append(dict(clause=r["clause"], size=r.get("size", 0), id=r["id"], line=r["line"],
                                 what=what, rep=rep))
        # candidates for the self-test: observations of model-emitted cases (the reference certainly judges
        # them: no mutated text, no regex without a match table), accepted by TLC, from any trace
        if len(self.keep.get(kind, {}).get("events", [])) < 4:
            for t in traces:
                if t["id"].startswith("rand"):
                    continue
                k = self.keep.setdefault(kind, dict(dict((a, b) for a, b in t.items() if a != "events"), events=[]))
                if k.get("ws") != t.get("ws") or k.get("sets") != t.get("sets"):
                    continue                      # candidates share the trace-level inputs of the first one
                for ln, e in enumerate(t["events"], 1):
                    if e["ev"] == "retab" or (t["id"], ln) in rejected or e.get("bad"):
                        continue
                    if kind == "tag" and not (e["ok"] and len(e["vals"]) == len(t["sets"])):
                        continue
                    if kind == "json" and not e["got"]["ok"]:
                        continue
                    k["events"].append(e)
                    if len(k["events"]) >= 4:
                        break
                if len(k["events"]) >= 4:
                    break
        # one written-out case per kind for the evidence file
        if kind not in self.samples and traces and traces[0]["events"]:
            t, ev = traces[0], traces[0]["events"][-1]
            if kind == "peg":
                self.samples[kind] = dict(term=term_text(ev["t"]), built_by=ev["how"],
                                          inputs=["".join(w) for w in t["ws"][:6]], observed=ev["res"][:6])
            elif kind == "tag":
                self.samples[kind] = dict(tag_expression=ev["text"], tag_sets=t["sets"], results=ev["vals"])
            else:
                self.samples[kind] = dict(json_text=ev["text"], decoded=ev["got"])


def selftest(st):
    """Binding demonstration (R5): recorded events with one corrupted observation each must be rejected
    (and their uncorrupted originals accepted).  Up to four candidates per kind of trace; it is a
    machinery failure only when no corrupted candidate of a kind is rejected or an original is."""
    import copy
    n = 0
    for kind, t in sorted(st.keep.items()):
        events = []
        for good in t["events"]:
            bad = copy.deepcopy(good)
            if kind == "peg":
                r = bad["res"][-1]
                bad["res"][-1] = dict(ok=not r["ok"], pos=0 if r["ok"] else 1, v=[] if r["ok"] else ["N"])
            elif kind == "tag":
                bad["vals"][-1] = not bad["vals"][-1]
            else:
                bad["got"]["toks"] = bad["got"]["toks"] + ["N"]
            events += [good, bad]
        if not events:
            continue
        m = dict(t, id="selftest-" + kind, events=events)
        val = lib.validate_traces(Stage.MOD[kind], Stage.MOD[kind] + ".cfg", [m], jobs=1)
        lines = set(r["line"] for r in val["rejected"])
        originals = [ln for ln in lines if ln % 2 == 1]
        corrupted = [ln for ln in lines if ln % 2 == 0]
        if originals or not corrupted:
            raise lib.MachineryError("self-test (%s): %d candidates, corrupted copies rejected at %s, originals "
                                     "rejected at %s: %s" % (kind, len(events) // 2, corrupted, originals, val["rejected"][:3]))
        n += 1
    if n != 3:
        raise lib.MachineryError("self-test: only %d kinds of traces available" % n)
    print("self-test: corrupted events of %d kinds of traces rejected, originals accepted" % n)


def run(prop, tier):
    rng = random.Random(lib.seed() * 104729 + 19)
    quick = tier == "quick"
    t0 = time.time()
    gen = lib.subdir("gencfg-peg")
    cfgs = plan(tier)

    def model(c):
        path = os.path.join(gen, "%s_%s.cfg" % (c["mod"], c["name"]))
        with open(path, "w") as f:
            f.write(peg_cfg(c) if c["mod"] == "PegMC" else
                    atom_cfg("ExprLaws" if c["mod"] == "TagLangMC" else "ValueLaws", c))
        r = lib.run_tlc(c["mod"], path, workers=max(2, lib.NCPU // 4), tag="peg-" + c["name"], timeout=3000,
                        raw_cases=True)
        lib.require_ok(r, "%s model %s" % (c["mod"], c["name"]))
        return c, r

    models, emitted = [], {}
    with concurrent.futures.ThreadPoolExecutor(max_workers=3) as ex:
        for c, r in ex.map(model, cfgs):
            emitted[c["name"]] = r.cases          # raw lines, parsed when the configuration is replayed
            r.cases = []
            models.append(r)
    print("timing: models %.1fs (%s)" % (time.time() - t0, ", ".join("%s:%d" % (k, len(v)) for k, v in emitted.items())))

    st = Stage()
    counts = dict(peg_terms=0, peg_pairs=0, tag_exprs=0, json_docs=0)
    npeg = ntag_model = njson_model = nbad_model = 0
    all_hows = ["classes", "operators", "forward", "shared", "shared-ops"]

    # -- combinators: emitted terms (groups of at most ~6e5 term x input pairs are driven and validated together)
    acc_jobs, acc_expect, acc_pairs = [], {}, 0
    for c in cfgs:
        if c["mod"] != "PegMC":
            continue
        cases = [lib.parse_case(x) for x in emitted.pop(c["name"])]
        first = [x for x in cases if x.get("first")]
        if len(first) != 1:
            raise lib.MachineryError("PegMC %s did not emit its input list" % c["name"])
        ws = first[0]["ws"]
        terms = [x for x in cases if not x.get("first")]
        del cases
        npeg += len(terms)
        if c.get("sample") and len(terms) > c["sample"]:
            # the model run stays exhaustive; the replay takes all small terms and a seeded sample of the rest
            small = [x for x in terms if all(not g["ts"] for g in x["t"]["ts"])]
            terms = small + pick(rng, [x for x in terms if not all(not g["ts"] for g in x["t"]["ts"])],
                                 c["sample"] - len(small))
        items, expect = [], {}
        for x in terms:
            nh = c.get("hows", 1 if quick else 5)
            hows = all_hows if nh >= 5 else [rng.choice(HOW_WEIGHTED)] if nh == 1 else ["classes", "operators", "shared"]
            for how in hows:
                items.append(dict(t=x["t"], how=how))
            expect[("peg", key(x["t"]), key(ws))] = x["res"]
        del terms
        rng.shuffle(items)
        jobs = [dict(id="%s/%d" % (c["name"], i), kind="peg", ws=ws, terms=ch)
                for i, ch in enumerate(lib.chunks(items, max(1, len(items) // 500))) if ch]
        counts["peg_terms"] += len(items)
        counts["peg_pairs"] += len(items) * len(ws)
        acc_jobs += jobs
        acc_expect.update(expect)
        acc_pairs += len(items) * len(ws)
        if acc_pairs > 600000:
            st.run(acc_jobs, acc_expect, rng)
            acc_jobs, acc_expect, acc_pairs = [], {}, 0
    # -- combinators: seeded deeper terms over a richer alphabet
    nrand = 2500 if quick else 24000
    jobs = acc_jobs
    for i in range(max(1, nrand // 500)):
        ws = rand_inputs(rng, 36, 6 if i % 2 else 4)
        items = [dict(t=rand_term(rng, rng.choice([2, 3, 3, 4])), how=rng.choice(all_hows)) for _ in range(500)]
        jobs.append(dict(id="randpeg/%d" % i, kind="peg", ws=ws, terms=items))
        counts["peg_terms"] += len(items)
        counts["peg_pairs"] += len(items) * len(ws)
    st.run(jobs, acc_expect, rng)

    # -- failed alternatives and the indent stack (WithIndent / HangingString, not modelled by Parse)
    st.run([dict(id="notrace/%d" % i, kind="notrace", cases=ch)
            for i, ch in enumerate(lib.chunks(notrace_cases(rng, 600 if quick else 6000), 4)) if ch], {}, rng)

    # -- tag expressions
    retab = [[b, t] for b in BODIES for t in UNIVERSE]
    jobs, expect = [], {}
    for c in cfgs:
        if c["mod"] != "TagLangMC":
            continue
        cases = [lib.parse_case(x) for x in emitted.pop(c["name"])]
        first = [x for x in cases if x.get("first")]
        if len(first) != 1:
            raise lib.MachineryError("TagLangMC %s did not emit its tag sets" % c["name"])
        sets = first[0]["sets"]
        exprs = [x for x in cases if not x.get("first")]
        ntag_model += len(exprs)
        small = [x for x in exprs if len(x["toks"]) <= 6]
        chosen = exprs if not quick else small + pick(rng, [x for x in exprs if len(x["toks"]) > 6], 7000)
        items = []
        for x in chosen:
            items.append(dict(toks=x["toks"], sp=[rng.randint(0, 4) if rng.random() < 0.5 else 0 for _ in range(5)]))
            expect[("tag", key(x["toks"]))] = x["vals"]
        # the neighbours TLC judged (mostly ill-formed): written without optional white space, exactly as judged
        bad = [b for x in exprs for b in x.get("bad", []) if b["toks"]]
        nbad_model += len(bad)
        for b in (bad if not quick else pick(rng, bad, 2500)):
            items.append(dict(toks=b["toks"], sp=[], bad=True))
            expect[("tagbad", key(b["toks"]))] = b
        jobs += [dict(id="%s/%d" % (c["name"], i), kind="tag", sets=sets, exprs=ch, retab=retab)
                 for i, ch in enumerate(lib.chunks(items, max(1, len(items) // 800))) if ch]
        counts["tag_exprs"] += len(items)
    sets = [[], ["a"], ["b"], ["ab"], ["a", "b"], ["a", "ab"], ["b", "ab"], ["a", "b", "ab"]]
    nrt = 3000 if quick else 40000
    for i in range(max(1, nrt // 1000)):
        items = []
        for _ in range(1000):
            tk = render(rand_ast(rng, rng.choice([2, 3, 4, 5])))
            if rng.random() < 0.35:
                tk = mutate_toks(rng, tk)
            items.append(dict(toks=tk, sp=[rng.randint(0, 4) for _ in range(7)] if rng.random() < 0.6 else []))
        jobs.append(dict(id="randtag/%d" % i, kind="tag", sets=sets, exprs=items, retab=retab))
        counts["tag_exprs"] += len(items)
    st.run(jobs, expect, rng)

    # -- JSON documents
    modes = ["compact", "default", "indent"]
    jobs, expect = [], {}
    for c in cfgs:
        if c["mod"] != "JsonDocMC":
            continue
        raw = emitted.pop(c["name"])
        njson_model += len(raw)
        limit = 2500 if quick else 25000
        vals = [lib.parse_case(x) for x in (raw if len(raw) <= limit else pick(rng, raw, limit))]
        items = []
        for x in vals:
            for m in (modes if not quick or len(raw) <= limit else [rng.choice(modes)]):
                items.append(dict(v=x["v"], mode=m))
            expect[("json", key(x["v"]))] = x["flat"]
        jobs += [dict(id="%s/%d" % (c["name"], i), kind="json", values=ch)
                 for i, ch in enumerate(lib.chunks(items, max(1, len(items) // 800))) if ch]
        counts["json_docs"] += len(items)
    nrj = 1500 if quick else 20000
    for i in range(max(1, nrj // 500)):
        items = [dict(v=rand_json(rng, rng.choice([2, 3, 4])), mode=rng.choice(modes)) for _ in range(500)]
        jobs.append(dict(id="randjson/%d" % i, kind="json", values=items))
        counts["json_docs"] += len(items)
    st.run(jobs, expect, rng)

    stats, val = st.stats, st.val
    print("timing: drivers %.1fs, %s, %s" % (st.tdrv, counts, stats))
    print("timing: validation %.1fs (%d events, %d JVMs; peg %.1fs, tag %.1fs, json %.1fs, notrace %.1fs)"
          % (sum(st.tval.values()), val["events"], val["jvms"], st.tval["peg"], st.tval["tag"], st.tval["json"],
             st.tval["notrace"]))
    if stats.get("hangs"):
        print("note: %d term runs exceeded the per-term time limit (recorded as position -1); %d terms not run after that"
              % (stats["hangs"], stats.get("terms_not_run_after_hangs", 0)))
    vacuous = None
    if not (stats.get("parses") and stats.get("tag_evals") and stats.get("json_docs")):
        vacuous = "driver did not reach all of the code under test: %s" % stats
    elif stats["ok"] < stats["parses"] // 40 or stats["fail"] < stats["parses"] // 40:
        vacuous = "vacuous combinator run (successes %d, failures %d)" % (stats["ok"], stats["fail"])
    for k in KINDS:
        oc = st.by_kind.get(k, [0, 0])
        if not vacuous and (oc[0] == 0 or (oc[1] == 0 and k not in ("until", "opt"))):
            vacuous = "terms with top kind %s: %d successes, %d failures observed" % (k, oc[0], oc[1])
    if not vacuous and (st.tag_outcomes[0] < 200 or st.tag_outcomes[1] < 200):
        vacuous = "tag texts: %d rejected and %d accepted by the parser" % tuple(st.tag_outcomes)
    if not vacuous and stats.get("notrace_base_reads_text", 0) < 50:
        vacuous = "indent-stack cases: the grammar without the failing alternative read a value in only %d of %d" % (
            stats.get("notrace_base_reads_text", 0), stats.get("notrace", 0))
    if vacuous and not st.rej:
        raise lib.MachineryError(vacuous)      # with rejections it is a verdict, not vacuity

    if not quick or os.environ.get("VERIF_SELFTEST"):
        selftest(st)

    verdict = lib.Verdict(prop, tier)
    groups = {}
    for r in st.rej:
        groups.setdefault(":".join(r["clause"].split(":")[:2]), []).append(r)
    per_sig = {}
    for g, rs in sorted(groups.items()):
        rs.sort(key=lambda r: (r["size"], r["clause"], r["id"], r["line"]))
        sigs = []
        for r in rs:
            s = lib.sig(prop, r["clause"])
            per_sig[s] = per_sig.get(s, 0) + 1
            if s in verdict.known:
                verdict.reject(s, "", None)       # counted, reported as KNOWN-FINDING
                continue
            if s not in sigs:
                if len(sigs) >= 4:
                    continue                  # larger cases of the same kind of disagreement: not reported separately
                sigs.append(s)
            elif per_sig[s] > 2:
                continue
            verdict.reject(s, r["what"] + "; clause " + r["clause"], r["rep"])
    if per_sig:
        print("note: rejected events per signature: %s" % json.dumps(per_sig, sort_keys=True)[:3000])

    # ---- evidence ----
    evaluations = stats.get("parses", 0) + stats.get("tag_evals", 0) + 2 * stats.get("json_docs", 0)
    ev = lib.evidence(
        prop, tier, models, val, evaluations=evaluations, distinct_nontrivial=st.nontrivial,
        rule="TLC enumerates every well-formed term of the listed depth over the listed constructors (checking the PEG "
             "laws on each term x input), every tag expression of depth <= 2 over five atoms and every JSON value of "
             "the listed depth; each is built from the real classes / written out as text and run; seeded deeper "
             "terms, expressions and documents are added. evaluations = parser invocations (call and process per "
             "term x input) + predicate evaluations + decodings, each compared by TLC with the reference; "
             "distinct_nontrivial = distinct composite terms + distinct expressions with an operator + distinct "
             "container documents that were run",
        samples=[st.samples[k] for k in ("peg", "tag", "json") if k in st.samples], assumptions=ASSUMPTIONS,
        extra=dict(configs=[dict((k, v) for k, v in c.items()) for c in cfgs], case_counts=counts,
                   model_cases=dict(peg_terms=npeg, tag_expressions=ntag_model, tag_neighbours_judged=nbad_model,
                                    json_values=njson_model),
                   tag_texts_accepted_by_parser=st.tag_outcomes[1], tag_texts_rejected_by_parser=st.tag_outcomes[0],
                   laws_checked_on_model=["SequenceLeftToRight", "ChoiceCommits", "FailedAlternativeInvisible",
                                          "LookaheadConsumesNothing", "LookaheadDecides", "ManyGreedy", "OptNeverFails",
                                          "KeepSides", "UntilStops", "ConsumesSound", "RenderReadable", "RenderFaithful",
                                          "BooleanAlgebra", "DocExample", "FlatInjective", "FlatWellFormed"],
                   driver_stats=stats, outcomes_by_top_kind=dict((k, dict(ok=v[0], fail=v[1])) for k, v in st.by_kind.items()),
                   exhaustive=False))
    return verdict.finish(ev)


def replay(prop, path):
    with open(path) as f:
        rec = json.load(f)
    print(json.dumps(dict(signature=rec["signature"], what=rec["what"]), indent=1))
    job = (rec.get("replay") or {}).get("job")
    if not job:
        return 0
    out = lib.run_driver("drive_peg.py", dict(jobs=[job]))
    mod = {"peg": "PegTrace", "tag": "TagLangTrace", "json": "JsonDocTrace", "notrace": "PegTrace"}[job["kind"]]
    val = lib.validate_traces(mod, mod + ".cfg", out["traces"], jobs=1)
    for rj in val["rejected"]:
        print("still rejected: clause %s" % rj["clause"])
    if not val["rejected"]:
        print("the recorded case is accepted on the current tree")
    return 1 if val["rejected"] else 0
