"""Driver for Rules.tla (C12): generated rule sets evaluated by the real evaluators /
formatters; Response constructor table.  No oracle here: records are judged by
specs/RulesTrace.tla.

in : {"cases":[{"id":..,"rules":[{ret,dep,enabled,key,mod}],"order":[..]}], "ctor":[cells], "seed": n}
out: {"traces":[..]}
"""
import copy
import io
import json
import logging
import os
import re
import sys
import types

import yaml

from insights import settings
from insights.core import dr, plugins
from insights.core.evaluators import InsightsEvaluator, SingleEvaluator
from insights.core.exceptions import SkipComponent, ValidationException
from insights.formats import get_response_of_types
from insights.formats._json import JsonFormat
from insights.formats._yaml import YamlFormat

class _Loader(yaml.SafeLoader):
    """Decodes YamlFormat output structurally: python/object tags become plain dicts (a projection,
    the generated modules are not importable by name)."""


def _obj(loader, suffix, node):
    if isinstance(node, yaml.MappingNode):
        m = loader.construct_mapping(node, deep=True)
        return dict(m.get("dictitems", {})) if "dictitems" in m or "state" in m else m
    if isinstance(node, yaml.SequenceNode):
        return loader.construct_sequence(node, deep=True)
    return loader.construct_scalar(node)


for _t in ("object/new:", "object/apply:", "object:"):
    _Loader.add_multi_constructor("tag:yaml.org,2002:python/" + _t, _obj)
_Loader.add_multi_constructor("tag:yaml.org,2002:python/name:", lambda l, s, n: s)
_Loader.add_constructor("tag:yaml.org,2002:python/tuple", lambda l, n: l.construct_sequence(n, deep=True))

CLS = {"fail": plugins.make_fail, "pass": plugins.make_pass, "info": plugins.make_info,
       "fingerprint": plugins.make_fingerprint, "response": plugins.make_response}
KEYNAME = {"fail": "error_key", "response": "error_key", "pass": "pass_key", "info": "info_key",
           "fingerprint": "fingerprint_key", "metadata_key": "key"}
HEAD_OF_TYPE = {"rule": "reports", "fingerprint": "fingerprints", "pass": "pass", "info": "info", "none": "none"}
SHOWS = [[], ["rule", "info", "pass", "none", "metadata", "fingerprint"], ["rule"], ["pass", "none"],
         ["metadata", "fingerprint"]]


def sized_kwargs(base, extra, target, ch="x"):
    """kwargs whose documented measure len(str(kwargs + type + key)) is exactly target (characters,
    not bytes: the padding may be non-ASCII)."""
    kw = dict(base)
    kw["pad"] = ""
    probe = dict(kw)
    probe.update(extra)
    n = target - len(str(probe))
    if n < 0:
        raise RuntimeError("target too small for payload")
    kw["pad"] = ch * n
    probe = dict(kw)
    probe.update(extra)
    assert len(str(probe)) == target, (len(str(probe)), target)
    return kw


class RuleSet(object):
    def __init__(self, case, limit):
        self.case = case
        self.limit = limit
        self.comps = []
        self.rules = {}
        self.returned = {}     # id(Response object) -> rule index
        self.lens = {}
        self.mods = {}
        tag = "%x" % (id(self) % 0xfffff)
        for m in set(r["mod"] for r in case["rules"]):
            name = "verif_rules_%s_m%d" % (tag, m)
            mod = types.ModuleType(name)
            sys.modules[name] = mod
            self.mods[m] = mod

        def present():
            return "present"

        def absent1():
            raise SkipComponent("never there")

        def absent2():
            raise SkipComponent("never there")

        def absent3():
            raise SkipComponent("never there")
        self.absent3 = absent3
        for f in (present, absent1, absent2, absent3):
            f.__module__ = "verif_rules_%s_deps" % tag
            plugins.component()(f)
            self.comps.append(f)
        self.present, self.absent1, self.absent2 = present, absent1, absent2
        for i, r in enumerate(case["rules"]):
            self._define(i + 1, r)

    def key(self, r):
        return "KEY_%d" % r["key"]

    def _body(self, i, r):
        ret = r["ret"]
        K = self.key(r)
        rs = self

        def payload(kind, target=None):
            base = {"rid": i}
            if target is None:
                return base
            t = {"fail": "rule"}.get(kind, kind)
            return sized_kwargs(base, {"type": t, KEYNAME[kind]: K}, target, "x" if i % 2 else u"\u00e9")

        def body(*args):
            if ret in CLS:
                v = CLS[ret](K, **payload(ret))
            elif ret.startswith("over_") and ret[5:] in CLS:
                v = CLS[ret[5:]](K, **payload(ret[5:], rs.limit + 1))
            elif ret.startswith("at_"):
                v = CLS[ret[3:]](K, **payload(ret[3:], rs.limit))
            elif ret == "metadata":
                v = plugins.make_metadata(**{"m%d" % i: i})
            elif ret == "over_metadata":
                v = plugins.make_metadata(**sized_kwargs({"m%d" % i: i}, {"type": "metadata"}, rs.limit + 1))
            elif ret == "metadata_key":
                v = plugins.make_metadata_key("mk%d" % i, i)
            elif ret == "over_metadata_key":
                v = plugins.make_metadata_key("mk%d" % i, "x" * (rs.limit + 10))
            elif ret == "none":
                return None
            elif ret == "nonresp":
                return {"type": "rule", "error_key": K, "rid": i}
            elif ret == "nonresp_falsy":
                return [{}, 0, "", [], False][i % 5]
            elif ret == "raises":
                raise RuntimeError("rule %d crashed" % i)
            elif ret == "dskip":
                raise SkipComponent("deliberate")
            elif ret == "key_empty":
                v = plugins.make_fail("", rid=i)
            elif ret == "key_none":
                v = plugins.make_pass(None, rid=i)
            elif ret == "key_nonstr":
                v = plugins.make_info(5, rid=i)
            elif ret == "kw_type":
                v = plugins.make_fail(K, rid=i, type="rule")
            elif ret == "kw_keyname":
                v = plugins.make_pass(K, rid=i, pass_key="OTHER")
            elif ret == "meta_kw_type":
                v = plugins.make_metadata(type="metadata", rid=i)
            else:
                raise AssertionError("unknown ret " + ret)
            rs.returned[id(v)] = (i, v)
            return v
        return body

    def measured(self, i, r):
        ret = r["ret"]
        if ret.startswith("over_") and ret != "over_metadata_key":
            return self.limit + 1
        if ret.startswith("at_"):
            return self.limit
        return 0

    def _define(self, i, r):
        body = self._body(i, r)
        body.__name__ = "rule%d" % i
        body.__qualname__ = "rule%d" % i
        body.__module__ = self.mods[r["mod"]].__name__
        setattr(self.mods[r["mod"]], body.__name__, body)
        deps = {"met": [self.present], "missing": [self.absent1],
                "missing-group": [self.present, [self.absent1, self.absent2]],
                "missing-both": [self.present, self.absent3, [self.absent1, self.absent2], [self.present, self.absent2]],
                # the rule is told (dr.add_ignore) to keep quiet when a marker is present; the marker is present
                "ignored": [self.present], "ignored-missing": [self.present, self.absent1]}[r["dep"]]
        # a content template: none, one that renders, one that jinja2 cannot compile
        content = [None, "rule {{rid}} says {{pad}}", "{% if %}broken", {"KEY_1": "by key {{rid}}"}][(i + r["key"]) % 4]
        # every other rule is declared through a rule type of its own that brings type-level tags (the
        # documented class attribute); the tags given in each declaration differ from rule to rule
        (TypedRule if i % 2 == 0 else plugins.rule)(*deps, tags=["t%d" % i, "common"],
                                                    links={"kcs": ["https://example.test/%d" % i]},
                                                    content=content)(body)
        if r["dep"] in ("ignored", "ignored-missing"):
            dr.add_ignore(body, self.present)
        if not r["enabled"]:
            dr.set_enabled(body, False)
        self.rules[i] = body
        self.comps.append(body)

    def graph(self):
        g = {}
        for c in self.comps:
            g[c] = set(dr.get_dependencies(c))
        return g

    def registered(self):
        out = []
        for i, r in enumerate(self.case["rules"]):
            f = self.rules[i + 1]
            d = dr.get_delegate(f)
            dep = r["dep"]      # as declared
            out.append({"ret": r["ret"], "dep": dep, "enabled": bool(dr.is_enabled(f)), "key": r["key"],
                        "mod": r["mod"], "len": self.measured(i + 1, r)})
        return out

    def cleanup(self):
        for o in self.comps:
            dr.DELEGATES.pop(o, None)
            dr.DEPENDENCIES.pop(o, None)
            dr.DEPENDENTS.pop(o, None)
            dr.ENABLED.pop(o, None)
            dr.IGNORE.pop(o, None)
            dr.MODULE_NAMES.pop(o, None)
            dr.BASE_MODULE_NAMES.pop(o, None)
            for g in list(dr.COMPONENTS):
                dr.COMPONENTS[g].pop(o, None)
            for t in list(dr.COMPONENTS_BY_TYPE):
                dr.COMPONENTS_BY_TYPE[t].discard(o)
        dr.COMPONENTS_BY_NAME.clear()
        for m in self.mods.values():
            sys.modules.pop(m.__name__, None)

    # ---- projection of a response (in-memory or decoded from JSON / YAML) ----
    def project(self, resp, broker, in_memory):
        per = {}
        for i in self.rules:
            per[i] = {"r": i, "occ": [], "skips": 0, "skipnamesok": True, "excs": 0, "tb": True, "meta": 0,
                      "metastub": False, "metakey": 0}
        names = dict((dr.get_name(f), i) for i, f in self.rules.items())

        def owner(entry):
            det = entry.get("details")
            if in_memory and id(det) in self.returned:
                return self.returned[id(det)][0]
            if isinstance(det, dict) and det.get("rid") in self.rules:
                return det.get("rid")
            return names.get(entry.get("component"), 0)
        for head in ("reports", "pass", "info", "fingerprints", "none"):
            for entry in resp.get(head, []) or []:
                i = owner(entry)
                if not i:
                    per.setdefault(0, {"r": 0, "occ": []})["occ"].append({"h": head})
                    continue
                f = self.rules[i]
                r = self.case["rules"][i - 1]
                det = entry.get("details") or {}
                typ = entry.get("type")
                kn = {"rule": "error_key", "pass": "pass_key", "info": "info_key", "fingerprint": "fingerprint_key",
                      "none": "none_key"}.get(typ, "?")
                wantkey = "NONE_KEY" if typ == "none" else self.key(r)
                if set(det.keys()) == set(["type", kn, "max_detail_length_error"]) and \
                        det.get("max_detail_length_error") == self.measured(i, r):
                    kind = "stub"
                elif "max_detail_length_error" in det:
                    kind = "bad-stub"
                elif typ == "none" or (det.get("rid") == i and ("pad" not in det or len(det["pad"]) > 0 or True)):
                    kind = "full"
                else:
                    kind = "other"
                mod = dr.BASE_MODULE_NAMES.get(f)
                per[i]["occ"].append({
                    "h": head, "type": typ if isinstance(typ, str) else "?", "det": kind,
                    "keyok": entry.get("key") == wantkey and det.get(kn) == wantkey and det.get("type") == typ,
                    "compok": entry.get("component") == dr.get_name(f),
                    # compared with what was DECLARED in the decorator, not with what dr now says
                    # (a rule of the typed kind may or may not also show its type's tags: not demanded)
                    "tagsok": set(["t%d" % i, "common"]) <= set(entry.get("tags") or []) <=
                    set(["t%d" % i, "common"] + (list(TYPE_TAGS) if i % 2 == 0 else [])) and
                    len(entry.get("tags") or []) == len(set(entry.get("tags") or [])),
                    "linksok": (entry.get("links") or {}) == {"kcs": ["https://example.test/%d" % i]},
                    "idok": entry.get("%s_id" % typ) == "%s|%s" % (mod, wantkey)})
        for s in resp.get("skips", []) or []:
            i = names.get(s.get("rule_fqdn"), 0)
            if not i:
                continue
            per[i]["skips"] += 1
            r = self.case["rules"][i - 1]
            want_all = {"missing": [dr.get_name(self.absent1)], "missing-both": [dr.get_name(self.absent3)]}.get(r["dep"], [])
            want_any = [[dr.get_name(self.absent1), dr.get_name(self.absent2)]] if r["dep"] in ("missing-group", "missing-both") else []
            m = re.match(r"^All: (\[.*?\]) Any: ?(.*)$", s.get("details", ""))
            ok = bool(m) and s.get("reason") == "MISSING_REQUIREMENTS" and s.get("type") == "skip"
            if ok:
                got_all = re.findall(r"'([^']+)'", m.group(1))
                got_any = [re.findall(r"'([^']+)'", g) for g in m.group(2).split(" Any: ") if g.strip()]
                ok = got_all == want_all and got_any == want_any
            per[i]["skipnamesok"] = per[i]["skipnamesok"] and ok
        md = (resp.get("system") or {}).get("metadata") or {}
        for i in self.rules:
            if md.get("m%d" % i) == i:
                per[i]["meta"] += 1
            if resp.get("mk%d" % i) is not None:
                per[i]["metakey"] += 1
        stub_owner = [i for i, r in enumerate(self.case["rules"], 1) if r["ret"] == "over_metadata"]
        if "max_detail_length_error" in md:
            # a metadata stub carries no rule marker: attribute it to the rules that returned an oversized one
            for i in stub_owner:
                if per[i]["meta"] == 0 and dr.is_enabled(self.rules[i]) and self.case["rules"][i - 1]["dep"] == "met":
                    per[i]["meta"] += 1
                    per[i]["metastub"] = True
        if broker is not None:
            for i, f in self.rules.items():
                lst = broker.exceptions.get(f, [])
                per[i]["excs"] = len(lst)
                per[i]["tb"] = all(bool(broker.tracebacks.get(e)) for e in lst)
        return per


TYPE_TAGS = ("typed",)


class TypedRule(plugins.rule):
    """A rule type with tags of its own."""
    tags = list(TYPE_TAGS)


EVALS = ["single", "insights", "json", "yaml", "single-incr"]


def run_case(case, which, limit, nonce):
    old_limit = settings.defaults["max_detail_length"]
    settings.defaults["max_detail_length"] = limit
    rs = RuleSet(case, limit)
    try:
        events = []
        broker = dr.Broker()
        broker[rs.present] = "present"
        stream = io.StringIO()
        missing, show = bool(nonce % 2), SHOWS[nonce % len(SHOWS)]
        if which == "single" or which == "single-incr":
            ev = SingleEvaluator(broker, stream=stream, incremental=(which == "single-incr"))
        elif which == "insights":
            ev = InsightsEvaluator(broker, system_id="sys-1", stream=stream)
        elif which == "json":
            ev = JsonFormat(broker, missing=missing, show_rules=show, stream=stream,
                            render_content=bool((nonce // 2) % 2))
        else:
            ev = YamlFormat(broker, missing=missing, show_rules=show, stream=stream)

        def att(comp, b):
            for i, f in rs.rules.items():
                if f is comp:
                    events.append({"ev": "att", "r": i})
        broker.add_observer(att)
        graph = rs.graph()
        escaped = None
        try:
            with ev:
                if which == "single-incr":
                    ev.run_incremental(graph)
                elif case.get("order") and which != "insights":
                    order = [rs.present, rs.absent1, rs.absent2, rs.absent3] + [rs.rules[i] for i in case["order"]]
                    dr.run_components(order, graph, broker)
                else:
                    ev.run_serial(graph)
            resp = ev.get_response()
        except Exception as ex:    # noqa
            escaped = type(ex).__name__
        if escaped:
            events.append({"ev": "escaped", "exc": escaped})
        else:
            per = rs.project(resp, broker, True)
            for i in sorted(rs.rules):
                e = per[i]
                e["ev"] = "obs"
                events.append(e)
            if 0 in per:
                events.append({"ev": "unattributed", "n": len(per[0]["occ"])})
            # what formatters show
            outs = []
            if which in ("json", "yaml"):
                text = stream.getvalue()
                shown = json.loads(text) if which == "json" else yaml.load(text, Loader=_Loader)
                outs.append((missing, show, shown))
            else:
                for k, sh in enumerate(SHOWS):
                    ms = bool((k + nonce) % 2)
                    outs.append((ms, sh, get_response_of_types(copy.copy(resp) if False else _shallow(resp), ms, sh)))
            for ms, sh, shown in outs:
                p = rs.project(shown, None, which not in ("json", "yaml"))
                events.append({"ev": "fmt", "missing": ms, "show": sh,
                               "all": bool(ms and set(sh) >= set(["rule", "info", "pass", "none", "metadata", "fingerprint"])),
                               "rules": [{"r": i, "occ": [{"h": o["h"], "type": o["type"], "det": o["det"]} for o in p[i]["occ"]],
                                          "skips": p[i]["skips"], "meta": p[i]["meta"]} for i in sorted(rs.rules)]})
        return {"id": "%s/%s/L%d" % (case["id"], which, limit), "rules": rs.registered(), "limit": limit, "events": events}
    finally:
        rs.cleanup()
        settings.defaults["max_detail_length"] = old_limit


def _shallow(resp):
    r = dict(resp)
    if "system" in r:
        r["system"] = dict(r["system"])
    return r


def ctor_cell(c, limit, n, layers=None):
    """One cell of the constructor table: class x key kind x kwargs kind x size class.
    layers: this process got its limit from the configuration sources (nothing is set here); the cell is
    sized around `limit`, which is only where the driver aims - the verdict uses layers and the measured size."""
    old_limit = settings.defaults["max_detail_length"]
    if layers is None:
        settings.defaults["max_detail_length"] = limit
    try:
        cls = c["cls"]
        haskey = cls in KEYNAME
        sized = cls != "metadata_key"
        key = {"valid": "SOME_KEY", "empty": "", "none": None, "nonstr": 7}[c["key"]]
        kw = {"payload": "v"}
        keyname = KEYNAME.get(cls)
        if c["kw"] == "type":
            kw["type"] = "x"
        elif c["kw"] == "keyname" and keyname and cls != "metadata_key":
            kw[keyname] = "y"
        typ = {"fail": "rule", "response": "rule"}.get(cls, cls)
        length = 0
        plain = c["kw"] == "plain" or (c["kw"] == "keyname" and (not keyname or cls == "metadata_key"))
        if sized and plain and (c["key"] == "valid" or not haskey):
            extra = {"type": typ}
            if haskey:
                extra[keyname] = key
            target = {"below": limit - 1, "at": limit, "above": limit + 1}[c["size"]]
            kw = sized_kwargs(kw, extra, target)
            length = target
        try:
            if cls == "metadata":
                v = plugins.make_metadata(**kw)
            elif cls == "metadata_key":
                v = plugins.make_metadata_key(key, "x" * (limit + 5 if c["size"] == "above" else 3))
            else:
                v = CLS[cls](key, **kw)
            if "max_detail_length_error" in v:
                want = set(["type", "max_detail_length_error"] + ([keyname] if haskey else []))
                got = "stub" if set(v.keys()) == want and v["max_detail_length_error"] == length and \
                    v["type"] == typ and (not haskey or v[keyname] == key) else "bad-stub"
            else:
                full = v.get("type") == typ and (not haskey or v.get(keyname) == key)
                if cls == "metadata_key":
                    full = full and "value" in v
                else:
                    full = full and all(v.get(k) == kw[k] for k in kw)
                got = "full" if full else "mangled"
        except ValidationException:
            got = "error"
        except Exception as ex:   # noqa
            got = "other:" + type(ex).__name__
        kwkind = c["kw"]
        if cls == "metadata_key" or (kwkind == "keyname" and not keyname):
            kwkind = "plain"
        if layers is not None:
            return {"id": "ctorconf#%d/%s" % (n, "-".join(map(str, layers))), "rules": [], "limit": limit,
                    "events": [{"ev": "ctorconf", "cls": cls, "key": c["key"], "haskey": bool(haskey and cls != "metadata"),
                                "kw": kwkind, "sized": bool(sized), "len": length, "layers": list(layers),
                                "seen": old_limit, "got": got}]}
        return {"id": "ctor#%d/L%d" % (n, limit), "rules": [], "limit": limit,
                "events": [{"ev": "ctor", "cls": cls, "key": c["key"], "haskey": bool(haskey and cls != "metadata"),
                            "kw": kwkind, "sized": bool(sized), "len": length, "limit": limit, "got": got}]}
    finally:
        settings.defaults["max_detail_length"] = old_limit


def conf_children(cells, seed):
    """The limit configured through the documented sources: ~/.local/insights.yaml and ./.insights.yaml
    (the system-wide /etc/insights.yaml is not written to; if the machine has one, nothing is run).  One
    fresh interpreter per combination, HOME and the working directory in a scratch directory."""
    import random
    import shutil
    import subprocess
    import tempfile
    if os.path.exists("/etc/insights.yaml"):
        return []
    rng = random.Random(seed)
    out = []
    pkg = settings.defaults["max_detail_length"]
    combos = [(0, 0), (0, 240), (260, 0), (250, 310), (330, 270), (rng.randrange(200, 400), rng.randrange(200, 400))]
    for k, (user, here) in enumerate(combos):
        tmp = tempfile.mkdtemp(prefix="verif-rules-conf-")
        try:
            home, cwd = os.path.join(tmp, "home"), os.path.join(tmp, "cwd")
            os.makedirs(os.path.join(home, ".local"))
            os.makedirs(cwd)
            # other sections and other keys of the same section ride along; a source may also be silent
            for path, val, other in ((os.path.join(home, ".local", "insights.yaml"), user, "cli:\n  verbose: 1\n"),
                                     (os.path.join(cwd, ".insights.yaml"), here, "web:\n  port: 8081\n")):
                with open(path, "w") as f:
                    if val:
                        f.write("defaults:\n  log_level: DEBUG\n  max_detail_length: %d\n" % val)
                    elif k % 2:
                        f.write("defaults:\n  log_level: DEBUG\n")
                    f.write(other)
            job = os.path.join(tmp, "job.json")
            res = os.path.join(tmp, "res.json")
            with open(job, "w") as f:
                json.dump({"confchild": True, "layers": [pkg, 0, user, here], "cells": cells, "k": k}, f)
            env = dict(os.environ, HOME=home)
            subprocess.run([sys.executable, os.path.abspath(__file__), job, res], cwd=cwd, env=env,
                           stdin=subprocess.DEVNULL, stdout=subprocess.DEVNULL, stderr=subprocess.DEVNULL, timeout=300)
            with open(res) as f:
                out.extend(json.load(f)["traces"])
        finally:
            shutil.rmtree(tmp, True)
    return out


def main():
    logging.disable(logging.CRITICAL)
    with open(sys.argv[1]) as f:
        inp = json.load(f)
    if inp.get("confchild"):
        layers = inp["layers"]
        aim = [x for x in layers if x][-1]
        traces = [ctor_cell(c, aim, inp["k"] * 1000 + i, layers=layers) for i, c in enumerate(inp["cells"])]
        with open(sys.argv[2], "w") as f:
            json.dump({"traces": traces}, f, separators=(",", ":"))
        return
    default_limit = settings.defaults["max_detail_length"]
    traces = []
    n = inp.get("seed", 0)
    for case in inp["cases"]:
        for which in inp.get("evals", EVALS):
            n += 1
            limit = default_limit if n % 4 == 0 else 300 + (n % 3)
            traces.append(run_case(case, which, limit, n))
    for k, c in enumerate(inp.get("ctor", [])):
        for limit in (default_limit, 200):
            traces.append(ctor_cell(c, limit, k))
    if inp.get("ctor"):
        plain = [c for c in inp["ctor"] if c["kw"] == "plain" and c["key"] == "valid"]
        traces.extend(conf_children(plain, inp.get("seed", 0)))
    with open(sys.argv[2], "w") as f:
        json.dump({"traces": traces}, f, separators=(",", ":"))


if __name__ == "__main__":
    main()
