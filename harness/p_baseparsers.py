"""C14: base parsers.  Model: specs/BaseParsers.tla (+ BaseParsersMC emission),
trace validation: specs/BaseParsersTrace.tla, driver: harness/drive_baseparsers.py."""
import concurrent.futures
import copy
import hashlib
import json
import os
import random
import time

import lib

INVARIANTS = ["Totality", "SearchExact", "SearchMonotone", "AfterExact", "YearNear", "CalendarOK"]

# family -> (N quick, N thorough)
BOUNDS = {"cmd": (4, 5), "doc": (2, 2), "search": (3, 4), "after": (4, 5), "year": (2, 2), "mixed": (2, 2)}
NVAR = {"quick": {"cmd": 2, "doc": 3, "search": 1, "after": 3, "year": 2, "mixed": 1},
        "thorough": {"cmd": 3, "doc": 8, "search": 2, "after": 6, "year": 6, "mixed": 4}}
NRAND = {"quick": {"cmd": 1500, "doc": 2500, "search": 1500, "after": 3000},
         "thorough": {"cmd": 20000, "doc": 30000, "search": 12000, "after": 40000}}

ASSUMPTIONS = [
    "characters underneath an abstract line class / document / time stamp are sampled from VERIF_SEED, not enumerated",
    "json, yaml, re and datetime.strptime are trusted; the driver cross-checks its renderings against them (R4)",
    "time stamps are rendered only as valid dates of the format; a year-less stamp denotes its month/day/time in the "
    "calendar year the 330-day rule selects (sought, previous or next year; leap sought years included), 29 February "
    "is never rendered without a year; the model's day numbering is cross-checked against datetime.toordinal per call",
    "extra_bad_lines phrases are lower case; JSON noise lines do not start with { or [; a time_format list holds "
    "formats that cannot be confused with one another (all with a year, all without, or mixed: then every stamp "
    "denotes its own moment - explicit year if it has one, inferred year otherwise); one time stamp per line",
    "bounds: exhaustive for the stated numbers of lines / document widths only; larger inputs are seeded random",
]


def cfg_text(fam, n, deep, emit=True):
    lines = ["SPECIFICATION Spec", "CONSTANTS", '  Fam = "%s"' % fam, "  N = %d" % n,
             "  Deep = %s" % ("TRUE" if deep else "FALSE")]
    lines += ["INVARIANT %s" % i for i in INVARIANTS]
    if emit:
        lines.append("CONSTRAINT Emit")
    lines.append("CHECK_DEADLOCK FALSE")
    return "\n".join(lines) + "\n"


def key_of(fam, inp):
    return hashlib.sha1(json.dumps([fam, inp], sort_keys=True).encode()).hexdigest()


def nontrivial(fam, inp):
    if fam == "doc":
        return inp["doc"]["t"] != "empty"
    return len(inp["lines"]) > 0


def mutate(trace, rng):
    """binding self-test: corrupt one observed field; the result must be rejected"""
    t = copy.deepcopy(trace)
    e = t["events"][rng.randrange(len(t["events"]))]
    if e["ev"] == "cmd":
        e["outcome"] = "content" if e["outcome"] == "ok" else "ok"
    elif e["ev"] == "doc":
        e["outcome"] = {"value": "skip", "skip": "parse", "parse": "skip"}.get(e["outcome"], "value")
        if e["doc"]["t"] == "null" and e["noise"] and e["fmt"] == "json":
            e["outcome"] = "value"
    elif e["ev"] == "search":
        if e["via"] in ("token_scan", "contains"):
            e["res"] = [] if e["res"] else [0]
        elif e["res"]:
            e["res"] = e["res"][1:]
        else:
            e["res"] = [1]
    else:
        e["res"] = e["res"][:-1] if e["res"] else [1]
    t["events"] = [e]
    t["id"] = "selftest/" + t["id"]
    return t


DEBUG_FIELDS = ("text", "s", "fmt_used", "T", "extra_bad_lines")


def slim(trace):
    """the concrete text is kept for the replay file only; TLC gets the abstract event"""
    return dict(id=trace["id"], events=[dict((k, v) for k, v in e.items() if k not in DEBUG_FIELDS)
                                        for e in trace["events"]])


def run(prop, tier):
    rng = random.Random(lib.seed())
    quick = tier == "quick"
    t0 = time.time()
    gen = lib.subdir("gencfg")
    jobs = []
    for fam, (nq, nt) in sorted(BOUNDS.items()):
        cfgp = os.path.join(gen, "BaseParsersMC_%s.cfg" % fam)
        with open(cfgp, "w") as f:
            f.write(cfg_text(fam, nq if quick else nt, not quick))
        jobs.append((fam, cfgp))

    def one(job):
        fam, cfgp = job
        r = lib.run_tlc("BaseParsersMC", cfgp, workers=(2 if lib.NCPU >= 4 else 1), tag="bp-" + fam, timeout=1800,
                        raw_cases=True, coverage=(fam in ("search", "after")))
        return fam, lib.require_ok(r, "BaseParsers model " + fam)

    models, cases = [], []
    with concurrent.futures.ThreadPoolExecutor(max_workers=max(1, min(len(jobs), lib.NCPU // 2))) as ex:
        for fam, r in ex.map(one, jobs):
            for i, line in enumerate(r.cases):
                c = lib.parse_case(line)
                cases.append(dict(id="%s#%d" % (fam, i), fam=fam, inp=c["inp"], exp=c["exp"]))
            r.cases = []
            r.fam = fam
            models.append(r)
    emitted = len(cases)
    # vacuity: every family produced cases, every step action was taken
    fams = set(c["fam"] for c in cases)
    if fams != set(BOUNDS):
        raise lib.MachineryError("no cases emitted for %s" % sorted(set(BOUNDS) - fams))
    need_cov = {"search": ["SearchStep", "SearchEnd"], "after": ["GetAfterStep", "GetAfterEnd"]}
    for m in models:
        for act in need_cov.get(m.fam, []):
            if not m.coverage.get(act):
                raise lib.MachineryError("action %s never taken in family %s" % (act, m.fam))
    cap = 40000 if quick else 400000
    if len(cases) > cap:
        rng.shuffle(cases)
        cases = cases[:cap]
    print("timing: models %.1fs, %d abstract inputs emitted, %d replayed" % (time.time() - t0, emitted, len(cases)))

    t1 = time.time()
    njobs = max(1, min(lib.NCPU, 8))
    payloads = []
    byfam = {}
    for c in cases:
        byfam.setdefault(c["fam"], []).append(dict(id=c["id"], fam=c["fam"], inp=c["inp"]))
    nvar = NVAR[tier]
    for fam, cs in sorted(byfam.items()):
        for ch in lib.chunks(cs, njobs):
            if ch:
                payloads.append(dict(cases=ch, seed=lib.seed(), nvar=nvar[fam]))
    for i in range(njobs):
        payloads.append(dict(cases=[], seed=lib.seed(), chunk=i,
                             random=dict((f, n // njobs) for f, n in NRAND[tier].items())))
    outs = lib.run_driver_parallel("drive_baseparsers.py", payloads, timeout=1500, jobs=njobs)
    traces, stats = [], {}
    for o in outs:
        traces.extend(o["traces"])
        for k, v in o["stats"].items():
            stats[k] = stats.get(k, 0) + v
    print("timing: drivers %.1fs, %d traces, %s" % (time.time() - t1, len(traces), json.dumps(stats, sort_keys=True)))
    # vacuity on the driver side: the real parsers produced every kind of outcome
    for need in ("cmd_ok", "cmd_content", "doc_value", "doc_skip", "doc_parse", "search_calls", "after_calls"):
        if not stats.get(need):
            raise lib.MachineryError("driver never observed %s" % need)

    t1 = time.time()
    val = lib.validate_traces("BaseParsersTrace", "BaseParsersTrace.cfg", [slim(t) for t in traces])
    print("timing: validation %.1fs (%d events, %d JVMs)" % (time.time() - t1, val["events"], val["jvms"]))
    rejected = dict((r["id"], r) for r in val["rejected"])
    mach = [r for r in val["rejected"] if r["clause"].startswith("machinery:")]
    if mach:
        raise lib.MachineryError("model and environment disagree (R4): %s in trace %s" % (mach[0]["clause"], mach[0]["id"]))
    # binding self-test: accepted traces with one corrupted observation must be rejected
    pool = [t for t in traces if t["events"] and t["id"] not in rejected]
    selftest = [mutate(t, rng) for t in rng.sample(pool, min(len(pool), 60 if quick else 400))]
    sval = lib.validate_traces("BaseParsersTrace", "BaseParsersTrace.cfg", [slim(t) for t in selftest], jobs=1)
    caught = set(r["id"] for r in sval["rejected"])
    missed = [t["id"] for t in selftest if t["id"] not in caught]
    if missed or not selftest:
        raise lib.MachineryError("binding self-test: %d corrupted traces were accepted, e.g. %s" % (len(missed), missed[:3]))

    bycase = dict((c["id"], c) for c in cases)
    verdict = lib.Verdict(prop, tier)
    for t in traces:
        rj = rejected.get(t["id"])
        if not rj:
            continue
        ev = t["events"][rj["line"] - 1]
        what = "%s: %s on input %s; observed %s" % (
            rj["clause"], ev["ev"], json.dumps(ev.get("text"))[:300],
            json.dumps(dict((k, ev[k]) for k in ("outcome", "seen", "res", "exc", "value", "via", "fmt", "fmt_used", "T") if k in ev))[:300])
        verdict.reject(lib.sig(prop, rj["clause"]), what,
                       dict(case=bycase.get(t["id"].rsplit("/", 1)[0]), trace=t, rejected=rj, seed=lib.seed()))

    seen = set()
    nontriv = 0
    for t in traces:
        for e in t["events"][:1]:
            inp = e.get("inp") or dict((k, e[k]) for k in ("lines", "extra", "q", "doc", "fmt", "noise") if k in e)
            kk = key_of(t["fam"], inp)
            if kk not in seen:
                seen.add(kk)
                if nontrivial(t["fam"] if t["fam"] not in ("year", "mixed") else "after", inp):
                    nontriv += 1
    samples = []
    for fam in sorted(BOUNDS):
        for t in traces:
            if t["fam"] == fam and t["events"]:
                samples.append(dict(trace_id=t["id"], event=t["events"][0]))
                break
    ev = lib.evidence(
        prop, tier, models, val, evaluations=len(traces), distinct_nontrivial=nontriv,
        rule="abstract inputs = every command output / document / (log, query) / (log, sought time) TLC enumerated "
             "within the bounds (families cmd, doc, search, after, year) plus seeded random larger ones; each is "
             "rendered to text in several seed-chosen ways, fed to generated subclasses of CommandParser, JSONParser, "
             "YAMLParser, TextFileOutput/LogFileOutput, and the abstracted observation is validated by TLC against "
             "the reference operators; distinct_nontrivial = distinct abstract inputs (rendered) with at least one "
             "line / a non-empty document",
        samples=samples, assumptions=ASSUMPTIONS,
        extra=dict(bounds=dict((f, (b[0] if quick else b[1])) for f, b in BOUNDS.items()),
                   abstract_inputs_emitted=emitted, abstract_inputs_replayed=len(cases),
                   random_inputs=sum((n // njobs) * njobs for n in NRAND[tier].values()),
                   driver_outcomes=stats, selftest_corrupted_traces_rejected=len(selftest),
                   invariants_checked_on_model=INVARIANTS, exhaustive=False))
    return verdict.finish(ev)
