"""X01 (extra check, not one of the listed properties): the host collection run as a whole -
insights.collect.collect() with apply_default_enabled / apply_configs / apply_blacklist / get_to_persist /
Hydration.make_persister / dr.run_all (serial and pooled) and the load of the produced archive.
Model: specs/CollectRun.tla (+ CollectRunMC emission), trace validation: specs/CollectRunTrace.tla,
driver: harness/drive_collectrun.py."""
import concurrent.futures
import copy
import json
import os
import random
import re
import time

import lib
from drive_collectrun import split_events

INVARIANTS = ["DefaultApplied", "EnabledIsLastMatch", "PersistSetIsLastMatch", "BlacklistExact", "DisabledNeverRuns",
              "DeniedNeverCollected", "PersistExact", "ParallelEqualsSerial", "LoadBackExact", "ErrorsReported",
              "Terminates"]
REQUIRED_ACTIONS = ["ALoad", "ADefault", "AConfigs", "ABlacklist", "AContext", "AToPersist", "AAttempt", "APersist",
                    "ARunCanon", "AEndRun", "AFinish", "ALoadBack"]

ASSUMPTIONS = [
    "component universe: a generated package x01 (SpecSet with 4 registry points, implementations built with "
    "simple_file / simple_command / glob_file / a custom @datasource, one parser with a registered serializer, one "
    "combiner without) plus the real insights.specs.default.DefaultSpecs.os_release / insights.specs.Specs.os_release "
    "pair (needed for symbolic deny entries); every other loaded component is disabled in every manifest",
    "the HostContext root of every manifest is a scratch directory; the driver refuses manifests whose enabling "
    "config entries match a component outside the universe and refuses any command that is not the universe's",
    "names and prefixes are token sequences in the model; that token-prefix = str.startswith on the concatenations, "
    "the symbolic-name table, the sub-graph partition and the stored path of the command are compared with the "
    "real package in every driver process (R4, exit 2 on disagreement)",
    "datasource timeouts (SIGALRM) are outside the model: for the parallel strategy the driver makes "
    "signal.signal/alarm no-ops outside the main thread, except in the cases run 'raw', which reproduce the finding "
    "that every datasource fails in a pool thread",
    "where failures are filed in the broker is taken as fixed by C03 (under the component; content errors under the "
    "registry points); exception kinds are compared, not texts",
    "deny list reading of DESIGN section 5 C06 (file entries by equality, command entries equal or followed by a "
    "blank); deny entries written to the manifest, to rm_conf, or split over both with disjoint keys",
    "bounds: exhaustive inside the listed TLC configurations; the real collect() is run on a VERIF_SEED-determined "
    "sample of the emitted manifests (all of them for the small configurations)",
]


def subst_cfg(name, out, **kv):
    with open(os.path.join(lib.SPECS, name)) as f:
        txt = f.read()
    for k, v in kv.items():
        if k == "drop":
            for d in v:
                txt = "\n".join(l for l in txt.splitlines() if l.strip() != d) + "\n"
            continue
        txt, n = re.subn(r"(?m)^(\s*%s\s*=).*$" % re.escape(k), lambda m: m.group(1) + " " + v, txt)
        if n != 1:
            raise lib.MachineryError("cfg %s: constant %s not found" % (name, k))
    path = os.path.join(lib.subdir("gencfg-x01"), out)
    with open(path, "w") as f:
        f.write(txt)
    return path


def model_jobs(tier):
    """the cfg files in specs/ carry the quick bounds; the thorough tier widens them"""
    q = tier == "quick"
    noemit = ["CONSTRAINT Emit"]
    wide = lambda **kv: {} if q else kv
    return [
        ("enable", "CollectRunMC", subst_cfg("CollectRunMC_enable.cfg", "enable.cfg", **wide(
            PersistPreset='"wide"', PreSet='{"none", "ig_off", "pr_on", "pa_on", "pa_off", "ig_on", "pr_off"}'))),
        ("persist", "CollectRunMC", subst_cfg("CollectRunMC_persist.cfg", "persist.cfg", **wide(
            PersistFlags='{"on", "off", "str", "omit"}', StrategySet='{"serial", "parallel"}', GammaSet='{"val", "crash"}'))),
        ("deny", "CollectRunMC", subst_cfg("CollectRunMC_deny.cfg", "deny.cfg", **wide(PersistPreset='"wide"'))),
        ("mix", "CollectRunMC", subst_cfg("CollectRunMC_mix.cfg", "mix.cfg", **wide(
            CfgNames='{"x01", "specs", "impl", "plugins", "alpha"}', CfgFlags='{"on", "off", "omit"}',
            PersistNames='{"x01", "specs", "impl", "plugins"}', FileDeny='{"f_alpha", "f_b1"}', CmdDeny='{"c_pre"}',
            AlphaSet='{"present", "absent"}'))),
        ("sched", "CollectRunMC", subst_cfg("CollectRunMC_sched.cfg", "sched.cfg", **wide(
            AlphaSet='{"present", "absent"}', GammaSet='{"val", "oserr", "crash", "content"}',
            FileDeny='{"f_alpha", "f_b1"}', CmdDeny='{"c_pre"}'))),
        ("pool1", "CollectRunMC", "CollectRunMC_pool1.cfg"),
        # action coverage (-coverage 1 is slow) is measured on two tiny configurations: pool1 and this one
        ("cov", "CollectRun", subst_cfg("CollectRunMC_sched.cfg", "cov.cfg", PersistPreset='"all"', FileDeny="{}", CompDeny="{}",
                                        MaxDeny="0", GammaSet='{"val"}', AlphaSet='{"present"}', drop=noemit)),
        # the invariants can fail: transcriptions of the code as it is / of plausible slips violate them
        ("neg-configs", "CollectRun", subst_cfg("CollectRunMC_enable.cfg", "negc.cfg", CfgMode='"code"', MaxCfg="1",
                                                PreSet='{"none"}', drop=noemit)),
        ("neg-persist", "CollectRun", subst_cfg("CollectRunMC_persist.cfg", "negp.cfg", PersistMode='"ignoreoff"',
                                                AlphaSet='{"present"}', drop=noemit)),
        ("neg-persister", "CollectRun", subst_cfg("CollectRunMC_mix.cfg", "negx.cfg", PersisterMode='"everything"',
                                                  drop=noemit)),
    ]


EXPECT_NEG = {"neg-configs": "EnabledIsLastMatch", "neg-persist": "PersistSetIsLastMatch", "neg-persister": "PersistExact"}
COVERED = ("pool1", "cov")


def run_models(tier):
    models, emitted, neg = [], {}, {}

    def one(job):
        name, mod, cfg = job
        r = lib.run_tlc(mod, cfg, workers=4, tag="x01-" + name, timeout=1500, raw_cases=True,
                        coverage=(name in COVERED))
        return name, r

    with concurrent.futures.ThreadPoolExecutor(max_workers=4) as ex:
        for name, r in ex.map(one, model_jobs(tier)):
            if name in EXPECT_NEG:
                if r.violation != EXPECT_NEG[name]:
                    raise lib.MachineryError("model %s: expected TLC to find a violation of %s, got violation=%s error=%s"
                                             % (name, EXPECT_NEG[name], r.violation, r.error))
                neg[name] = dict(invariant=r.violation, states=r.generated)
                continue
            lib.require_ok(r, "CollectRun model " + name)
            emitted[name] = r.cases
            r.cases = []
            models.append(r)
    return models, emitted, neg


# how many of the emitted manifests of each configuration are run for real
BUDGET = {"quick": dict(enable=300, persist=220, deny=260, mix=220, sched=24, pool1=3, raw=6),
          "thorough": dict(enable=3500, persist=2800, deny=4320, mix=3500, sched=400, pool1=3, raw=40)}


def pick_cases(emitted, tier, rng):
    universe, cases = None, []
    for name in sorted(emitted):
        lines = emitted[name]
        uni = [l for l in lines if '\\"universe\\"' in l]
        rest = [l for l in lines if '\\"universe\\"' not in l]
        if uni and universe is None:
            universe = lib.parse_case(uni[0])
        n = min(BUDGET[tier].get(name, 0), len(rest))
        for i, l in enumerate(rng.sample(rest, n)):
            c = lib.parse_case(l)
            c.pop("t", None)
            c["id"] = "%s/%d" % (name, i)
            c["raw"] = False
            c["hang"] = name == "pool1"
            cases.append(c)
    if universe is None:
        raise lib.MachineryError("TLC printed no universe record")
    par = [c for c in cases if c["mf"]["strategy"] == "parallel" and not c["hang"]]
    for i, c in enumerate(rng.sample(par, min(BUDGET[tier]["raw"], len(par)))):
        r = copy.deepcopy(c)
        r["id"], r["raw"] = "raw/%d" % i, True
        cases.append(r)
    return universe, cases


def run_alone(universe, case, timeout=240):
    """A case whose outcome may be 'collect() never returns' runs in a child of its own: the driver's watchdog
    turns quiescence into a recorded 'hung' event and ends the process (R7: there the hang IS the observation);
    the outer timeout only guards the machinery."""
    return lib.run_driver("drive_collectrun.py",
                          dict(base=os.path.join(lib.subdir("x01fs"), "alone-" + case["id"].replace("/", "-")),
                               seed=lib.seed(), universe=universe, cases=[case]), timeout=timeout)


def run_drivers(universe, cases, tier, jobs):
    normal = [c for c in cases if not c["hang"]]
    hang = [c for c in cases if c["hang"]]
    per = 40 if tier == "quick" else 150
    payloads = []
    for i in range(0, len(normal), per):
        payloads.append(dict(base=os.path.join(lib.subdir("x01fs"), "p%d" % (i // per)), seed=lib.seed() * 100003 + i,
                             universe=universe, cases=normal[i:i + per]))
    outs = []
    with concurrent.futures.ThreadPoolExecutor(max_workers=max(1, len(hang))) as ex:
        futs = [ex.submit(run_alone, universe, c) for c in hang]
        outs.extend(lib.run_driver_parallel("drive_collectrun.py", payloads, hashseeds=[0, 1, 2, 3, 5, 7, 11], timeout=1500,
                                            jobs=jobs))
        outs.extend(f.result() for f in futs)
    return outs


def describe(t, ev):
    mf = t["case"]["mf"]
    s = "manifest: default_component_enabled=%s configs=%s persist=%s blacklist=%s (%s) run_strategy=%s/%s compress=%s; " \
        "environment %s; dr.ENABLED before the call: %s" % (
            mf["default"], [(e["name"], e["en"]) for e in mf["configs"]], [(e["name"], e["en"]) for e in mf["persist"]],
            dict((k, v) for k, v in mf["deny"].items() if v), mf["via"], mf["strategy"], mf["workers"], mf["compress"],
            t["case"]["env"], t["case"]["pre"])
    return "%s -> observed %s" % (s, json.dumps(ev, sort_keys=True)[:700])


def run(prop, tier):
    rng = random.Random(lib.seed())
    t0 = time.time()
    jobs = min(lib.NCPU, 8)
    models, emitted, neg = run_models(tier)
    cov = {}
    for m in models:
        for k, v in m.coverage.items():
            cov[k] = cov.get(k, 0) + v
    for a in REQUIRED_ACTIONS:
        if not cov.get(a):
            raise lib.MachineryError("vacuity: action %s of CollectRun.tla was never taken (coverage %s)" % (a, cov))
    universe, cases = pick_cases(emitted, tier, rng)
    nemitted = sum(len(v) for v in emitted.values()) - len(emitted)
    print("timing: models %.1fs; %d manifests emitted by TLC, %d selected for execution" % (time.time() - t0, nemitted, len(cases)))

    t1 = time.time()
    outs = run_drivers(universe, cases, tier, jobs)
    traces, stats = [], {}
    for o in outs:
        if o["r4"]:
            raise lib.MachineryError("R4: the model's universe and the real package disagree: %s" % o["r4"][:5])
        traces.extend(o["traces"])
        for k, v in o["stats"].items():
            stats[k] = stats.get(k, 0) + v
    nev = sum(len(t["events"]) for t in traces)
    print("timing: drivers %.1fs, %d executions of collect(), %d traces, %d events; %s"
          % (time.time() - t1, stats.get("cases", 0), len(traces), nev, stats))
    vacuous = []
    for what, ok in (("collect() wrote metadata documents", stats.get("docs", 0) > 0),
                     ("collect() wrote data files", stats.get("datafiles", 0) > 0),
                     ("archives were loaded back with content", stats.get("loaded", 0) > 0),
                     ("commands were really executed", stats.get("execs", 0) > 0),
                     ("files below the root were really opened", stats.get("opens", 0) > 0),
                     ("compressed archives were produced", stats.get("tar", 0) > 0),
                     ("the pooled run_all was used", stats.get("pooled", 0) > 0),
                     ("every selected manifest was executed", stats.get("cases", 0) == len(cases))):
        if not ok:
            vacuous.append(what)

    t1 = time.time()
    mutants = selftest_traces(universe)
    val = lib.validate_traces("CollectRunTrace", "CollectRunTrace.cfg", traces + mutants, jobs=jobs)
    print("timing: validation %.1fs (%d events, %d JVMs)" % (time.time() - t1, val["events"], val["jvms"]))
    byid = dict((t["id"], t) for t in traces + mutants)
    verdict = lib.Verdict(prop, tier)
    verdict.t0 = t0
    mut_rejected = set()
    for rj in val["rejected"]:
        t = byid[rj["id"]]
        ev = t["events"][rj["line"] - 1]
        clause = rj["clause"]
        if rj["id"].startswith("selftest/"):
            mut_rejected.add((rj["id"], clause.split(":")[0]))
            continue
        case = dict(t["case"], id=rj["id"].rsplit("/", 1)[0], raw=t["raw"])
        verdict.reject(lib.sig(prop, clause), describe(t, ev), dict(trace_id=rj["id"], case=case, event=ev, rejected=rj,
                                                                    universe_names=universe["names"]))
    need = set((m["id"], m["expect"]) for m in mutants if m["expect"] != "accepted")
    if need != mut_rejected:
        raise lib.MachineryError("binding self-test: expected rejections %s, got %s" % (sorted(need - mut_rejected),
                                                                                         sorted(mut_rejected - need)))

    if vacuous and not verdict.violations:      # with violations at hand the verdict stands; otherwise the run proves nothing
        raise lib.MachineryError("vacuity: never observed that %s (%s)" % ("; ".join(vacuous), stats))

    distinct = set()
    for t in traces:
        if t["seg"] == "run":
            mf = t["case"]["mf"]
            if mf["configs"] or mf["persist"] or any(mf["deny"].values()):
                distinct.add(json.dumps(t["case"], sort_keys=True))
    samples = []
    for want in ("deny/", "persist/", "mix/", "enable/"):
        for t in traces:
            if t["id"].startswith(want) and t["seg"] == "run":
                fin = [e for e in t["events"] if e["ev"] == "finish"]
                if fin and fin[0]["docs"]:
                    samples.append(dict(trace=t["id"], case=t["case"], finish=fin[0]))
                    break
    if not samples:
        samples = [dict(trace=traces[0]["id"], case=traces[0]["case"])]
    ev = lib.evidence(
        prop, tier, models, val, evaluations=nev, distinct_nontrivial=len(distinct),
        rule="cases = manifests (default_component_enabled, <=2 config entries, <=2 persist entries over 9 name "
             "prefixes, deny lists with at most one entry per kind, run strategy, compress) x environment x prior "
             "dr.ENABLED state, enumerated by TLC with every invariant checked on every one of them; a VERIF_SEED "
             "sample of them is executed by the real insights.collect.collect() and loaded back; evaluations = recorded "
             "phase events validated by TLC; distinct_nontrivial = distinct executed cases whose manifest has a config, "
             "persist or deny entry",
        samples=samples, assumptions=ASSUMPTIONS,
        extra=dict(manifests_emitted=nemitted, manifests_executed=stats.get("cases", 0), driver_stats=stats,
                   invariants_checked_on_model=INVARIANTS, action_coverage=cov, negative_model_runs=neg,
                   selftest_corrupted_traces_rejected=len(need), exhaustive=False))
    return verdict.finish(ev)


# ---------------------------------------------------------------------------
# binding self-test (R5): a hand-written execution of one manifest, independent of the code under test
# ---------------------------------------------------------------------------
def selftest_traces(U):
    comps = sorted(U["names"])
    x01 = sorted(U["matches"]["x01"])
    mf = dict(default=False, configs=[dict(name="x01", en="on")], persist=[dict(name="specs", en="on")],
              deny=dict(files=[], commands=[], components=[]), via="manifest", strategy="serial", workers="default",
              compress=False)
    case = dict(id="selftest/base", mf=mf, env=dict(alpha="present", gamma="val"), pre="none", raw=False)
    off = dict((c, False) for c in comps)
    on = dict((c, c in x01) for c in comps)
    pset = sorted(U["matches"]["specs"])
    it = U["items"]
    events = [dict(ev="default", enabled=off), dict(ev="configs", enabled=dict(on)),
              dict(ev="blacklist", enabled=dict(on), files=[], commands=[], specs=[]),
              dict(ev="context", cls="HostContext", root_ok=True), dict(ev="topersist", set=pset, foreign=0)]
    for c in U["canon"]:
        events.append(dict(ev="att", c=c, has=c in x01, errs=[], pers=c in pset))
    events.append(dict(ev="ran", bodies=["CB", "IG", "PR"], opened=["alpha", "b1", "b2"], execd=["echo"], specs=[],
                       dehy=pset, foreign_dehy=0))
    val = dict((p, U["implitems"]["I" + p[1:]]) for p in pset)
    events.append(dict(ev="finish", form="dir", where_ok=True, workdir_gone=True, marker=True, extras=[], errors=[],
                       docs=[dict(c=p, n=len(val[p]), err=False) for p in pset],
                       data=[dict(path=it[i]["path"], lines=list(it[i]["lines"])) for p in pset for i in val[p]]))
    events.append(dict(ev="load", how="hand", foreign=0,
                       loaded=[dict(c=p, elems=[list(it[i]["lines"]) for i in val[p]]) for p in pset]))
    base = split_events(case, events, comps)
    out = []
    for t in base:
        t["expect"] = "accepted"
        t["id"] = "selftest/base/" + t["seg"]
        out.append(t)
    seg = dict((t["seg"], t) for t in base)

    def variant(tag, expect, which, fn):
        m = copy.deepcopy(seg[which])
        fn(m["events"])
        m["id"], m["expect"] = "selftest/" + tag, expect
        out.append(m)

    nrun = dict((e.get("c", e["ev"]), i) for i, e in enumerate(seg["run"]["events"]))
    variant("default-kept", "DefaultApplied", "cfg", lambda e: e[0]["enabled"].update(IG=True))
    variant("config-missed", "EnabledIsLastMatch", "cfg", lambda e: e[1]["enabled"].update(PAX=False))
    variant("config-extra", "EnabledIsLastMatch", "cfg", lambda e: e[1]["enabled"].update(IO=True))
    variant("cfg-dropped", "Phases", "cfg", lambda e: e.pop(1))
    variant("bl-flip", "Blacklist", "bl", lambda e: e[0]["enabled"].update(IG=False))
    variant("bl-file", "Blacklist", "bl", lambda e: e[0]["files"].append("f_alpha"))
    variant("ctx", "Context", "bl", lambda e: e[1].update(root_ok=False))
    variant("persist-extra", "PersistSetIsLastMatch", "bl", lambda e: e[2]["set"].append("IA"))
    variant("persist-missing", "PersistSetIsLastMatch", "bl", lambda e: e[2]["set"].remove("PB"))
    variant("disabled-ran", "DisabledNeverRuns", "run", lambda e: e[nrun["IO"]].update(has=True))
    variant("no-value", "RunExact", "run", lambda e: e[nrun["IB"]].update(has=False))
    variant("order", "RunOrder", "run", lambda e: e.insert(0, e.pop(nrun["PA"])))
    variant("twice", "RunOnce", "run", lambda e: e.insert(1, dict(e[0])))
    variant("idle-component-not-attempted", "accepted", "run", lambda e: e.pop(nrun["PO"]))      # no observable effect

    def lose(e):
        e[nrun["finish"]]["docs"] = [d for d in e[nrun["finish"]]["docs"] if d["c"] != "PB"]
        e[nrun["finish"]]["data"] = [d for d in e[nrun["finish"]]["data"] if "/b/" not in d["path"]]
        e[nrun["load"]]["loaded"] = [d for d in e[nrun["load"]]["loaded"] if d["c"] != "PB"]
        e.pop(nrun["PB"])
        e.pop(nrun["IB"])
    variant("lost", "PersistExact", "run", lose)
    variant("body-lost", "RunExact", "run", lambda e: e[nrun["ran"]]["bodies"].remove("IG"))
    variant("dehydrated", "PersistExact", "run", lambda e: e[nrun["IA"]].update(pers=True))
    variant("error", "ErrorsRecorded", "run", lambda e: e[nrun["IG"]].update(errs=["crash"]))
    variant("race", "ParallelEqualsSerial", "run", lambda e: e[nrun["PA"]].update(has=False, errs=["race"]))
    variant("signal", "ParallelEqualsSerial", "run", lambda e: e[nrun["IA"]].update(has=False, errs=["signal"]))
    variant("body", "DisabledNeverRuns", "run", lambda e: e[nrun["ran"]]["bodies"].append("IO"))
    variant("opened", "DisabledNeverRuns", "run", lambda e: e[nrun["ran"]]["opened"].append("osrel"))
    variant("doc-extra", "PersistExact", "run", lambda e: e[nrun["finish"]]["docs"].append(dict(c="IA", n=1, err=False)))
    variant("doc-missing", "PersistExact", "run", lambda e: e[nrun["finish"]]["docs"].pop(0))
    variant("doc-n", "PersistExact", "run", lambda e: [d.update(n=1) for d in e[nrun["finish"]]["docs"] if d["c"] == "PB"])
    variant("data-extra", "PersistExact", "run", lambda e: e[nrun["finish"]]["data"].append(dict(path="etc/os-release", lines=["NAME=x01"])))
    variant("data-lines", "PersistExact", "run", lambda e: e[nrun["finish"]]["data"][0]["lines"].append("zz"))
    variant("stray", "PersistExact", "run", lambda e: e[nrun["finish"]]["extras"].append("stray.txt"))
    variant("tar", "Finish", "run", lambda e: e[nrun["finish"]].update(form="tar"))
    variant("phantom-error", "ErrorsReported", "run", lambda e: e[nrun["finish"]]["errors"].append(["OSError", "IG"]))
    variant("load-missing", "LoadBackExact", "run", lambda e: e[nrun["load"]]["loaded"].pop(0))
    variant("load-content", "LoadBackExact", "run", lambda e: e[nrun["load"]]["loaded"][0]["elems"][0].append("zz"))
    variant("load-extra", "LoadBackExact", "run", lambda e: e[nrun["load"]]["loaded"].append(dict(c="IA", elems=[["a1"]])))
    variant("truncated", "Phases", "run", lambda e: e.pop(nrun["load"]))
    # a deny entry as written in the manifest: the run part must respect it even if the observed lists are empty
    dmf = copy.deepcopy(seg["run"])
    dmf["case"]["mf"]["deny"]["files"] = ["f_b1"]
    dmf["id"], dmf["expect"] = "selftest/denied-data", "DeniedNeverCollected"
    out.append(dmf)
    return out


def replay(prop, path):
    """Re-execute a recorded violation against the current tree and re-validate it."""
    with open(path) as f:
        rec = json.load(f)
    case = rec["replay"]["case"]
    models = lib.run_tlc("CollectRunMC", "CollectRunMC_pool1.cfg", workers=2, raw_cases=True)
    lib.require_ok(models, "CollectRun model pool1")
    universe = [lib.parse_case(l) for l in models.cases if '\\"universe\\"' in l][0]
    case = dict(case, id="replay", hang=False)
    out = run_alone(universe, dict(case, hang=True))
    if out["r4"]:
        raise lib.MachineryError("R4: %s" % out["r4"][:5])
    val = lib.validate_traces("CollectRunTrace", "CollectRunTrace.cfg", out["traces"], jobs=1)
    print("replay of %s (%s)" % (path, rec["signature"]))
    byid = dict((t["id"], t) for t in out["traces"])
    for rj in val["rejected"]:
        print("  rejected: clause %s; event %s" % (rj["clause"], json.dumps(byid[rj["id"]]["events"][rj["line"] - 1])[:500]))
    same = any(lib.sig(prop, rj["clause"]) == rec["signature"] for rj in val["rejected"])
    print("  %s" % ("REPRODUCED" if same else "not reproduced on the current tree"))
    return 1 if same else 0
