#!/usr/bin/env python3
"""Confirm a seeded property-breaking change and run our check against it.

usage: seedtest.py <dir with patch.diff demo.py meta.json> <property> [--no-suite] [--tier quick]

Steps (all in a scratch git worktree of /repo under /tmp, removed afterwards):
 1 demo on the clean tree exits 0            2 patch applies, demo exits != 0
 3 the repository's pinned suite still passes (stable tests of BASELINE.json)
 4 ./check <property> with VERIF_REPO=<worktree>: exit 1 = detected
The change is then stored under /verif/seeded/<name>/ with what was run.
"""
import json
import os
import shutil
import subprocess
import sys
import time

VERIF = os.path.dirname(os.path.dirname(os.path.abspath(__file__)))


def sh(cmd, cwd=None, env=None, timeout=3600):
    p = subprocess.run(cmd, shell=True, cwd=cwd, env=env, stdin=subprocess.DEVNULL, stdout=subprocess.PIPE,
                       stderr=subprocess.STDOUT, universal_newlines=True, timeout=timeout)
    return p.returncode, p.stdout


def main():
    src, prop = sys.argv[1], sys.argv[2]
    suite = "--no-suite" not in sys.argv
    tier = "thorough" if "--thorough" in sys.argv else "quick"
    name = os.path.basename(os.path.normpath(src))
    wt = "/var/tmp/wt-seedtest-%s-%d" % (name, os.getpid())
    sh("git -C /repo worktree add -q --detach %s HEAD" % wt)
    res = dict(name=name, property=prop, ran=time.strftime("%Y-%m-%d %H:%M:%S"))
    env = dict(os.environ, PYTHONPATH=wt, PYTHONDONTWRITEBYTECODE="1")
    try:
        shutil.copy(os.path.join(src, "demo.py"), os.path.join(wt, "demo.py"))
        rc, out = sh("/venv/bin/python demo.py", cwd=wt, env=env, timeout=600)
        res["demo_clean_rc"] = rc
        patch = os.path.join(os.path.abspath(src), "patch.diff")
        rc, out = sh("git apply %s" % patch, cwd=wt)
        back = 0
        while rc != 0 and back < 20:
            # the tree moved on since the change was seeded (later fix: commits touch the same lines):
            # run against the newest ancestor commit the patch applies to
            back += 1
            sh("git checkout -q -f --detach HEAD~1", cwd=wt)
            shutil.copy(os.path.join(src, "demo.py"), os.path.join(wt, "demo.py"))
            rc, out = sh("git apply %s" % patch, cwd=wt)
        if back:
            res["base_commit_used"] = sh("git rev-parse --short HEAD", cwd=wt)[1].strip()
            res["commits_behind_head"] = back
        res["apply_rc"] = rc
        if rc != 0:
            res["apply_out"] = out[-500:]
        rc, out = sh("/venv/bin/python demo.py", cwd=wt, env=env, timeout=600)
        res["demo_patched_rc"] = rc
        res["demo_patched_out"] = out[-600:]
        if suite:
            # concurrent suite runs collide on the suite's fixed /tmp fixture names: each run gets a /tmp of its
            # own (private mount namespace; the worktree lives under /var/tmp)
            rc, out = sh("unshare -m sh -c 'mount -t tmpfs tmpfs /tmp && exec python3 %s/harness/baseline.py'" % VERIF,
                         env=dict(os.environ, VERIF_REPO=wt), timeout=6000)
            res["suite_rc"] = rc
            res["suite_tail"] = out[-300:]
        os.unlink(os.path.join(wt, "demo.py"))
        if res["apply_rc"] != 0:
            raise SystemExit("patch does not apply to the current tree: %s" % res.get("apply_out"))
        t0 = time.time()
        rc, out = sh("./check %s --tier %s" % (prop, tier), cwd=VERIF,
                     env=dict(os.environ, VERIF_REPO=wt, VERIF_EVIDENCE_DIR="/tmp/seedtest-evidence-%d" % os.getpid()),
                     timeout=7200)
        res["check_rc"] = rc
        res["check_wall_s"] = round(time.time() - t0, 1)
        res["check_lines"] = [l for l in out.splitlines() if l.startswith(("VIOLATION", "  signature", "KNOWN-FINDING",
                                                                            "MACHINERY", "note:"))][:12]
        res["detected"] = rc == 1
        res["confirmed"] = res["demo_clean_rc"] == 0 and res["apply_rc"] == 0 and res["demo_patched_rc"] != 0 and \
            (not suite or res.get("suite_rc") == 0)
    finally:
        sh("git -C /repo worktree remove --force %s" % wt)
        shutil.rmtree("/tmp/seedtest-evidence-%d" % os.getpid(), True)
    dst = os.path.join(VERIF, "seeded", name)
    os.makedirs(dst, exist_ok=True)
    for f in ("patch.diff", "demo.py"):
        if os.path.abspath(os.path.join(src, f)) != os.path.abspath(os.path.join(dst, f)):
            shutil.copy(os.path.join(src, f), os.path.join(dst, f))
    meta = {}
    try:
        meta = json.load(open(os.path.join(src, "meta.json")))
    except Exception:
        pass
    hist = []
    old = os.path.join(dst, "meta.json")
    if os.path.exists(old):
        try:
            hist = json.load(open(old)).get("verification_history", [])
        except Exception:
            pass
    meta.pop("verification_history", None)
    meta["property"] = prop
    meta["verification"] = res
    meta["verification_history"] = hist + [dict(ran=res["ran"], detected=res.get("detected"), check_rc=res.get("check_rc"),
                                                 tier=tier, lines=res.get("check_lines", [])[:4])]
    json.dump(meta, open(os.path.join(dst, "meta.json"), "w"), indent=1)
    print(json.dumps(dict(name=name, confirmed=res.get("confirmed"), detected=res.get("detected"),
                          check_rc=res.get("check_rc"), lines=res.get("check_lines", [])[:6],
                          demo=(res.get("demo_clean_rc"), res.get("demo_patched_rc")), suite=res.get("suite_rc")), indent=1))


if __name__ == "__main__":
    main()
