"""Driver for ClientConfig (C16): run the real InsightsConfig.load_all() under controlled
sys.argv, os.environ (only the INSIGHTS_* keys of the case) and a generated configuration
file handed over with --conf, and record what was observed: the option values when loading
finished (on entry of _imply_options), after implication (on entry of _validate_options),
and the returned configuration or the ValueError.  Contains no oracle: the records are
judged by specs/ClientConfigTrace.tla.

usage: drive_clientconfig.py <in.json> <out.json>
in : {"task":"table"}                                  -> {"options":[{name,type,def,cli,flag}]}
     {"task":"run","cases":[..],"seed":n}               -> {"traces":[..],"stats":{..}}
A case is {"id","mode","fstate","file":[{name,text}],"env":[{name,text}],"cli":[{name,has,arg}],
"eff":[{name,cls}]}; for the table modes ("table","ext","rtable") `eff` is concretised here
(which source carries each value, which spelling; seeded), otherwise the layers are used verbatim.
--conf=<generated file> is put on the command line by the driver (and reported in the trace's cli layer);
in mode "conf" the case itself says whether it is there (a cli row conf with the placeholder argument).
"""
import json
import os
import random
import shutil
import sys
import tempfile

from insights.client import config as cfgmod
from insights.client.config import DEFAULT_OPTS, InsightsConfig


class HarnessError(Exception):
    pass


MISSING = object()


def tag(v):
    """Python value -> tagged record (one shape)."""
    if v is MISSING:
        return {"t": "missing", "b": False, "n": 0, "s": ""}
    if v is None:
        return {"t": "none", "b": False, "n": 0, "s": ""}
    if isinstance(v, bool):
        return {"t": "bool", "b": v, "n": 0, "s": ""}
    if isinstance(v, int):
        return {"t": "int", "b": False, "n": v, "s": ""} if 0 <= v < 2 ** 31 else \
               {"t": "other", "b": bool(v), "n": 0, "s": repr(v)}
    if isinstance(v, float):
        return {"t": "float", "b": False, "n": 0, "s": repr(v)}
    if isinstance(v, str):
        return {"t": "str", "b": False, "n": 0, "s": v}
    try:
        s = json.dumps(v, sort_keys=True)
    except (TypeError, ValueError):
        s = repr(v)
    return {"t": "other", "b": bool(v), "n": 0, "s": s[:200]}


def option_table():
    out = []
    for name in sorted(DEFAULT_OPTS):
        o = DEFAULT_OPTS[name]
        d = o["default"]
        typ = "bool" if isinstance(d, bool) else "int" if isinstance(d, int) else \
              "float" if isinstance(d, float) else "str"
        cli, flag = "none", ""
        if "opt" in o:
            longs = [x for x in o["opt"] if x.startswith("--")]
            if not longs:
                raise HarnessError("option %s has no long switch" % name)
            flag = longs[0]
            dest = o.get("dest") or flag[2:].replace("-", "_")
            if dest != name:
                raise HarnessError("R4: switch %s of option %s stores into %s" % (flag, name, dest))
            act = o.get("action", "store")
            if act == "store_true":
                cli = "flag_true"
            elif act == "store_false":
                cli = "flag_false"
            elif o.get("nargs") == "?":
                if o.get("const") is not True:
                    raise HarnessError("R4: optional-argument switch %s has const %r" % (flag, o.get("const")))
                cli = "optarg"
            elif act == "store" and o.get("type") is int:
                cli = "store_int"
            elif act == "store" and o.get("type") is None:
                cli = "store"
            else:
                raise HarnessError("R4: switch %s has an unmodelled argparse shape %r" % (flag, o))
        out.append({"name": name, "type": typ, "def": tag(d), "cli": cli, "flag": flag})
    return out


# ---- observation hooks (installed once): snapshots at the two linearisation points -------
REC = None
TABLE = dict((o["name"], o) for o in option_table())


def snapshot(c):
    out = []
    for name in sorted(TABLE):
        v = tag(getattr(c, name, MISSING))
        if v != TABLE[name]["def"]:
            out.append({"name": name, "v": v})
    return out


_imply, _validate = InsightsConfig._imply_options, InsightsConfig._validate_options


def imply(self):
    if REC is not None:
        REC.append({"ev": "loaded", "cfg": snapshot(self)})
    return _imply(self)


def validate(self):
    if REC is not None:
        REC.append({"ev": "implied", "cfg": snapshot(self)})
    return _validate(self)


InsightsConfig._imply_options = imply
InsightsConfig._validate_options = validate

CONF_SHORT = next((x for x in DEFAULT_OPTS["conf"].get("opt", []) if not x.startswith("--")), None)
ENV_T, ENV_F = ["true", "True", "TRUE"], ["false", "False", "FALSE"]
FILE_T, FILE_F = ["1", "yes", "true", "on", "True", "YES"], ["0", "no", "false", "off", "False", "NO"]


def concretise_eff(case, rng, outdir):
    """Table modes: decide which source carries each effective value and how it is spelled;
    sometimes put a contrary value into a lower source as well."""
    file_, env, cli = [], [], []
    for e in sorted(case["eff"], key=lambda x: x["name"]):
        name, cls = e["name"], e["cls"]
        o = TABLE[name]
        if cls == "T":
            srcs = ["env", "file"] + (["cli"] if o["cli"] in ("flag_true", "optarg") else [])
        elif cls == "F":
            srcs = ["env", "file"] + (["cli"] if o["cli"] == "flag_false" else [])
        else:
            srcs = ["env", "file"] + (["cli"] if o["cli"] in ("store", "optarg") else [])
        win = rng.choice(srcs)
        contrary = rng.random() < 0.35

        def text(layer, want):
            if cls in ("T", "F"):
                truth = (cls == "T") == want
                if layer == "env":
                    return rng.choice(ENV_T if truth else ENV_F)
                if o["type"] == "bool":
                    return rng.choice(FILE_T if truth else FILE_F)
                return "True" if truth else ""        # untyped in the file: any non-empty text is true
            if cls == "P":
                return os.path.join(outdir, name if want else name + "-other")
            if cls == "E":
                return "" if want else os.path.join(outdir, name + "-other")
            return cls[2:] if want else cls[2:] + "-other"

        order = ["file", "env", "cli"]
        for layer in order:
            if layer == win or (contrary and order.index(layer) < order.index(win) and layer in ("file", "env")):
                want = layer == win
                if layer == "cli":
                    if o["cli"] in ("flag_true", "flag_false"):
                        cli.append({"name": name, "has": False, "arg": ""})
                    elif o["cli"] == "optarg" and cls == "T":
                        cli.append({"name": name, "has": False, "arg": ""})
                    else:
                        cli.append({"name": name, "has": True, "arg": text("cli", True)})
                else:
                    (file_ if layer == "file" else env).append({"name": name, "text": text(layer, want)})
    return file_, env, cli


def run_case(case, base, rng, stats):
    global REC
    work = os.path.join(base, "w")
    if os.path.lexists(work):
        shutil.rmtree(work)
    outdir = os.path.join(work, "out")
    os.makedirs(outdir)
    conf = os.path.join(work, "insights-client.conf")
    if case["mode"] in ("table", "ext", "rtable"):
        file_, env, cli = concretise_eff(case, rng, outdir)
    else:
        file_, env, cli = list(case["file"]), list(case["env"]), list(case["cli"])
    fstate = case["fstate"]
    if fstate == "ok":
        with open(conf, "w") as f:
            f.write("[insights-client]\n" + "".join("%s=%s\n" % (r["name"], r["text"]) for r in file_))
    elif fstate == "nosection":
        with open(conf, "w") as f:
            f.write("aFUHAEFJhFhlAFJKhnfjeaf\n" + "".join("%s=%s\n" % (r["name"], r["text"]) for r in file_))
    elif fstate != "missing":
        raise HarnessError("file state %r" % fstate)
    for k in [k for k in os.environ if k.upper().startswith("INSIGHTS_")]:
        del os.environ[k]
    os.environ.pop("HTTP_PROXY", None)
    for r in env:
        os.environ["INSIGHTS_" + r["name"].upper()] = r["text"]
    default_conf_exists = os.path.exists(TABLE["conf"]["def"]["s"])
    if case["mode"] == "conf":
        # the case says itself whether --conf is on the command line (CONF_ARG stands for the generated
        # file's path); without it load_all() reads the built-in default path, which must not exist
        noconf = not any(r["name"] == "conf" for r in cli)
        if noconf and (fstate != "missing" or default_conf_exists):
            noconf = False
        cli = [r for r in cli if r["name"] != "conf"]
    else:
        noconf = fstate == "missing" and rng.random() < 0.5 and not default_conf_exists
    argv = ["insights-client"]
    rows = list(cli)
    if not noconf:
        # --conf first, last or (short form -c) in the middle of the other switches
        rows.insert(rng.randrange(len(rows) + 1) if case["mode"] == "conf" else 0,
                    {"name": "conf", "has": True, "arg": conf})
    for r in rows:
        flag = TABLE[r["name"]]["flag"]
        if r["name"] == "conf" and case["mode"] == "conf" and CONF_SHORT and rng.random() < 0.5:
            argv.extend([CONF_SHORT, conf])
        else:
            argv.append(flag + "=" + r["arg"] if r["has"] else flag)
    cli_obs = list(cli) + ([] if noconf else [{"name": "conf", "has": True, "arg": conf}])
    injected = {}
    for layer, rows in (("file", file_ if fstate == "ok" else []), ("env", env)):
        for r in rows:
            if r["name"] not in TABLE:
                injected.setdefault(r["name"], []).append(r["text"])
    old_argv, old_cwd = sys.argv, os.getcwd()
    sys.argv = argv
    os.chdir(work)
    c = None
    try:
        c = InsightsConfig()
        REC = []                      # observe load_all() only, not the constructor's own imply / validate
        try:
            res = c.load_all()
            if res is not c:
                c = res
            REC.append({"ev": "final", "cfg": snapshot(c)})
        except Exception as ex:       # ValueError is the documented refusal; anything else is recorded as a crash
            stage = "validate" if any(e["ev"] == "implied" for e in REC) else \
                    "imply" if any(e["ev"] == "loaded" for e in REC) else "load"
            REC.append({"ev": "error", "stage": stage, "kind": type(ex).__name__})
        except SystemExit:
            raise HarnessError("argparse refused %r" % (argv,))
    finally:
        events, REC = REC or [], None
        sys.argv = old_argv
        os.chdir(old_cwd)
        for r in env:
            os.environ.pop("INSIGHTS_" + r["name"].upper(), None)
    if not any(e["ev"] == "loaded" for e in events) and events[-1].get("stage") != "load":
        raise HarnessError("vacuity: load_all() never entered _imply_options; the linearisation point moved")
    unknown = []
    for name in sorted(injected):
        v = getattr(c, name, MISSING)
        state = "absent" if v is MISSING else "injected" if v in injected[name] else "other"
        unknown.append({"name": name, "state": state})
    events[-1]["unknown"] = unknown
    stats[events[-1]["ev"]] = stats.get(events[-1]["ev"], 0) + 1
    return {"id": case["id"], "mode": case["mode"],
            "lay": {"fstate": fstate, "file": file_, "env": env, "cli": cli_obs}, "events": events}


def main():
    with open(sys.argv[1]) as f:
        inp = json.load(f)
    if inp["task"] == "table":
        out = {"options": option_table()}
    else:
        import logging
        logging.disable(logging.CRITICAL)
        base = tempfile.mkdtemp(prefix="c16-", dir=os.getcwd())
        stats, traces = {}, []
        try:
            for case in inp["cases"]:
                rng = random.Random("%s/%s" % (inp.get("seed", 0), case["id"]))
                traces.append(run_case(case, base, rng, stats))
        finally:
            shutil.rmtree(base, True)
        out = {"traces": traces, "stats": stats}
    with open(sys.argv[2], "w") as f:
        f.write(json.dumps(out, separators=(",", ":")))


if __name__ == "__main__":
    main()
