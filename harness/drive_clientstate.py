"""Driver for ClientState (C17): replay abstract histories emitted by TLC against the
real helpers of insights/client/utilities.py in a temp directory and record, after every
operation, the projection of the directory.  Contains no oracle: the records are judged
by specs/ClientStateTrace.tla.  The only comparisons made here are R4 self-checks of the
harness' own concretise / project functions (initial state, planted symlinks).

usage: drive_clientstate.py <in.json> <out.json>
in : {"cases":[{"id":..,"init":{dir,reg,unreg,idf,rhsm},"steps":[{op,d,m,k},..]}], "seed": n}
out: {"traces":[{"id","init","events"}], "stats":{..}}
"""
import json
import logging
import os
import random
import re
import shutil
import stat
import sys
import tempfile
import uuid

from insights.client import cert_auth, utilities
from insights.client.constants import InsightsConstants as constants

DIRS = ("main", "legacy")
MARKS = {"reg": ".registered", "unreg": ".unregistered"}
SENT_NS = 978307200 * 10 ** 9          # 2001-01-01: sentinel mtime planted on the identifier file
CANON = re.compile(r"^[0-9a-f]{8}-[0-9a-f]{4}-[0-9a-f]{4}-[0-9a-f]{4}-[0-9a-f]{12}\Z")
HEX32 = re.compile(r"^[0-9a-fA-F]{32}\Z")
UPPER = re.compile(r"^[0-9A-F]{8}-[0-9A-F]{4}-[0-9A-F]{4}-[0-9A-F]{4}-[0-9A-F]{12}\Z")


def v4ify(text):
    """The identifier a canonical-looking UUID text denotes once its version / variant bits say
    'random UUID' (bit surgery on the text; the harness' own abstraction, not the code's)."""
    return text[:14] + "4" + text[15:19] + "89ab"[int(text[19], 16) & 3] + text[20:]


def is_v4(text):
    return text[14] == "4" and text[19] in "89ab"


class HarnessError(Exception):
    pass


class FakeCert(object):
    PATH, CERT = "/stub/pki/consumer", "cert.pem"

    def __init__(self, cid):
        self.cid = cid

    def getConsumerId(self):
        return self.cid


class World(object):
    """One concretised configuration-directory world."""

    def __init__(self, base, case, rng, stats):
        self.case = case
        self.stats = stats
        self.root = os.path.join(base, "w")
        self.dirs = dict((d, os.path.join(self.root, d)) for d in DIRS)
        self.outside = os.path.join(self.root, "outside")
        for d in DIRS:
            if os.path.lexists(self.dirs[d]):
                shutil.rmtree(self.dirs[d])
        if not os.path.isdir(self.outside):
            os.makedirs(self.outside)
        # identifiers: abstract token <-> concrete canonical text
        self.ids = {"u0": str(uuid.UUID(int=rng.getrandbits(128), version=4)),
                    "rhsm": str(uuid.UUID(int=rng.getrandbits(128), version=4))}
        self.tok = dict((v, k) for k, v in self.ids.items())
        self.upper = rng.random() < 0.5
        self.rng = rng
        # a dangling link points either to a missing file in an existing directory or to a path whose
        # directory does not exist either (decided per marker location from the seed)
        self.deep = dict(((d, m), rng.random() < 0.5) for d in DIRS for m in MARKS)
        self.rhsm_kind = case["init"]["rhsm"]
        self.rhsm_raw = self.spell_rhsm(self.rhsm_kind, rng)
        self.idfile = os.path.join(self.dirs["main"], "machine-id")
        self.rhsm_calls = 0
        init = case["init"]
        self.kindlabel = dict(init["dir"])
        for d in DIRS:
            if init["dir"][d] == "absent":
                continue
            os.makedirs(self.dirs[d])
            if init["dir"][d] == "populated":
                with open(os.path.join(self.dirs[d], "insights-client.conf"), "w") as f:
                    f.write("[insights-client]\n")
                with open(os.path.join(self.dirs[d], ".lastupload"), "w") as f:
                    f.write("2001-01-01T00:00:00\n")
        for d in DIRS:
            for m in MARKS:
                self.restore_targets(d, m)
                k = init[m][d]
                if k != "absent":
                    self.put_marker(d, m, k)
        f = init["idf"]
        if f["form"] != "absent":
            text = self.ids.get(f["id"], "")
            if f["form"] == "legacy":
                text = text.replace("-", "")
                text = text.upper() if self.upper else text
            elif f["form"] == "newline":
                text = text + "\n"
            elif f["form"] == "spaced":
                text = rng.choice([" ", "\t", "  "]) + text + rng.choice([" ", "  ", " \n", "\t"])
            elif f["form"] == "empty":
                text = ""
            with open(self.idfile, "w") as fh:
                fh.write(text)
        self.patch(init["rhsm"] != "none")

    # -- concretisation ---------------------------------------------------
    def spell_rhsm(self, kind, rng):
        """How the host spells its subscription identity (the identifier it denotes is ids['rhsm'])."""
        c = self.ids["rhsm"]
        if kind in ("none", "canonical"):
            return c
        if kind == "unhyphenated":
            h = c.replace("-", "")
            return h.upper() if rng.random() < 0.5 else h
        if kind == "upper":
            return c.upper()
        if kind == "nonv4":
            # time-based / name-based look: another version nibble, sometimes another variant too
            raw = c[:14] + rng.choice("1235") + c[15:]
            if rng.random() < 0.5:
                raw = raw[:19] + "cdef"[int(c[19], 16) & 3] + raw[20:]
            if v4ify(raw) != c or is_v4(raw):
                raise HarnessError("R4: %r is not a non-v4 spelling of %r" % (raw, c))
            return raw
        if kind == "spaced":
            return rng.choice([" ", "\t", "  "]) + c + rng.choice([" ", "  ", " \n", "\t"])
        raise HarnessError("subscription identity kind %r" % kind)

    def marker(self, d, m):
        return os.path.join(self.dirs[d], MARKS[m])

    def live(self, d, m):
        return os.path.join(self.outside, "%s-%s-live" % (d, m))

    def dead(self, d, m):
        if self.deep[(d, m)]:
            return os.path.join(self.outside, "nodir-%s-%s" % (d, m), "dead")
        return os.path.join(self.outside, "%s-%s-dead" % (d, m))

    def dead_paths(self, d, m):
        return [os.path.join(self.outside, "%s-%s-dead" % (d, m)), os.path.join(self.outside, "nodir-%s-%s" % (d, m))]

    def live_text(self, d, m):
        return "TARGET %s %s - must stay as it is\n" % (d, m)

    def restore_targets(self, d, m):
        """The link targets outlive a case; put them back if the previous history damaged them."""
        if self.live_state(d, m) != "intact":
            p = self.live(d, m)
            if os.path.lexists(p):
                os.remove(p)
            with open(p, "w") as f:
                f.write(self.live_text(d, m))
            os.utime(p, ns=(SENT_NS, SENT_NS))
        for p in self.dead_paths(d, m):
            if os.path.isdir(p) and not os.path.islink(p):
                shutil.rmtree(p)
            elif os.path.lexists(p):
                os.remove(p)

    def live_state(self, d, m):
        """absent / intact / changed: size and the sentinel mtime first, the bytes only if those look untouched."""
        p = self.live(d, m)
        try:
            s = os.lstat(p)
        except OSError:
            return "absent"
        text = self.live_text(d, m)
        if not stat.S_ISREG(s.st_mode) or s.st_size != len(text) or s.st_mtime_ns != SENT_NS:
            return "changed"
        return "intact"

    def put_marker(self, d, m, k, check=True):
        p = self.marker(d, m)
        if os.path.lexists(p):
            os.remove(p)
        if k == "file":
            with open(p, "w") as f:
                f.write("2001-01-01T00:00:00.000000")
        elif k == "link":
            os.symlink(self.live(d, m), p)
        elif k == "dangling":
            os.symlink(self.dead(d, m), p)
            key = "dangling:target-directory-missing" if self.deep[(d, m)] else "dangling:target-file-missing"
            self.stats[key] = self.stats.get(key, 0) + 1
        else:
            raise HarnessError("marker kind %r" % k)
        # R4 on the pristine world; inside a history the trace specification compares the planted
        # state with the model (a world already damaged by the code under test may not allow it)
        if check and kind_of(p) != k:
            raise HarnessError("R4: planted %s at %s but it projects to %s" % (k, p, kind_of(p)))

    def patch(self, rhsm):
        """Redirect everything the helpers read to this world."""
        constants.default_conf_dir = self.dirs["main"]
        constants.simple_find_replace_dir = self.dirs["legacy"]
        constants.registered_files = [self.marker(d, "reg") for d in DIRS]
        constants.unregistered_files = [self.marker(d, "unreg") for d in DIRS]
        constants.machine_id_file = self.idfile
        utilities.generate_machine_id.__defaults__ = (False, self.idfile)
        world = self
        if rhsm:
            cert_auth.RHSM_CONFIG = object()

            def read(cls):
                world.rhsm_calls += 1
                return FakeCert(world.rhsm_raw)
        else:
            # both ways the real _get_rhsm_identity finds nothing: no rhsm module / unreadable certificate
            cert_auth.RHSM_CONFIG = None if self.upper else object()

            def read(cls):
                world.rhsm_calls += 1
                raise IOError("no consumer certificate")
        cert_auth.rhsmCertificate.read = classmethod(read)

    # -- projection -------------------------------------------------------
    def token(self, text):
        return self.tok.get(text, text)

    def project(self):
        st = {"dir": {}, "reg": {}, "unreg": {}, "tgt": {}}
        for d in DIRS:
            st["dir"][d] = self.kindlabel[d] if os.path.isdir(self.dirs[d]) else "absent"
            st["tgt"][d] = {}
            for m in MARKS:
                st[m][d] = kind_of(self.marker(d, m))
                lk = self.live_state(d, m)
                st["tgt"][d][m] = {"live": lk, "dead": "exists" if any(os.path.lexists(p) for p in self.dead_paths(d, m)) else "absent"}
        k = kind_of(self.idfile)
        raw = ""
        if k == "absent":
            idf = {"form": "absent", "id": "none"}
        elif k != "file":
            idf = {"form": "not-a-file", "id": "none"}
        else:
            with open(self.idfile, "rb") as f:
                raw = f.read().decode("latin-1")
            if raw == "":
                idf = {"form": "empty", "id": "none"}
            elif CANON.match(raw):
                idf = {"form": "canonical", "id": self.token(raw)} if is_v4(raw) else \
                      {"form": "nonv4", "id": self.token(v4ify(raw))}
            elif raw.endswith("\n") and CANON.match(raw[:-1]) and raw.count("\n") == 1:
                idf = {"form": "newline", "id": self.token(raw[:-1])}
            elif HEX32.match(raw):
                h = raw.lower()
                idf = {"form": "legacy", "id": self.token("-".join((h[:8], h[8:12], h[12:16], h[16:20], h[20:])))}
            elif UPPER.match(raw):
                idf = {"form": "upper", "id": self.token(raw.lower())}
            elif CANON.match(raw.strip()) and is_v4(raw.strip()):
                idf = {"form": "spaced", "id": self.token(raw.strip())}
            else:
                idf = {"form": "other", "id": "none"}
        st["idf"] = idf
        return st, raw[:120]

    # -- operations -------------------------------------------------------
    def arm(self):
        """Plant the sentinel mtime on the identifier file; remember the inode."""
        try:
            s = os.lstat(self.idfile)
        except OSError:
            return None
        if not stat.S_ISREG(s.st_mode):
            return None
        os.utime(self.idfile, ns=(SENT_NS, SENT_NS))
        return s.st_ino

    def touched(self, ino):
        if ino is None:
            return False
        try:
            s = os.lstat(self.idfile)
        except OSError:
            return True
        return s.st_ino != ino or s.st_mtime_ns != SENT_NS

    def do(self, step):
        op = step["op"]
        ret = {"k": "none", "s": "", "chars": []}
        ino = self.arm()
        try:
            if op == "ReadId":
                r = utilities.generate_machine_id()
                ret = {"k": "id", "s": self.token(r), "chars": list(r)} if isinstance(r, str) else \
                      {"k": "not-a-string", "s": type(r).__name__, "chars": []}
            elif op == "NewId":
                r = utilities.generate_machine_id(new=True)
                ret = {"k": "id", "s": self.token(r), "chars": list(r)} if isinstance(r, str) else \
                      {"k": "not-a-string", "s": type(r).__name__, "chars": []}
            elif op == "Register":
                utilities.write_registered_file()
            elif op == "Unregister":
                # both entry points: the plain one and the explicit-date one (client.py, HTTP 412 handler)
                if self.rng.random() < 0.5:
                    step = dict(step, k="dated")
                    utilities.write_unregistered_file(date="2001-01-01T00:00:00.000000")
                else:
                    utilities.write_unregistered_file()
            elif op == "DeleteMarker":
                if step["m"] == "reg":
                    utilities.delete_registered_file()
                else:
                    utilities.delete_unregistered_file()
            elif op == "PlantSymlink":
                self.put_marker(step["d"], step["m"], step["k"], check=False)
            else:
                raise HarnessError("unknown operation %r" % op)
        except SystemExit:
            ret = {"k": "exit", "s": "", "chars": []}
        except HarnessError:
            raise
        except Exception as ex:           # recorded, judged by the trace specification
            ret = {"k": "raise", "s": type(ex).__name__, "chars": []}
        post, raw = self.project()
        self.stats[op] = self.stats.get(op, 0) + 1
        return {"op": op, "d": step["d"], "m": step["m"], "k": step["k"], "ret": ret, "post": post,
                "raw": raw, "touched": self.touched(ino)}


def kind_of(path):
    try:
        s = os.lstat(path)
    except OSError:
        return "absent"
    if stat.S_ISLNK(s.st_mode):
        return "link" if os.path.exists(path) else "dangling"
    if stat.S_ISREG(s.st_mode):
        return "file"
    return "other"


def main():
    with open(sys.argv[1]) as f:
        inp = json.load(f)
    logging.disable(logging.CRITICAL)
    base = tempfile.mkdtemp(prefix="c17-", dir=os.getcwd())
    stats = {}
    traces = []
    saved = utilities.generate_machine_id.__defaults__
    try:
        for case in inp["cases"]:
            rng = random.Random("%s/%s" % (inp.get("seed", 0), case["id"]))
            w = World(base, case, rng, stats)
            init, raw = w.project()
            want = dict((k, case["init"][k]) for k in ("dir", "reg", "unreg", "idf"))
            got = dict((k, init[k]) for k in ("dir", "reg", "unreg", "idf"))
            if want != got:
                raise HarnessError("R4: initial state %r concretised to %r" % (want, got))
            init["rhsm"] = case["init"]["rhsm"]
            init["raw"] = raw
            events = [w.do(s) for s in case["steps"]]
            stats["rhsm_calls"] = stats.get("rhsm_calls", 0) + w.rhsm_calls
            traces.append({"id": case["id"], "init": init, "events": events})
    finally:
        utilities.generate_machine_id.__defaults__ = saved
        shutil.rmtree(base, True)
    with open(sys.argv[2], "w") as f:
        f.write(json.dumps({"traces": traces, "stats": stats}, separators=(",", ":")))   # C encoder


if __name__ == "__main__":
    main()
