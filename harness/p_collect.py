"""C06: collection stays in its root, honours the deny list, writes only to the
archive.  Model: specs/Collect.tla (+ CollectMC emission), trace validation:
specs/CollectTrace.tla, driver: harness/drive_collect.py."""
import concurrent.futures
import json
import os
import random
import re
import time

import lib

INV_PATH = ["Contained", "WritesUnderOut", "StepAgreesWithRun", "RealpathIsFixpoint", "NormalIsLexical"]
VIAS = ["direct", "simple_file", "first_file", "glob_file", "foreach_collect"]

ASSUMPTIONS = [
    "the kernel's path walk, os.stat and glob are trusted; the model's ResolveStep is cross-checked against "
    "os.stat on every replayed path (R4) and its create-mode walk against the files really created",
    "layouts live in a scratch directory W; the model does not look above W (paths whose walk leaves W are "
    "not replayed), absolute link targets point into W",
    "the context root is never '/' in the replay (no chroot); root given directly or through a symlink",
    "deny list reading (DESIGN section 5): file entries match by equality, command entries when equal or "
    "followed by a space, applied to the path / host command line of each candidate item",
    "container engines are not installed: which() is patched to accept /usr/bin/podman and the recording "
    "host context returns canned output for it; every other command is really executed",
    "bounds: exhaustive inside the listed TLC configurations; random layouts/paths from VERIF_SEED beyond them",
]


def subst_cfg(name, out, **kv):
    with open(os.path.join(lib.SPECS, name)) as f:
        txt = f.read()
    for k, v in kv.items():
        if k == "drop":
            for d in v:
                txt = "\n".join(l for l in txt.splitlines() if l.strip() != d) + "\n"
            continue
        txt, n = re.subn(r"(?m)^(\s*%s\s*=).*$" % re.escape(k), lambda m: m.group(1) + " " + v, txt)
        if n != 1:
            raise lib.MachineryError("cfg %s: constant %s not found" % (name, k))
    path = os.path.join(lib.subdir("gencfg"), out)
    with open(path, "w") as f:
        f.write(txt)
    return path


def model_jobs(tier):
    q = tier == "quick"
    jobs = [
        ("links", "CollectMC", subst_cfg("CollectMC_links.cfg", "links.cfg", MaxLen="4" if q else "5")),
        ("deep", "CollectMC", subst_cfg("CollectMC_deep.cfg", "deep.cfg", MaxLen="7" if q else "8",
                                        **({} if q else {"L1Set": '{"none", "dirpre", "parent"}'}))),
        ("deny", "CollectMC", subst_cfg("CollectMC_deny.cfg", "deny.cfg", DenyMax="3" if q else "4")),
        # the invariants can fail: a prefix test on rendered paths / an un-normalised join violate them
        ("neg-textual", "Collect", subst_cfg("CollectMC_deep.cfg", "negt.cfg", ContainMode='"textual"', MaxLen="3",
                                             drop=["CONSTRAINT Emit"])),
        ("neg-joined", "Collect", subst_cfg("CollectMC_deep.cfg", "negj.cfg", DestMode='"joined"', MaxLen="5",
                                            drop=["CONSTRAINT Emit"])),
        ("neg-unstripped", "Collect", subst_cfg("CollectMC_deny.cfg", "negu.cfg", DestMode='"unstripped"', DenyMax="0",
                                                drop=["CONSTRAINT Emit"])),
        ("neg-preserve", "Collect", subst_cfg("CollectMC_links.cfg", "negp.cfg", CopyMode='"preserve"', MaxLen="2",
                                              drop=["CONSTRAINT Emit"])),
        ("neg-order", "Collect", subst_cfg("CollectMC_deny.cfg", "nego.cfg", CollectOrder='"denylist-then-configs"',
                                           DenyMax="0", drop=["CONSTRAINT Emit"])),
        ("neg-shared", "Collect", subst_cfg("CollectMC_deny.cfg", "negs.cfg", ObserverMode='"shared"',
                                            DenyMax="0", drop=["CONSTRAINT Emit"])),
        ("neg-mangle32", "Collect", subst_cfg("CollectMC_deny.cfg", "negm.cfg", DestMode='"mangle32"', DenyMax="0",
                                              drop=["CONSTRAINT Emit"])),
    ]
    return jobs


EXPECT_NEG = {"neg-textual": "Contained", "neg-joined": "WritesUnderOut", "neg-unstripped": "FactoryWritesUnderOut",
              "neg-mangle32": "FactoryWritesUnderOut", "neg-preserve": "WritesUnderOut",
              "neg-order": "DenyRespected", "neg-shared": "FactoryWritesUnderOut"}


def run_models(tier):
    models, raw, neg = [], [], {}

    def one(job):
        name, mod, cfg = job
        r = lib.run_tlc(mod, cfg, workers=4, tag="collect-" + name, timeout=1200, raw_cases=True,
                        coverage=(name in ("links", "deny")))
        return name, r

    with concurrent.futures.ThreadPoolExecutor(max_workers=3) as ex:
        for name, r in ex.map(one, model_jobs(tier)):
            if name in EXPECT_NEG:
                if r.violation != EXPECT_NEG[name]:
                    raise lib.MachineryError(
                        "model %s: expected TLC to find a violation of %s for the transcription of the "
                        "flawed design, got violation=%s error=%s" % (name, EXPECT_NEG[name], r.violation, r.error))
                neg[name] = dict(invariant=r.violation, states=r.generated)
                continue
            lib.require_ok(r, "Collect model " + name)
            raw.extend(r.cases)
            r.cases = []
            models.append(r)
    return models, raw, neg


def key_of(k):
    return "%s.%s.%s.%s" % (k["l1"], k["l2"], k["via"], k["outat"])


REQUIRED_ACTIONS = ["ResolveStep", "ExtendAny", "Yield", "Configure", "Attempt"]


def run(prop, tier):
    rng = random.Random(lib.seed())
    t0 = time.time()
    models, raw, neg = run_models(tier)
    cov = {}
    for m in models:
        for k, v in m.coverage.items():
            cov[k] = cov.get(k, 0) + v
    for a in REQUIRED_ACTIONS:
        if not cov.get(a):
            raise lib.MachineryError("vacuity: action %s of Collect.tla was never taken (coverage %s)" % (a, cov))
    layouts, paths, deny = {}, {}, []
    for line in raw:
        c = lib.parse_case(line)
        if c["t"] == "layout":
            layouts[key_of(c["key"])] = c
        elif c["t"] == "path":
            paths.setdefault(key_of(c["key"]), {})[tuple(c["path"])] = c
        else:
            c["id"] = "deny/%d" % len(deny)
            deny.append(c)
    npaths = sum(len(v) for v in paths.values())
    print("timing: models %.1fs; %d layouts, %d (layout, path) pairs, %d deny cases emitted"
          % (time.time() - t0, len(layouts), npaths, len(deny)))

    # ---- payloads ---------------------------------------------------------
    t1 = time.time()
    jobs = min(lib.NCPU, 8)
    units = []
    per = 120
    for k in sorted(paths):
        # the same paths exist for both positions of the output directory; for the second position only the
        # paths that denote a regular file (the ones that can be persisted) are replayed again
        ps = sorted(p for p in paths[k] if layouts[k]["key"]["outat"] == "t" or paths[k][p]["file"])
        rng.shuffle(ps)
        for i in range(0, len(ps), per):
            lay = layouts[k]
            units.append(dict(id="path/%s/%d" % (k, i // per), key=lay["key"], fs=lay["fs"], root=lay["root"],
                              out=lay["out"], paths=[list(p) for p in ps[i:i + per]],
                              allvias=(tier == "thorough")))
    rng.shuffle(units)
    rng.shuffle(deny)
    nrand = (4, 60, 8) if tier == "quick" else (60, 150, 10)
    base_lay = layouts["none.none.direct.t"]
    payloads = []
    uch, dch = lib.chunks(units, jobs), lib.chunks(deny, jobs)
    for j in range(jobs):
        payloads.append(dict(base=os.path.join(lib.subdir("c06fs"), "p%d" % j), seed=lib.seed() * 1000 + j,
                             layouts=uch[j] if j < len(uch) else [], deny=dch[j] if j < len(dch) else [],
                             vias=VIAS, saveas=["none", "file", "dir"],
                             random=dict(base=dict(fs=base_lay["fs"], root=base_lay["root"], out=base_lay["out"]),
                                         layouts=nrand[0], paths=nrand[1], maxlen=nrand[2])))
    outs = lib.run_driver_parallel("drive_collect.py", payloads, timeout=1500, jobs=jobs)
    traces, stats = [], {}
    for o in outs:
        traces.extend(o["traces"])
        for grp, st in o["stats"].items():
            g = stats.setdefault(grp, {})
            for k, v in st.items():
                g[k] = g.get(k, 0) + v
    nev = sum(len(t["events"]) for t in traces)
    print("timing: drivers %.1fs, %d traces, %d events; %s" % (time.time() - t1, len(traces), nev, stats))
    # vacuity of the binding: the real code paths were reached
    ps, ds = stats.get("path", {}), stats.get("deny", {})
    for what, ok in (("providers yielded content", ps.get("yielded", 0) > 0),
                     ("providers refused paths", ps.get("raised", 0) > 0),
                     ("serialisation wrote data files", ps.get("datafiles", 0) > 0),
                     ("deny cases opened/executed permitted items", ds.get("accessed", 0) > 0),
                     ("commands were really executed", ds.get("really_executed", 0) > 0),
                     ("deny cases wrote metadata", ds.get("docs", 0) > 0),
                     ("factories' results were persisted by the observer", ds.get("datafiles", 0) > 0),
                     ("file names with a blank were candidate items", ds.get("blank_items", 0) > 0),
                     ("two specs persisted the same relative path", ps.get("pairs", 0) > 0),
                     ("symbolic spec names with digits were denied", ds.get("digit_specs", 0) > 0),
                     ("the collect() entry point was driven", ds.get("collect_entry", 0) > 0),
                     ("items with regular-expression characters / deep path arguments were candidates",
                      ds.get("meta_items", 0) > 0 and ds.get("deep_items", 0) > 0)):
        if not ok:
            raise lib.MachineryError("vacuity: never observed that %s (%s)" % (what, stats))

    # ---- R4 on the emitted expectation as well: TLC's resolution == kernel's ----
    for t in traces:
        if t["kind"] != "path" or not t["id"].startswith("path/"):
            continue
        k = t["id"].split("/")[1]
        for e in t["events"]:
            if e["ev"] == "provide" and not e["star"]:
                c = paths[k].get(tuple(e["path"]))
                if c is None:
                    raise lib.MachineryError("driver replayed a path TLC did not emit: %s" % e["path"])
                if c["status"] != e["kstatus"] or (c["status"] == "ok" and c["node"] != e["knode"]):
                    raise lib.MachineryError(
                        "R4: model and kernel disagree on layout %s path %s: model %s/%s, kernel %s/%s"
                        % (k, "/".join(e["path"]), c["status"], c["node"], e["kstatus"], e["knode"]))

    # ---- validation ---------------------------------------------------------
    t1 = time.time()
    mutants = selftest_traces(base_lay)
    val = lib.validate_traces("CollectTrace", "CollectTrace.cfg", traces + mutants, jobs=jobs)
    print("timing: validation %.1fs (%d events, %d JVMs)" % (time.time() - t1, val["events"], val["jvms"]))
    byid = dict((t["id"], t) for t in traces + mutants)
    denybyid = dict((c["id"], c) for c in deny)
    verdict = lib.Verdict(prop, tier)
    verdict.t0 = t0                      # wall time of the whole run, not only of the verdict step
    mut_rejected = set()
    for rj in val["rejected"]:
        t = byid[rj["id"]]
        ev = t["events"][rj["line"] - 1]
        clause = rj["clause"]
        if rj["id"].startswith("selftest/"):
            mut_rejected.add((rj["id"], clause.split(":")[0]))
            continue
        if clause.startswith("R4."):
            raise lib.MachineryError("R4: model and environment disagree (%s) on trace %s event %s"
                                     % (clause, rj["id"], json.dumps(ev)[:600]))
        if ev["ev"] == "provide":
            what = ("%s(%s, kind=%s, ctx=%s) for path '%s' under root %s yielded content of node(s) %s (clause %s)"
                    % (ev["via"], "pattern" if ev["star"] else "path", ev["kind"], ev["ctx"], "/".join(ev["path"]),
                       "/".join(t["lay"]["root"]), ev["contents"], clause))
        elif ev["ev"] == "persist":
            what = ("serialising the provider of path '%s' (save_as=%s, %s) wrote %s; output directory is node %s (clause %s)"
                    % ("/".join(ev["path"]), ev["saveas"], ev["seq"],
                       ["%s (%s)" % ("/".join(w), k) for w, k in zip(ev["written"], ev["wtypes"])], t["lay"]["out"], clause))
        elif ev["ev"] == "fpersist":
            what = ("%s(kind=%s, save_as form %s) persisted by the Hydration observer wrote %s; output directory is "
                    "out/ (clause %s)" % (ev["factory"], ev["kind"], ev["saveas"],
                                          ["/".join(w) for w in ev["written"]], clause))
        else:
            bad = [" ".join(i["w"]) for i in ev["items"] if i["acc"]]
            what = ("%s (entry %s) with deny files=%s commands=%s components=%s accessed %s (clause %s)"
                    % (ev["factory"] + (":" + ev["comp"] if ev["comp"] else ""), ev["entry"], [" ".join(w) for w in ev["files"]], [" ".join(w) for w in ev["commands"]],
                       ev["comps"], bad, clause))
        verdict.reject(lib.sig(prop, clause), what, dict(trace_id=rj["id"], event=ev, layout=t["lay"], rejected=rj,
                                                         case=denybyid.get(rj["id"])))
    need = set((m["id"], m["expect"]) for m in mutants if m["expect"] != "accepted")
    if need != mut_rejected:
        raise lib.MachineryError("binding self-test: expected rejections %s, got %s"
                                 % (sorted(need), sorted(mut_rejected)))

    # ---- evidence -------------------------------------------------------------
    distinct = set()
    for t in traces:
        for e in t["events"]:
            if e["ev"] == "provide" and (".." in e["path"] or e["contents"] or e["exc"]):
                distinct.add((t["id"].split("/")[1] if t["id"].startswith("path/") else t["id"], tuple(e["path"]), e["via"]))
            elif e["ev"] == "collect" and (e["files"] or e["commands"] or e["comps"]):
                distinct.add((e["factory"], json.dumps([e["files"], e["commands"], e["comps"], e["comp"]])))
    samples = []
    for t in traces[:400]:
        for e in t["events"]:
            if len(samples) < 2 and e["ev"] == "provide" and e["contents"] and ".." in e["path"]:
                samples.append(dict(trace=t["id"], event=e))
            if len(samples) in (2, 3) and e["ev"] == "persist" and samples[-1].get("event", {}).get("ev") != "persist":
                samples.append(dict(trace=t["id"], event=e))
    for t in traces:
        if t["kind"] == "deny" and t["events"][0]["commands"]:
            samples.append(dict(trace=t["id"], event=t["events"][0]))
            break
    if not samples:
        samples = [dict(trace=traces[0]["id"], event=traces[0]["events"][0])]
    ev = lib.evidence(
        prop, tier, models, val, evaluations=nev, distinct_nontrivial=len(distinct),
        rule="cases = every (layout, path) pair and every (factory, deny configuration) TLC explored in the listed "
             "configurations plus seeded random layouts/paths; each pair is materialised on disk and requested "
             "through TextFileProvider/RawFileProvider and the declarative factories, yielded providers are "
             "serialised with Hydration.dehydrate; evaluations = recorded events validated by TLC; "
             "distinct_nontrivial = distinct (layout, path, via) whose path has '..' or that yielded/raised, plus "
             "distinct (factory, non-empty deny configuration)",
        samples=samples, assumptions=ASSUMPTIONS,
        extra=dict(layouts=len(layouts), layout_path_pairs=npaths, deny_cases=len(deny), driver_stats=stats,
                   invariants_checked_on_model=INV_PATH + ["DenyRespected", "FactoryWritesUnderOut"], action_coverage=cov,
                   negative_model_runs=neg, selftest_corrupted_traces_rejected=len(need),
                   random_layouts=stats.get("path", {}).get("random_layouts", 0), exhaustive=False))
    return verdict.finish(ev)


def selftest_traces(lay):
    """Binding demonstration (R5).  Hand-written events on a TLC-emitted layout (independent of the code under
    test): the baseline must be accepted, each variant with one recorded field changed must be rejected with the
    clause of the property the change breaks."""
    import copy
    outloc = ["t", "out"] if lay["fs"][lay["out"] - 1]["p"] == 2 else ["out"]
    L = dict(fs=lay["fs"], root=lay["root"], out=lay["out"])
    prov = dict(ev="provide", via="direct", kind="text", ctx="host", path=["d", "g"], star=False, kstatus="ok",
                knode=9, outcome="yielded", contents=[9], exc="")
    pers = dict(ev="persist", via="direct", path=["d", "g"], saveas="none", seq="single", wtypes=["file", "file"],
                dsts=[outloc + ["data", "d", "g"], outloc + ["meta_data", "x.json"]],
                written=[outloc + ["data", "d", "g"], outloc + ["meta_data", "x.json"]])
    col = dict(ev="collect", factory="foreach_execute", kind="text", comp="", files=[], entry="apply", commands=[["/bin/echo"], ["/bin/ech"]],
               comps=[], items=[dict(t="cmd", w=["/bin/echo", "ab"], acc=False, cls="plain"),
                                dict(t="cmd", w=["/bin/ls", "b"], acc=True, cls="plain")],
               stored=False)
    sym = dict(ev="collect", factory="spec", kind="text", comp="hosts", files=[["hosts"]], commands=[], comps=[],
               entry="collect",
               items=[dict(t="file", w=["/etc/hosts"], acc=False, cls="plain")], stored=False)
    blank = dict(ev="collect", factory="glob_file", kind="text", comp="", entry="apply", files=[["/x/my", "b"], ["/x/a"]], commands=[],
                 comps=[], items=[dict(t="file", w=["/x/ab"], acc=True, cls="plain"),
                                  dict(t="file", w=["/x/my", "b"], acc=False, cls="blank")],
                 stored=True)
    fper = dict(ev="fpersist", factory="command_with_args", kind="text", saveas="absfile", path=[], seq="single",
                wtypes=["file", "file"],
                written=[["out", "data", "insights_commands", "sv", "x"], ["out", "meta_data", "c.json"]],
                dsts=[["out", "data", "insights_commands", "sv", "x"], ["out", "meta_data", "c.json"]])
    dlay = dict(fs=[dict(k="dir", p=1, n="", abs=False, segs=[]), dict(k="dir", p=1, n="root", abs=False, segs=[]),
                    dict(k="dir", p=1, n="out", abs=False, segs=[])], root=["root"], out=3)
    out = [dict(id="selftest/base", expect="accepted", kind="path", lay=L, events=[prov, pers]),
           dict(id="selftest/base-deny", expect="accepted", kind="deny", lay=dlay, events=[col, sym, blank, fper])]

    def variant(tag, expect, base, fn):
        m = copy.deepcopy(out[base])
        fn(m["events"])
        m["id"], m["expect"] = "selftest/" + tag, expect
        out.append(m)

    variant("outside", "Contained", 0, lambda e: e[0].update(contents=[10]))
    variant("unidentified", "Contained", 0, lambda e: e[0].update(contents=[9, 0]))
    variant("kernel", "R4.resolve", 0, lambda e: e[0].update(knode=7))
    variant("stray", "WritesUnderOut", 0, lambda e: (e[1]["written"].append(["t", "stray"]), e[1]["wtypes"].append("file"),
                                                     e[1]["dsts"].append(["t", "stray"])))
    variant("dotdot", "WritesUnderOut", 0, lambda e: (e[1]["written"].append(outloc[:-1] + ["x"]), e[1]["wtypes"].append("file"),
                                                      e[1]["dsts"].append(outloc + ["data", "..", "..", "x"])))
    variant("symlink", "WritesUnderOut", 0, lambda e: e[1].update(wtypes=["symlink", "file"]))
    variant("pair-host-file", "WritesUnderOut", 0, lambda e: (e[1].update(seq="raw-then-text"),
                                                              e[1]["written"].append(["t", "root", "d", "g"]),
                                                              e[1]["wtypes"].append("file")))
    variant("unexplained", "R4.destination", 0, lambda e: (e[1]["written"].append(outloc + ["data", "zz"]),
                                                           e[1]["wtypes"].append("file")))
    variant("cmd", "DenyRespected", 1, lambda e: e[0]["items"][0].update(acc=True))
    variant("symbolic", "DenyRespected", 1, lambda e: e[1]["items"][0].update(acc=True))
    variant("blank", "DenyRespected", 1, lambda e: e[2]["items"][1].update(acc=True))
    variant("refused", "WritesUnderOut", 1, lambda e: (e[3]["written"].append(["<outside>", "sv", "x"]), e[3]["wtypes"].append("file"),
                                                       e[3]["dsts"].append(["<outside>", "sv", "x"])))
    variant("sibling", "WritesUnderOut", 1, lambda e: (e[3]["written"].append(["root", "sv", "x"]), e[3]["wtypes"].append("file"),
                                                       e[3]["dsts"].append(["root", "sv", "x"])))
    return out


def replay(prop, path):
    """Re-execute a recorded violation against the current tree and re-validate it."""
    with open(path) as f:
        rec = json.load(f)
    rp = rec["replay"]
    ev = rp["event"]
    payload = dict(base=os.path.join(lib.subdir("c06fs"), "replay"), seed=lib.seed(), vias=VIAS,
                   saveas=["none", "file", "dir"], layouts=[], deny=[])
    if ev["ev"] in ("collect", "fpersist"):
        payload["deny"] = [dict(rp["case"], id="replay")]
    else:
        p = list(ev["path"])
        if p and p[-1] == "*":
            p[-1] = "nx"
        lay = rp["layout"]
        payload["layouts"] = [dict(id="replay", fs=lay["fs"], root=lay["root"], out=lay["out"], paths=[p], allvias=True)]
    out = lib.run_driver("drive_collect.py", payload)
    val = lib.validate_traces("CollectTrace", "CollectTrace.cfg", out["traces"], jobs=1)
    print("replay of %s (%s)" % (path, rec["signature"]))
    byid = dict((t["id"], t) for t in out["traces"])
    for rj in val["rejected"]:
        print("  rejected: clause %s; event %s" % (rj["clause"], json.dumps(byid[rj["id"]]["events"][rj["line"] - 1])[:500]))
    same = any(lib.sig(prop, rj["clause"]) == rec["signature"] for rj in val["rejected"])
    print("  %s" % ("REPRODUCED" if same else "not reproduced on the current tree"))
    return 1 if same else 0
