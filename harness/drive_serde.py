"""Driver for Serde (C11): build the abstract archive entries with the REAL
providers, persist them with the real Hydration.dehydrate through the broker
observer, damage the real files, load them with the real Hydration.hydrate /
initialize_broker into a fresh broker and record what was observed.  No oracle
here: the records are judged by specs/SerdeTrace.tla.

usage: drive_serde.py <in.json> <out.json>
in : {"base": dir, "seed": n, "longlen": n, "cases": [{"id":.., "entries":[..], "fault":[..]}]}
out: {"traces":[..], "stats":{..}}
"""
import glob as _glob
import hashlib
import json
import logging
import os
import random
import shutil
import sys
import time
from concurrent.futures import ThreadPoolExecutor

from insights.core import dr, filters, serde
from insights.core import spec_factory as sf
from insights.core.context import HostContext, SerializedArchiveContext
from insights.core.exceptions import CalledProcessError, ContentException, SkipComponent, TimeoutException
from insights.core.hydration import initialize_broker
from insights.core.plugins import datasource
from insights.core.serde import Hydration
from insights.core.spec_factory import RegistryPoint, SpecSet

ENGINE = "/usr/bin/podman"
_real_which = sf.which


def _which(cmd, env=None):
    return cmd if cmd == ENGINE else _real_which(cmd, env=env)


sf.which = _which

# the order in which hydrate meets the metadata files is the file system's business: permute it (seeded)
_ORDER = {"rng": random.Random(0), "last": []}
_real_glob = serde.glob


def _perm_glob(pattern):
    res = sorted(_real_glob(pattern))
    _ORDER["rng"].shuffle(res)
    _ORDER["last"] = [os.path.basename(p) for p in res]
    return res


serde.glob = _perm_glob


class CannedHostContext(HostContext):
    """Host context whose commands return prepared output (no process is started)."""

    def __init__(self, root):
        super(CannedHostContext, self).__init__(root=root, timeout=10)
        self.table = {}
        self.delay = {}      # command -> seconds it takes (the environment's latency, used with a thread pool)

    def check_output(self, cmd, timeout=None, keep_rc=False, env=None, signum=None):
        first = cmd[0] if isinstance(cmd, list) else cmd
        key = " ".join(first) if isinstance(first, (list, tuple)) else str(first)
        out = self.table[key]
        if self.delay.get(key):
            time.sleep(self.delay[key])
        return (0, out) if keep_rc else out


CUR = {}
COMPS = []


def _mk(i):
    def comp(broker):
        return CUR[i](broker)
    comp.__name__ = comp.__qualname__ = "entry%d" % i
    return datasource(HostContext)(comp)


for _i in range(1, 7):
    COMPS.append(_mk(_i))            # stand-alone datasources: they implement no registry point


def _mkb(i):
    def impl(broker):
        return CUR[i](broker)
    impl.__name__ = impl.__qualname__ = "impl%d" % i
    return datasource(HostContext)(impl)


class VSpecs(SpecSet):               # registry points: what collection persists for spec-backed datasources
    s1 = RegistryPoint()
    s2 = RegistryPoint()
    s3 = RegistryPoint()
    s4 = RegistryPoint()
    s5 = RegistryPoint()
    s6 = RegistryPoint()


    sf = RegistryPoint(filterable=True, multi_output=True)     # a filterable spec (see FILTER below)


class VImpl(VSpecs):                 # their implementations
    s1 = _mkb(1)
    s2 = _mkb(2)
    s3 = _mkb(3)
    s4 = _mkb(4)
    s5 = _mkb(5)
    s6 = _mkb(6)


    sf = _mkb(0)


POINTS = [getattr(VSpecs, "s%d" % _i) for _i in range(1, 7)]

# ---- the history of this process ------------------------------------------------------------------------------
# A driver process handles many archives one after the other, the way a long-running service does.  HIST counts the
# archives it has loaded so far.  The components above are registered before the first load; the "late" components
# come from a plugin module that does not exist at start-up: it is written and loaded with dr.load_components() only
# after the process has loaded at least one archive (if there has been none yet, a first small archive of an early
# component is collected, persisted and loaded first).  Their names are never asked for before they are registered.
HIST = {"loads": 0, "late_registered_after": None}
LATE = {}

LATE_PLUGIN = '''
import __main__ as _drv
from insights.core.context import HostContext
from insights.core.plugins import datasource
from insights.core.spec_factory import RegistryPoint, SpecSet


def _mk(prefix, i):
    def comp(broker):
        return _drv.CUR[i](broker)
    comp.__name__ = comp.__qualname__ = "%s%d" % (prefix, i)
    return datasource(HostContext)(comp)


COMPS = [_mk("lentry", i) for i in range(1, 7)]


class LSpecs(SpecSet):
    s1 = RegistryPoint()
    s2 = RegistryPoint()
    s3 = RegistryPoint()
    s4 = RegistryPoint()
    s5 = RegistryPoint()
    s6 = RegistryPoint()


class LImpl(LSpecs):
    s1 = _mk("limpl", 1)
    s2 = _mk("limpl", 2)
    s3 = _mk("limpl", 3)
    s4 = _mk("limpl", 4)
    s5 = _mk("limpl", 5)
    s6 = _mk("limpl", 6)


POINTS = [getattr(LSpecs, "s%d" % i) for i in range(1, 7)]
'''


def late_components(base, rng):
    if LATE:
        return LATE
    if HIST["loads"] == 0:
        # the earlier archive of this process: one early component, collected, persisted and loaded
        first = dict(id="history/first-archive", pooled=False, fault=["none"], entries=[dict(
            kind="text", multi=False, failed=False, outcome="ok", backed=True, filtered=False, late=False,
            saveas="none", elems=[dict(lines=[["p"]], cmd="", args={"shape": "none", "v": []})])])
        import collections
        Case(first, base, rng, 100).run("init", collections.defaultdict(int))
    if HIST["loads"] == 0:
        raise RuntimeError("history: the first archive of the process was not loaded")
    plug = os.path.join(base, "plugins-%d" % os.getpid())
    os.makedirs(plug, exist_ok=True)
    mod = "c11_late_plugin"
    with open(os.path.join(plug, mod + ".py"), "w") as f:
        f.write(LATE_PLUGIN)
    sys.path.insert(0, plug)
    HIST["late_registered_after"] = HIST["loads"]
    dr.load_components(mod, continue_on_error=False)
    m = sys.modules[mod]
    LATE.update(comps=list(m.COMPS), points=list(m.POINTS))
    return LATE
# the filterable spec has one filter with a max-match budget (the model's Budget); every line of a "filtered" entry
# contains it and an element has at most that many lines, so loading must keep them all
FILTER, BUDGET = "KEEP", 2
filters.add_filter(VSpecs.sf, FILTER, max_match=BUDGET)

PLAIN = ["alpha beta 123", "key = value", "# comment; with, punctuation!", "0", "x", "a  b\tc", "{\"json\": [1, 2]}",
         "-rw-r--r--. 1 root root 42 Jan  1 00:00 /etc/hosts"]
BLANK = ["trailing blank ", "  leading and trailing  ", "tab at the end\t", " ", "\t", "ends with two  "]
NONASCII = [u"naïve café", u"日本語の行", u"snowman ☃ and \U0001F600", u" nbsp ",
            u"Жук — «жук»", u"ü", u"tab\tand €"]


class Case(object):
    def __init__(self, case, base, rng, longlen):
        self.case = case
        self.rng = rng
        self.longlen = longlen
        self.base = base
        self.dir = os.path.join(base, "a%d" % rng.randrange(10 ** 9))
        self.src = os.path.join(self.dir, "src")
        self.out = os.path.join(self.dir, "out")
        os.makedirs(self.src)
        os.makedirs(self.out)
        self.text = {}      # token -> text
        self.token = {}     # text -> token
        self.ctx = CannedHostContext(self.src)
        self.pooled = bool(case.get("pooled"))
        self.raised = {}

    # -- concretisation -----------------------------------------------------
    def concrete(self, atom, c, j, k):
        tok = "%s%d.%d.%d" % (atom, c, j, k)
        for _ in range(50):
            if atom == "p":
                t = self.rng.choice(PLAIN) + (" %d" % self.rng.randrange(1000) if self.rng.random() < 0.5 else "")
            elif atom == "b":
                t = self.rng.choice(BLANK)
                if t.strip():
                    t = "%d%s" % (self.rng.randrange(100), t)
            elif atom == "n":
                t = self.rng.choice(NONASCII) + (u" é%d" % self.rng.randrange(100) if self.rng.random() < 0.5 else u"")
            elif atom == "f":        # the line STARTS with U+FEFF (a byte-order mark when it opens the content)
                t = u"\ufeff" + self.rng.choice([u"", u"#!/bin/sh", u"key = value", u"\ufeff", u" x", u"é"])
            elif atom == "g":        # U+FEFF elsewhere in the line (control)
                t = self.rng.choice([u"a\ufeffb", u"ends with \ufeff", u" \ufeff", u"x\ufeff\ufeff"])
            elif atom == "L":
                n = self.longlen + self.rng.randrange(0, 4097)
                unit = self.rng.choice(["0123456789abcdef", u"long é line ", "x"])
                t = (unit * (n // len(unit) + 1))[:n]
            else:
                t = "atom-%s" % atom
            if t not in self.token:
                break
            t = t + "#%d" % self.rng.randrange(10 ** 6)
            if t not in self.token:
                break
        self.text[tok] = t
        self.token[t] = tok
        return t

    def tok(self, text):
        if text == "":
            return []
        t = self.token.get(text)
        if t is None:
            t = "x:" + hashlib.sha1(text.encode("utf-8", "surrogateescape")).hexdigest()[:10]
        return [t]

    def lines_tok(self, lines):
        return [self.tok(x) for x in lines]

    def file_tok(self, text):
        out = []
        for i, piece in enumerate(text.split("\n")):
            if i:
                out.append("NL")
            out.extend(self.tok(piece))
        return out

    def build_elem(self, kind, c, j, lines, args, saveas, slow=0.0):
        rel = "p%d/f%d" % (c, j)
        sa = {"none": None, "file": "sv%d/x" % c, "dir": "sv%d/" % c}[saveas]
        body = "".join(x + "\n" for x in lines)
        if kind in ("text", "raw"):
            p = os.path.join(self.src, rel)
            os.makedirs(os.path.dirname(p), exist_ok=True)
            with open(p, "wb") as f:
                f.write((body if kind == "text" else "\n".join(lines)).encode("utf-8"))
            K = sf.TextFileProvider if kind == "text" else sf.RawFileProvider
            return K(rel, root=self.src, ctx=self.ctx, save_as=sa)
        if kind == "command":
            cmd = "/bin/echo c%de%d" % (c, j)
            self.ctx.table[cmd] = body
            self.ctx.delay[cmd] = slow
            a = args["v"][0] if args["shape"] == "str" else (tuple(args["v"]) if args["shape"] == "seq" else None)
            return sf.CommandOutputProvider(cmd, self.ctx, save_as=sa, args=a)
        if kind == "cfile":
            cmd = "%s exec k%d cat /%s" % (ENGINE, j, rel)
            self.ctx.table[cmd] = body
            self.ctx.delay[cmd] = slow
            return sf.ContainerFileProvider(cmd, self.ctx, image="img", args=None)
        if kind == "ccmd":
            cmd = "%s exec k%d /bin/echo c%de%d" % (ENGINE, j, c, j)
            self.ctx.table[cmd] = body
            self.ctx.delay[cmd] = slow
            return sf.ContainerCommandProvider(cmd, self.ctx, image="img", args=tuple(args["v"]) or None)
        if kind == "datasource":
            return sf.DatasourceProvider(content=list(lines), relative_path=rel, save_as=sa)
        raise ValueError(kind)

    def producer(self, c, e):
        def run(broker):
            oc = e.get("outcome", "crash" if e["failed"] else "ok")
            if oc != "ok":
                self.raised[c] = oc               # what the body really did: its outcome is an input of the case
                if oc == "content":
                    raise ContentException("component %d: no content, on purpose" % c)
                if oc == "cmd":
                    raise CalledProcessError(1, "/bin/false c%d" % c, "on purpose")
                if oc == "timeout":
                    raise TimeoutException("component %d timed out, on purpose" % c)
                if oc == "skip":
                    raise SkipComponent("component %d skipped, on purpose" % c)
                raise RuntimeError("component %d failed on purpose" % c)
            vals = []
            n = len(e["elems"])
            for j, el in enumerate(e["elems"], 1):
                lines = [self.concrete(ln[0], c, j, k) if ln else "" for k, ln in enumerate(el["lines"], 1)]
                if e.get("filtered"):
                    for k, t in enumerate(lines):
                        self.token["%s %s" % (FILTER, t)] = self.token.pop(t)
                        lines[k] = "%s %s" % (FILTER, t)
                # with a thread pool the commands of a multi-output value answer at different speeds:
                # the first element is the slowest (content is loaded lazily, when the element is written)
                slow = (n - j) * 0.015 if (self.pooled and e["multi"]) else 0.0
                vals.append(self.build_elem(e["kind"], c, j, lines, el["args"], e["saveas"], slow))
            return vals if e["multi"] else vals[0]
        return run

    # -- projection ---------------------------------------------------------
    @staticmethod
    def args_proj(a):
        if a is None:
            return {"shape": "none", "v": []}
        if isinstance(a, str):
            return {"shape": "str", "v": [a]}
        if isinstance(a, (list, tuple)):
            return {"shape": "seq", "v": [str(x) for x in a]}
        return {"shape": "other", "v": [str(a)]}

    @staticmethod
    def kind_of(p):
        for cls, k in ((sf.ContainerFileProvider, "cfile"), (sf.ContainerCommandProvider, "ccmd"),
                       (sf.CommandOutputProvider, "command"), (sf.RawFileProvider, "raw"),
                       (sf.TextFileProvider, "text"), (sf.DatasourceProvider, "datasource")):
            if isinstance(p, cls):
                return k
        return "other"

    def content_lines(self, p):
        try:
            c = p.content
        except Exception:
            # a host context refuses to hand out EMPTY content, but a raw provider is copied all the same:
            # what was loaded is what collection had in hand
            c = getattr(p, "_content", None)
            if c is None or len(c) != 0:
                raise
        if isinstance(c, bytes):
            return c.decode("utf-8", "surrogateescape").split("\n")
        return list(c)

    def run(self, via, stats):
        case = self.case
        n = len(case["entries"])
        # the key under which an entry is persisted / loaded: the registry point for a spec-backed datasource,
        # the datasource itself for a stand-alone one
        # a "late" entry is produced by a component of the plugin that was loaded after an earlier load of this process
        late = late_components(self.base, self.rng) if any(e.get("late") for e in case["entries"]) else None
        comps = [VSpecs.sf if e.get("filtered") else
                 ((late["points"][i] if e.get("backed") else late["comps"][i]) if e.get("late") else
                  (POINTS[i] if e.get("backed") else COMPS[i]))
                 for i, e in enumerate(case["entries"])]
        # observed, from the history of this process: was the component registered after the first load?
        is_late = [late is not None and (c in late["points"] or c in late["comps"]) and
                   (HIST["late_registered_after"] or 0) > 0 for c in comps]
        names = [dr.get_name(c) for c in comps]
        CUR.clear()
        for i, e in enumerate(case["entries"], 1):
            CUR[0 if e.get("filtered") else i] = self.producer(i, e)
        broker = dr.Broker()
        broker[HostContext] = self.ctx
        pool = ThreadPoolExecutor(max_workers=4) if self.pooled else None
        h = Hydration(self.out, pool=pool)        # insights.collect hands its thread pool to Hydration the same way
        broker.add_observer(h.make_persister(set(comps)))
        graph = {}
        for c in comps:
            graph.update(dr.get_dependency_graph(c))
        try:
            dr.run(graph, broker)
        finally:
            if pool:
                pool.shutdown(wait=True)
                stats["pooled"] += 1
        events = []
        # ---- collected
        centries, before_text = [], {}
        for i, (comp, e) in enumerate(zip(comps, case["entries"]), 1):
            v = broker.get(comp)
            vals = v if isinstance(v, list) else ([] if v is None else [v])
            elems, kind = [], ("none" if not vals else self.kind_of(vals[0]))
            for j, p in enumerate(vals, 1):
                try:
                    ls = self.content_lines(p)
                except Exception:
                    continue
                before_text[(i, len(elems) + 1)] = ls
                elems.append(dict(lines=self.lines_tok(ls), cmd=p.cmd or "", args=self.args_proj(p.args)))
            # failed = the body raised a failing exception (its outcome is an input of the case), or the broker holds
            # an exception for what is persisted (e.g. an element that could not be serialised)
            oc = self.raised.get(i, "ok")
            recorded = bool(broker.exceptions.get(comp))
            if oc == "ok" and recorded:
                oc = "serialization"
            centries.append(dict(kind=kind, multi=isinstance(v, list),
                                 failed=oc in ("content", "cmd", "timeout", "crash", "serialization"),
                                 outcome=oc, backed=bool(e.get("backed")), filtered=bool(e.get("filtered")), recorded=recorded,
                                 late=is_late[i - 1], saveas=e["saveas"], elems=elems))
            stats["late"] += int(is_late[i - 1])
            stats["failed_" + ("backed" if e.get("backed") else "alone")] += int(oc not in ("ok", "skip"))
            stats["filtered"] += int(bool(e.get("filtered")))
        events.append(dict(ev="collected", comps=centries, pooled=self.pooled))
        # ---- persisted
        docs, env = [], []
        for i, (comp, name) in enumerate(zip(comps, names), 1):
            path = os.path.join(self.out, "meta_data", name + ".json")
            d = dict(present=os.path.exists(path), readable=False, shape=True, name=0, nerrors=0, hasres=False,
                     multi=False, res=[])
            if d["present"]:
                try:
                    with open(path) as f:
                        doc = json.load(f)
                    d["readable"] = isinstance(doc, dict)
                except ValueError:
                    doc = None
                if d["readable"]:
                    d["name"] = i if doc.get("name") == name else 0
                    d["nerrors"] = len(doc.get("errors") or [])
                    res = doc.get("results")
                    d["hasres"] = bool(res)
                    d["multi"] = isinstance(res, list)
                    for r in (res if isinstance(res, list) else ([res] if res else [])):
                        o = r.get("object", {})
                        d["res"].append(dict(rel=o.get("relative_path", ""), cmd=o.get("cmd") or "",
                                             args=self.args_proj(o.get("args"))))
                    stats["docs"] += 1
                    stats["docs_with_results"] += int(d["hasres"])
                    stats["late_persisted"] += int(d["hasres"] and is_late[i - 1])
                    stats["docs_with_errors"] += int(d["nerrors"] > 0)
            docs.append(d)
            for j, r in enumerate(d["res"], 1):
                rec = dict(lines=[], joined=[], file=[], split=[])
                if (i, j) in before_text and len(d["res"]) == len(centries[i - 1]["elems"]):
                    rec["lines"] = self.lines_tok(before_text[(i, j)])
                    rec["joined"] = self.file_tok("\n".join(before_text[(i, j)]))
                fp = os.path.join(self.out, "data", r["rel"])
                if os.path.isfile(fp):
                    with open(fp, "rb") as f:
                        rec["file"] = self.file_tok(f.read().decode("utf-8", "surrogateescape"))
                    with open(fp, "r", encoding="utf-8", errors="surrogateescape") as f:
                        rec["split"] = self.lines_tok([x.rstrip("\n") for x in f])
                    stats["datafiles"] += 1
                env.append(rec)
        events.append(dict(ev="persisted", docs=docs, env=env))
        # ---- corrupt
        fault = list(case["fault"])
        applied = []
        for i, (mode, name) in enumerate(zip(fault, names), 1):
            path = os.path.join(self.out, "meta_data", name + ".json")
            how = mode
            if mode != "none" and not os.path.exists(path):
                fault[i - 1] = "none"        # nothing was persisted for this component: nothing to damage
                how = "none"
            elif mode == "deleted":
                os.unlink(path)
            elif mode == "truncated":
                with open(path, "rb") as f:
                    raw = f.read()
                cut = self.rng.randrange(0, max(1, len(raw) - 1))
                with open(path, "wb") as f:
                    f.write(raw[:cut])
                how = "truncated@%d/%d" % (cut, len(raw))
            elif mode == "nonjson":
                junk = self.rng.choice([b"not json {", b"\x00\x01\x02", b"\xff\xfe\xfa", b"{'single': 'quotes'}", b"",
                                        b"<xml/>", b"[1, 2,"])
                with open(path, "wb") as f:
                    f.write(junk)
                how = "nonjson:%r" % junk
            elif mode == "unopenable":
                os.unlink(path)
                if self.rng.random() < 0.5:
                    os.mkdir(path)                                  # a directory named like the entry
                    how = "unopenable:directory"
                else:
                    os.symlink(os.path.join(self.out, "no-such-target"), path)   # a dangling symlink
                    how = "unopenable:dangling-symlink"
            elif mode in ("unknown", "shape"):
                with open(path) as f:
                    doc = json.load(f)
                if mode == "unknown":
                    doc["name"] = self.rng.choice(["no.such.module.component", name + "_gone", "", "insights"])
                    how = "unknown:%s" % doc["name"]
                else:
                    k = self.rng.randrange(8)
                    how = "shape:%d" % k
                    res = doc.get("results")
                    first = (res[0] if isinstance(res, list) else res) if res else None
                    if k == 0:
                        doc = [1, 2]
                    elif k == 1:
                        doc.pop("name", None)
                    elif k == 2:
                        doc.pop("results", None)
                    elif k == 3 and first:
                        first["type"] = "no.such.Provider"
                    elif k == 4 and first:
                        first["object"].pop("relative_path", None)
                    elif k == 5:
                        doc["results"] = "a string"
                    elif k == 6 and first:
                        first.pop("object", None)
                    else:
                        doc = {"name": name}
                with open(path, "w") as f:
                    json.dump(doc, f)
            elif mode == "datagone":
                rels = docs[i - 1]["res"]
                if not rels:
                    fault[i - 1] = "none"
                    how = "none"
                else:
                    victims = rels if self.rng.random() < 0.5 else [self.rng.choice(rels)]
                    for r in victims:
                        fp = os.path.join(self.out, "data", r["rel"])
                        if os.path.exists(fp):
                            os.unlink(fp)
            applied.append(how)
            stats["faults"] += int(how != "none")
        events.append(dict(ev="corrupt", fault=fault, how=applied))
        # ---- hydrate into a fresh broker
        with open(os.path.join(self.out, "insights_archive.txt"), "w"):
            pass
        escaped, exc = False, ""
        fresh = dr.Broker()
        try:
            if via == "init":
                _ctx, fresh = initialize_broker(self.out)
                if not isinstance(_ctx, SerializedArchiveContext):
                    raise RuntimeError("archive not recognised as a serialized archive: %r" % _ctx)
            else:
                ctx = SerializedArchiveContext(self.out)
                fresh = Hydration(self.out, ctx=ctx).hydrate(dr.Broker())
        except Exception as ex:
            escaped, exc = True, "%s: %s" % (type(ex).__name__, ex)
        HIST["loads"] += 1
        loaded = []
        for i, comp in enumerate(comps, 1):
            present = comp in fresh
            v = fresh.get(comp) if present else None
            vals = v if isinstance(v, list) else ([] if v is None else [v])
            elems = []
            for p in vals:
                try:
                    ls = self.lines_tok(self.content_lines(p))
                except Exception as ex:
                    ls = [["x:unreadable-%s" % type(ex).__name__]]
                elems.append(dict(lines=ls, cmd=getattr(p, "cmd", None) or "", args=self.args_proj(getattr(p, "args", None)),
                                  rel=getattr(p, "relative_path", "") or ""))
            loaded.append(dict(present=bool(present and vals), multi=isinstance(v, list), elems=elems))
            stats["loaded"] += int(bool(present and vals))
            stats["late_loaded"] += int(bool(present and vals) and is_late[i - 1])
        events.append(dict(ev="hydrated", via=via, escaped=escaped, exc=exc, order=list(_ORDER["last"]), loaded=loaded))
        stats["archives"] += 1
        shutil.rmtree(self.dir, True)
        return dict(id=case["id"], events=events)


def main():
    logging.disable(logging.CRITICAL)
    with open(sys.argv[1]) as f:
        req = json.load(f)
    rng = random.Random(req.get("seed", 0))
    _ORDER["rng"] = random.Random(req.get("seed", 0) + 1)
    os.makedirs(req["base"], exist_ok=True)
    stats = dict(late=0, late_persisted=0, late_loaded=0, filtered=0, failed_backed=0, failed_alone=0, pooled=0, archives=0, docs=0, docs_with_results=0, docs_with_errors=0, datafiles=0, faults=0, loaded=0)
    traces = []
    for k, case in enumerate(req["cases"]):
        c = Case(case, req["base"], rng, req.get("longlen", 70000))
        traces.append(c.run(case.get("via") or ("init" if k % 2 else "hydrate"), stats))
    with open(sys.argv[2], "w") as f:
        json.dump(dict(traces=traces, stats=stats), f, separators=(",", ":"))


if __name__ == "__main__":
    main()
