#!/usr/bin/env python3
"""Queue runner for seedtest.py: `seedq.py <queue file> [workers]`.

Each line of the queue file is `<dir> <property> [flags]` (dir holds patch.diff demo.py meta.json); lines may be
appended while it runs; a line `STOP` ends it. Finished lines go to <queue file>.done, logs to /tmp/seedtest-<name>.log.
"""
import os
import subprocess
import sys
import threading
import time

HERE = os.path.dirname(os.path.abspath(__file__))
q = sys.argv[1]
workers = int(sys.argv[2]) if len(sys.argv) > 2 else 3
lock = threading.Lock()
taken = set()
stop = []


def nxt():
    with lock:
        done = set(open(q + ".done").read().split("\n")) if os.path.exists(q + ".done") else set()
        for line in open(q).read().split("\n"):
            line = line.strip()
            if line == "STOP":
                stop.append(1)
                continue
            if line and line not in done and line not in taken:
                taken.add(line)
                return line
    return None


def work():
    while True:
        line = nxt()
        if line is None:
            if stop:
                return
            time.sleep(5)
            continue
        name = os.path.basename(os.path.normpath(line.split()[0]))
        with open("/tmp/seedtest-%s.log" % name, "w") as f:
            try:
                subprocess.run("python3 %s/seedtest.py %s" % (HERE, line), shell=True, stdin=subprocess.DEVNULL,
                               stdout=f, stderr=subprocess.STDOUT, timeout=3 * 3600)
            except Exception as e:
                f.write("\nRUNNER: %r\n" % e)
        with lock:
            with open(q + ".done", "a") as f:
                f.write(line + "\n")


ts = [threading.Thread(target=work) for _ in range(workers)]
for t in ts:
    t.start()
for t in ts:
    t.join()
