"""C01-C04: dependency engine.  Model: specs/DrEngine.tla (+ DrEngineMC emission),
trace validation: specs/DrTrace.tla, driver: harness/drive_dr.py."""
import os
import random
import time

import lib

ALL_INV = ["AtMostOnce", "DepsBefore", "SeedsPreserved", "OnlyGraphRuns", "FiresIff", "MissingExact",
           "ArgBinding", "DisabledNeverFires", "NothingElsewhere", "Accounted", "NoPhantomExc",
           "Isolation", "Confluence", "PartitionExact", "OneWorkerPerSub"]

CLAUSE_PROP = [
    ("AtMostOnce", "C01"), ("DepsBefore", "C01"), ("SeedsPreserved", "C01"), ("OnlyGraphRuns", "C01"),
    ("ObserversExact", "C01"),
    ("FiresIff", "C02"), ("ArgBinding", "C02"), ("MissingExact", "C02"), ("DisabledNeverFires", "C02"),
    ("NoEscape", "C03"), ("Isolation", "C03"), ("NothingElsewhere", "C03"), ("Accounted", "C03"),
    ("SkipRecorded", "C03"), ("NoPhantomExc", "C03"),
    ("PartitionExact", "C04"), ("OneWorkerPerSub", "C04"), ("sub.", "C04"), ("att.", "C04"), ("Confluence", "C04"),
]


def prop_of_clause(clause):
    for pre, p in CLAUSE_PROP:
        if clause.startswith(pre):
            return p
    return "C04"


def cfg_text(c, emit, sim=False):
    def s(xs):
        return "{" + ", ".join('"%s"' % x for x in xs) + "}"

    def b(x):
        return "TRUE" if x else "FALSE"
    lines = ["SPECIFICATION %s" % ("SpecSim" if sim else "Spec"), "CONSTANTS",
             "  N = %d" % c["N"], "  KindSet = %s" % s(c["kinds"]), "  OutSet = %s" % s(c["outs"]),
             "  ElemOutSet = %s" % s(c.get("eouts", ["val"])), "  MaxItems = %d" % c["items"],
             "  MaxGrp = %d" % c.get("grp", 2), "  ListLen = %d" % c.get("listlen", 2),
             "  AllowDisabled = %s" % b(c.get("disabled")), "  AllowSeeded = %s" % b(c.get("seeded")),
             "  AllowOutOfGraph = %s" % b(c.get("oog")), "  AllowIgnore = %s" % b(c.get("ignore")),
             "  SSSet = {%s}" % ", ".join(b(x) for x in c.get("ss", [False])),
             "  ModeSet = %s" % s(c.get("modes", ["single"])), "  Workers = %d" % c.get("workers", 1),
             "  ArchSet = {%s}" % ", ".join(b(x) for x in c.get("arch", [False]))]
    lines += ["INVARIANT %s" % i for i in ALL_INV]
    if emit:
        lines.append("CONSTRAINT Emit")
    lines.append("CHECK_DEADLOCK FALSE")
    return "\n".join(lines) + "\n"


# Exhaustive configurations.  Each is a complete enumeration of all programs of
# the stated shape and all their schedules.
CONFIGS = {
    # every declaration shape (<=2 items, groups <=2) over 3 plain components, 3 outcomes, all schedules
    "shapes3": dict(N=3, kinds=["plain"], outs=["val", "skip", "crash"], items=2),
    # seeds, disabled, out-of-graph on smaller declarations
    "seeds3": dict(N=3, kinds=["plain"], outs=["val"], items=1, grp=1, seeded=True, disabled=True,
                   oog=True),
    "ignore3": dict(N=3, kinds=["plain", "rule"], outs=["val"], items=1, grp=1, seeded=True, ignore=True,
                    ss=[False, True]),
    # all kinds x one-item declarations, None values
    "kinds3": dict(N=3, kinds=["plain", "datasource", "parser", "combiner", "rule", "condition"],
                   outs=["val", "none", "falsy", "skip"], items=1, grp=2, eouts=["val"]),
    "rules3": dict(N=3, kinds=["rule", "condition", "combiner"], outs=["val", "none", "crash"], items=2,
                   grp=2, disabled=False),
    # fault placement with registry points and multi-output parsers, skip recording on and off
    "faults3": dict(N=3, kinds=["datasource", "parser", "point", "combiner"],
                    outs=["val", "list", "cmd", "skip"], eouts=["val", "skip", "crash"], items=1,
                    ss=[False, True]),
    "faults3b": dict(N=3, kinds=["datasource", "parser", "point"],
                     outs=["list", "content", "timeout", "crash"], eouts=["val", "none", "content", "cmd"],
                     items=1, grp=1, ss=[False, True]),
    "faults4": dict(N=4, kinds=["datasource", "point", "parser"], outs=["val", "cmd", "crash"],
                    eouts=["val"], items=1, grp=2, ss=[True]),
    # scheduling: sub-graphs, incremental, pool of 2, every interleaving (model only, no emission)
    "pool4a": dict(N=4, kinds=["plain"], outs=["val", "crash"], items=1, grp=1, modes=["incr", "pool"], workers=2),
    "pool4b": dict(N=4, kinds=["plain"], outs=["val"], items=1, grp=1, modes=["pool"], workers=2, oog=True),
    "pool3": dict(N=3, kinds=["plain", "datasource"], outs=["val", "skip", "cmd"], items=1, grp=2,
                  modes=["incr", "pool"], workers=2, ss=[False, True]),
    "lin4": dict(N=4, kinds=["plain"], outs=["val", "skip"], items=1, grp=2),
    # smaller variants for the quick tier
    "kinds3q": dict(N=3, kinds=["plain", "datasource", "parser", "combiner", "rule", "condition"],
                    outs=["val", "none"], items=1, grp=1),
    # real values that are false in a boolean context
    "falsy3": dict(N=3, kinds=["plain", "datasource", "combiner", "condition"], outs=["val", "falsy"], items=1, grp=2),
    # registry points with zero, one or two implementations (a member-less at-least-one group)
    "points3": dict(N=3, kinds=["datasource", "point", "rule"], outs=["val", "skip"], items=1, grp=2),
    "rules3q": dict(N=3, kinds=["rule", "combiner"], outs=["val", "none"], items=2, grp=2),
    "dis3q": dict(N=3, kinds=["plain", "rule"], outs=["val"], items=1, grp=2, disabled=True),
    "faults3q": dict(N=3, kinds=["datasource", "parser", "point"], outs=["val", "list", "cmd", "skip"],
                     eouts=["val", "skip", "crash"], items=1, grp=1, ss=[False, True]),
    # per-element faults of multi-output parsers, every fault kind, continue_on_error on/off
    "elems3": dict(N=3, kinds=["datasource", "parser"], outs=["list", "val"],
                   eouts=["val", "skip", "content", "crash"], items=1, grp=1, ss=[False, True]),
    "elems3full": dict(N=3, kinds=["datasource", "parser"], outs=["list", "val"],
                       eouts=["val", "none", "skip", "content", "cmd", "timeout", "crash"], items=1, grp=1, ss=[False, True]),
    # missing requirements: required and at-least-one unmet at the same time, rules and plain components
    "miss3q": dict(N=3, kinds=["plain", "rule"], outs=["val", "skip"], items=2, grp=2),
    # graphs that are not dependency-closed (caller-supplied sub-dictionaries), None seeds
    "oog3": dict(N=3, kinds=["plain"], outs=["val", "none"], items=1, grp=1, oog=True, seeded=True),
    # analysis of a collected archive: the broker holds a SerializedArchiveContext and components loaded
    # from the archive (seeded); dr.run drops their direct dependencies from the graph
    "arch3": dict(N=3, kinds=["plain"], outs=["val"], items=2, grp=1, seeded=True, arch=[True]),
    # a free-standing datasource and a spec meet in one consumer; two implementations of one spec both fail
    "faultsP": dict(N=3, kinds=["datasource", "point"], outs=["val", "crash", "cmd"], items=1, grp=2, ss=[False, True]),
    # a consumer built directly on a plain datasource that is itself built on a spec, failing: under which
    # registry points the failure is filed must not depend on the driver (single pass / sub-graphs / pool)
    "faultsX": dict(N=3, kinds=["datasource", "combiner", "parser", "point"], outs=["val", "crash"], eouts=["val"],
                    items=1, grp=1, ss=[False], keep=2500),
    "faults3c": dict(N=3, kinds=["datasource", "combiner", "point"], outs=["val", "content", "timeout", "crash"],
                     items=1, grp=2, ss=[False, True]),
}

PLAN = {
    "C01": dict(quick=["shapes3", "seeds3", "arch3"], thorough=["shapes3", "seeds3", "lin4", "ignore3", "oog3", "arch3"],
                drivers=["forced", "run", "closure", "incr", "group", "afterincr", "pool1", "rerun"]),
    "C02": dict(quick=["kinds3q", "miss3q", "dis3q", "points3", "falsy3"],
                thorough=["kinds3", "rules3", "miss3q", "dis3q", "points3", "falsy3", "shapes3", "ignore3"],
                drivers=["forced", "run", "rerun", "group"]),
    "C03": dict(quick=["faults3q", "faults3c", "elems3"], thorough=["faults3", "faults3b", "faults3c", "faults4", "rules3", "elems3full"],
                drivers=["forced", "run"]),
    "C04": dict(quick=["lin4", "oog3", "arch3", "faultsP", "faultsX"], thorough=["lin4", "oog3", "arch3", "faultsP", "faultsX", "seeds3", "faults3q", "shapes3", "miss3q"],
                drivers=["forced", "run", "incr", "group", "pool2", "pool3s"],
                model_only=dict(quick=["pool4a"], thorough=["pool4a", "pool4b", "pool3"])),
}

# a second, narrower simulation for C03: stand-alone datasources, specs and their consumers with hard failures
SIMF = dict(N=4, kinds=["datasource", "point", "combiner", "parser"], outs=["val", "crash", "cmd"],
            eouts=["val", "crash"], items=2, grp=2, ss=[False, True])
SIM = dict(arch=[False, True], N=5, kinds=["plain", "datasource", "parser", "combiner", "rule", "condition", "point"],
           outs=["val", "none", "falsy", "list", "skip", "content", "cmd", "timeout", "crash"],
           eouts=["val", "none", "skip", "content", "cmd", "crash"], items=3, grp=2, seeded=True,
           disabled=True, oog=True, ignore=True, ss=[False, True])

ASSUMPTIONS = [
    "component bodies are deterministic and generated by the driver; their outcome is an input",
    "bounds: exhaustive for the listed configurations only; larger programs by TLC -simulate",
    "pooled driver runs under the GIL; interleavings finer than one component attempt are not explored",
    "hash seeds / address layouts are sampled (one PYTHONHASHSEED per worker process)",
]


NEEDED = {
    "C01": ["invoked", "seeded-not-recomputed", "outside-graph-dependency", "engine-chosen-order", "target-closure"],
    "C02": ["invoked", "missing-reported", "rule-skip-response", "disabled", "none-argument", "group-satisfied-by-one"],
    "C03": ["failure-recorded", "skip-recorded", "element-calls", "failing-observers", "filed-under-registry-point",
            "time-limited-datasource-attempt-failed"],
    "C04": ["several-subgraphs", "pool-threads", "cross-run-comparisons", "engine-chosen-order"],
}


def trace_features(traces):
    """Vacuity control on the implementation side: how often the recorded executions exercised each
    situation the properties talk about (counted from the traces, not from the cases)."""
    f = {}

    def bump(k, n=1):
        f[k] = f.get(k, 0) + n
    for t in traces:
        prog = t["prog"]
        if "/obsfail" in t["id"]:
            bump("failing-observers")
        drv = t["id"].split("/")[1] if "/" in t["id"] else ""
        if drv.startswith(("run", "closure", "incr", "pool")):
            bump("engine-chosen-order")
        if drv.startswith("closure"):
            bump("target-closure")
        subs = [e for e in t["events"] if e["ev"] == "sub"]
        if len(subs) > 1:
            bump("several-subgraphs")
        if len(set(e.get("w") for e in t["events"] if e["ev"] == "att")) > 1:
            bump("pool-threads")
        for e in t["events"]:
            if e["ev"] == "same":
                bump("cross-run-comparisons")
                continue
            if e["ev"] != "att":
                continue
            p = prog[e["c"] - 1]
            if e["calls"]:
                bump("invoked")
                if any(c["el"] for c in e["calls"]):
                    bump("element-calls")
                if any(a["k"] == "none" for c in e["calls"] for a in c["args"]):
                    bump("none-argument")
                if p["grp"] and any(sum(1 for a in c["args"] if a["k"] != "none") < len(c["args"]) for c in e["calls"]):
                    bump("group-satisfied-by-one")
            if t.get("host") and p["kind"] == "datasource" and e["calls"]:
                bump("time-limited-datasource-attempt")
                if e["recs"] or e["v"]["k"] == "absent":
                    bump("time-limited-datasource-attempt-failed")
            if e["m"]["set"]:
                bump("missing-reported")
            if e["v"]["k"] == "skipresp":
                bump("rule-skip-response")
            if p["seeded"]:
                bump("seeded-not-recomputed")
            if not p["enabled"]:
                bump("disabled")
            if not p["ingraph"]:
                bump("outside-graph-dependency")
            for r in e["recs"]:
                bump("skip-recorded" if r["kind"] == "skip" else "failure-recorded")
                if r["under"] != r["by"] and r["under"]:
                    bump("filed-under-registry-point")
    return f


def corrupt(trace, rng):
    """One field of an accepted trace is falsified in a way that cannot yield another behaviour of the
    specification; returns (corrupted trace, expected clause prefix) or None."""
    import copy
    t = copy.deepcopy(trace)
    atts = [i for i, e in enumerate(t["events"]) if e["ev"] == "att" and t["prog"][e["c"] - 1]["ingraph"]]
    if not atts:
        return None
    kind = rng.choice(["dup", "drop", "value", "call"])
    i = rng.choice(atts)
    e = t["events"][i]
    if kind == "dup":
        t["events"].insert(i + 1, copy.deepcopy(e))
        want = "AtMostOnce"
    elif kind == "drop":
        del t["events"][i]
        want = ""           # later events of dependents or the end event reject it (several clauses possible)
    elif kind == "value":
        e["v"] = dict(e["v"], k=("absent" if e["v"]["k"] != "absent" else "v"), c=(0 if e["v"]["k"] != "absent" else e["c"]),
                      xs=[], mr=[], mg=[])
        want = ""
    else:
        if not e["calls"]:
            return None
        e["calls"] = e["calls"][:-1]
        want = "FiresIff"
    t["id"] = t["id"] + "/corrupt-" + kind
    return t, want


def selftest(traces, rejected_ids, rng, n):
    """Binding demonstration (R5): corrupted copies of accepted traces must all be rejected."""
    ok = [t for t in traces if t["id"] not in rejected_ids and any(e["ev"] == "att" for e in t["events"])]
    rng.shuffle(ok)
    bad = []
    for t in ok:
        c = corrupt(t, rng)
        if c:
            bad.append(c)
        if len(bad) >= n:
            break
    if not bad:
        raise lib.MachineryError("self-test: no trace could be corrupted")
    val = lib.validate_traces("DrTrace", "DrTrace.cfg", [b[0] for b in bad], jobs=2)
    rej = dict((r["id"], r["clause"]) for r in val["rejected"])
    missed = [b[0]["id"] for b in bad if b[0]["id"] not in rej]
    wrong = [(b[0]["id"], rej[b[0]["id"]]) for b in bad if b[0]["id"] in rej and b[1] and not rej[b[0]["id"]].startswith(b[1])]
    if missed or wrong:
        raise lib.MachineryError("self-test: corrupted traces accepted %s / rejected by an unexpected clause %s"
                                 % (missed[:3], wrong[:3]))
    return len(bad)


def case_key(c):
    return lib.hashlib.sha1(lib.json.dumps([c["prog"], c["ss"], c.get("arch", False)], sort_keys=True).encode()).hexdigest()


def features(case):
    """Abstract features of a case used in violation signatures."""
    kinds = sorted(set(p["kind"] for p in case["prog"]))
    outs = sorted(set(p["outc"] for p in case["prog"]))
    return "kinds=%s;outs=%s;ss=%s" % ("+".join(kinds), "+".join(outs), int(bool(case["ss"])))


def run(prop, tier):
    rng = random.Random(lib.seed())
    plan = PLAN[prop]
    models = []
    cases = []
    t0 = time.time()
    specdir = lib.SPECS
    gen = lib.subdir("gencfg")
    import concurrent.futures
    jobs = []
    for name in plan[tier]:
        cfgp = os.path.join(gen, "DrEngineMC_%s.cfg" % name)
        with open(cfgp, "w") as f:
            f.write(cfg_text(CONFIGS[name], True))
        jobs.append((name, "DrEngineMC", cfgp, {}))
    for name in plan.get("model_only", {}).get(tier, []):
        cfgp = os.path.join(gen, "DrEngine_%s.cfg" % name)
        with open(cfgp, "w") as f:
            f.write(cfg_text(CONFIGS[name], False))
        jobs.append((name, "DrEngine", cfgp, {}))
    # simulation over the full product (programs of 5 components, all kinds, all outcomes)
    nsim = 2000 if tier == "quick" else 40000
    cfgp = os.path.join(gen, "DrEngineMC_sim.cfg")
    with open(cfgp, "w") as f:
        f.write(cfg_text(SIM, True, sim=True))
    if prop == "C03":
        cfgf = os.path.join(gen, "DrEngineMC_simf.cfg")
        with open(cfgf, "w") as f:
            f.write(cfg_text(SIMF, True, sim=True))
        jobs.append(("simf", "DrEngineMC", cfgf, dict(simulate=3000 if tier == "quick" else 30000, depth=40,
                                                      tlc_seed=lib.seed() + 23, workers=1)))
    # (RandomElement draws from one seeded stream: several simulation workers would emit the same cases)
    jobs.append(("sim", "DrEngineMC", cfgp, dict(simulate=nsim, depth=40, tlc_seed=lib.seed() + 17, workers=1)))

    def one(job):
        name, mod, cfgp, kw = job
        kw = dict(kw)
        if name == plan[tier][0]:
            kw["coverage"] = True       # per-action counts (vacuity control on the model side)
        kw.setdefault("workers", max(4, lib.NCPU // 2))
        r = lib.run_tlc(mod, cfgp, tag="dr-" + name, timeout=2400, raw_cases=True, **kw)
        return name, lib.require_ok(r, "DrEngine model " + name)

    raw = []
    with concurrent.futures.ThreadPoolExecutor(max_workers=3) as ex:
        for name, r in ex.map(one, jobs):
            raw.extend((name, i, line) for i, line in enumerate(r.cases))
            r.cases = []
            models.append(r)
    cov = models[0].coverage if models else {}
    for m in models:
        if m.coverage:
            cov = m.coverage
    # (Take / Attempt sit under the existential of Next and are reported under Next's location; Finish
    #  is only enabled once every component was attempted, so its count stands for theirs)
    dead = [a for a in ("Define", "StartRun", "Finish") if not cov.get(a)]
    if dead:
        raise lib.MachineryError("vacuous model run: actions never taken: %s (coverage %s)" % (dead, cov))
    emitted = len(raw)
    cap = (8000 if len(plan["drivers"]) > 4 else (20000 if len(plan["drivers"]) > 2 else 30000)) if tier == "quick" else (120000 if len(plan["drivers"]) > 2 else 300000)
    rng.shuffle(raw)
    # the model runs stay exhaustive; the replay takes a VERIF_SEED-determined sample when over budget.
    # Small configurations written for one situation ("keep") are replayed with at least that many
    # behaviours whatever the seed, so that what they are there for does not depend on the draw.
    kept, rest = [], []
    quota = dict((n, CONFIGS[n].get("keep", 0)) for n in CONFIGS)
    for item in raw:
        if quota.get(item[0], 0) > 0:
            quota[item[0]] -= 1
            kept.append(item)
        else:
            rest.append(item)
    raw = kept + rest
    for name, i, line in raw[:max(cap, len(kept))]:
        c = lib.parse_case(line)
        c["id"] = "%s#%d" % (name, i)
        c["cfg"] = name
        c["variant"] = rng.randrange(6)
        cases.append(c)
    nprog_all = None
    del raw
    seen = set()
    for c in cases:
        k = case_key(c)
        c["dup"] = k in seen
        seen.add(k)
    nprog = len(seen)
    print("timing: models %.1fs, %d behaviours emitted, %d replayed" % (time.time() - t0, emitted, len(cases)))
    t1 = time.time()
    bycase_early = dict((c["id"], c) for c in cases)
    payloads = [dict(cases=ch, drivers=plan["drivers"], npad=6, listlen=2, obsfail_every=3)
                for ch in lib.chunks(cases, lib.NCPU * 2)]
    outs = lib.run_driver_parallel("drive_dr.py", payloads, hashseeds=list(range(0, 64)), timeout=1500)
    traces = []
    for o in outs:
        traces.extend(o["traces"])
    if prop == "C04":
        # the same programs once more through dr.run in processes with other hash seeds, then one
        # "same" trace per program: every run must leave exactly the same values, missing-dependency
        # reports (order included) and recorded failures as the first one
        p2 = [dict(cases=[c for c in ch if not c["dup"]], drivers=["run"], npad=6, listlen=2, obsfail_every=0,
                   idtag="@B", flip=1) for ch in lib.chunks(cases, lib.NCPU)]
        for o in lib.run_driver_parallel("drive_dr.py", p2, hashseeds=list(range(101, 140)), timeout=1500):
            traces.extend(o["traces"])
        groups = {}
        for t in traces:
            if t.get("final") is not None:
                # (the same abstract program concretised with and without the shared execution context is
                #  two programs: the declared ignore sets differ)
                groups.setdefault((case_key(bycase_early[t["id"].split("/")[0]]),
                                   lib.json.dumps([q["ignore"] for q in t["prog"]])), []).append(t)
        nsame = 0
        for k, ts in groups.items():
            if len(ts) < 2:
                continue
            first = ts[0]
            traces.append(dict(id=first["id"].split("/")[0] + "/same", prog=first["prog"], ss=first["ss"], mode="single",
                               closure=False, strict=True, arch=False, miss0=first.get("miss0", []),
                               workers=1, final=None,
                               events=[dict(ev="same", ra=first["id"], rb=t["id"], a=first["final"], b=t["final"])
                                       for t in ts[1:]]))
            nsame += len(ts) - 1
        print("cross-run comparisons: %d" % nsame)
    for t in traces:
        t.pop("final", None)
        if prop != "C04":
            t["strict"] = False     # the split into sub-graphs is C04's; the other checks take it as observed
    feats = trace_features(traces)
    lacking = [k for k in NEEDED[prop] if not feats.get(k)]
    if lacking:
        raise lib.MachineryError("vacuous run: the recorded executions never exercised %s" % lacking)
    print("timing: drivers %.1fs, %d traces" % (time.time() - t1, len(traces)))
    t1 = time.time()
    val = lib.validate_traces("DrTrace", "DrTrace.cfg", traces)
    print("timing: validation %.1fs (%d events, %d JVMs)" % (time.time() - t1, val["events"], val["jvms"]))

    bycase = dict((c["id"], c) for c in cases)
    verdict = lib.Verdict(prop, tier)
    rejected_ids = dict((r["id"], r) for r in val["rejected"])
    if prop == "C02":
        # executions rejected for the order of their attempts (C01's clause) get a second look against the
        # final broker: what the wrong order did to "invoked if and only if" is C02's to decide
        again = []
        for t in traces:
            rj = rejected_ids.get(t["id"])
            if rj and rj["clause"].startswith("DepsBefore") and len(again) < 2000:
                again.append(dict(t, lenient=True))
        if again:
            val2 = lib.validate_traces("DrTrace", "DrTrace.cfg", again, jobs=2)
            for r in val2["rejected"]:
                if prop_of_clause(r["clause"]) == "C02":
                    rejected_ids[r["id"]] = r
    nself = selftest(traces, rejected_ids, rng, 40 if tier == "quick" else 400)
    per_case = {}
    for t in traces:
        cid = t["id"].split("/")[0]
        per_case.setdefault(cid, []).append(t)
    other = {}
    for t in traces:
        rj = rejected_ids.get(t["id"])
        if not rj:
            continue
        cid = t["id"].split("/")[0]
        case = bycase[cid]
        clause = rj["clause"]
        owner = prop_of_clause(clause)
        drv = t["id"].split("/")[1]
        siblings = per_case[cid]
        some_accepted = any(s["id"] not in rejected_ids for s in siblings)
        mine = owner == prop or (prop == "C04" and some_accepted and owner != "C04")
        if prop == "C04" and owner != "C04" and not some_accepted:
            mine = False
        if mine:
            what = "trace %s rejected at event %d: clause %s" % (t["id"], rj["line"], clause)
            if prop == "C04" and owner != "C04":
                clause = "ScheduleDependent(" + clause + ")"
            verdict.reject(lib.sig(prop, clause, "ss=%d" % int(bool(case["ss"]))), what,
                           dict(case=case, driver=drv, trace=t, rejected=rj))
        else:
            other[clause] = other.get(clause, 0) + 1
    for cl, n in sorted(other.items()):
        print("note: %d trace(s) rejected by clause %s which belongs to %s (not decided by this check)"
              % (n, cl, prop_of_clause(cl)))

    nontrivial = len(set(case_key(c) for c in cases if any(p["flat"] for p in c["prog"])))
    samples = [dict(case=dict(prog=[dict(kind=p["kind"], decl=p["decl"], outc=p["outc"]) for p in c["prog"]],
                              ss=c["ss"], schedule=[a["c"] for a in c["att"]]))
               for c in cases[:3]]
    if traces:
        samples.append(dict(trace_id=traces[0]["id"], events=traces[0]["events"][:4]))
    ev = lib.evidence(
        prop, tier, models, val, evaluations=len(traces), distinct_nontrivial=nontrivial,
        rule="cases = every program x schedule TLC explored in the listed exhaustive configurations plus "
             "-simulate behaviours; each is concretised with the real decorators and executed by each driver "
             "(%s); distinct_nontrivial = distinct programs (decl/kind/outcome/flags, store_skips) having at "
             "least one dependency edge" % ",".join(plan["drivers"]),
        samples=samples, assumptions=ASSUMPTIONS,
        extra=dict(configs=plan[tier] + plan.get("model_only", {}).get(tier, []) + ["sim(%d)" % nsim],
                   distinct_programs_emitted=nprog, behaviours_emitted=emitted, behaviours_replayed=len(cases),
                   invariants_checked_on_model=ALL_INV, corrupted_traces_rejected_in_selftest=nself, situations_exercised_by_recorded_executions=feats,
                   other_property_rejections=other, exhaustive=False))
    return verdict.finish(ev)


def replay(prop, path):
    """Re-execute the recorded case against the current tree and validate it again."""
    with open(path) as f:
        rec = lib.json.load(f)
    rp = rec["replay"]
    case = rp["case"]
    drv = rp["driver"].split("@")[0]
    if drv == "same":
        print("cross-run comparison recorded for %s; the differing runs were:" % rec.get("signature"))
        for e in rp["trace"]["events"]:
            if e["a"] != e["b"]:
                print("  %s vs %s" % (e["ra"], e["rb"]))
                for k in ("inst", "missing", "recs"):
                    if e["a"][k] != e["b"][k]:
                        print("   ", k, lib.json.dumps(e["a"][k])[:400], "\n    vs", lib.json.dumps(e["b"][k])[:400])
        drv = "run"
    print("replaying %s: %s" % (rec.get("signature"), rec.get("what")))
    out = lib.run_driver("drive_dr.py", dict(cases=[dict(case, dup=False)], drivers=[drv], npad=6, listlen=2,
                                              obsfail_every=1 if "obsfail" in rp["trace"]["id"] else 0,
                                              flip=1 if "@B" in rp["driver"] else 0))
    traces = out["traces"]
    for t in traces:
        t.pop("final", None)
        t["strict"] = prop == "C04"
    val = lib.validate_traces("DrTrace", "DrTrace.cfg", traces)
    for t in traces:
        for e in t["events"]:
            print("  ", lib.json.dumps(e, sort_keys=True)[:300])
    if val["rejected"]:
        for r in val["rejected"]:
            print("REJECTED again: event %d clause %s" % (r["line"], r["clause"]))
        print("VIOLATION property=%s replay=%s" % (prop, path))
        return 1
    print("accepted on the current tree (the recorded violation does not reproduce)")
    return 0
