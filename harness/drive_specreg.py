"""Driver for SpecRegistry (C05): replays registration histories by creating real
SpecSet subclasses with type() (so SpecSetMeta, _resolve_registry_points,
_register_context_handler, dr.add_dependency and dr.add_ignore run), evaluates
them with dr.run under each active context / seeded broker and records what
happened.  Also exports the dependency DAGs of the shipped spec sets.  Contains
no oracle: the records are judged by specs/SpecRegistryTrace.tla.

usage: drive_specreg.py <in.json> <out.json>
in : {"histories":[{"id":..,"nctx":n,"impls":[{"k","cs","j"}],"evals":[{"active","outc","houtc","seeded"}]}],
      "seed": int, "shipped": bool, "shipped_modules": [...]}
out: {"traces":[..], "stats":{..}}
"""
import json
import logging
import random
import sys

from insights.core import dr
from insights.core.context import (ClusterArchiveContext, DockerImageContext, ExecutionContext, FSRoots,
                                   HostArchiveContext, HostContext, JDRContext, OpenStackContext,
                                   SerializedArchiveContext, SosArchiveContext)
from insights.core.exceptions import CalledProcessError, ContentException, SkipComponent
from insights.core.plugins import datasource, parser
from insights.core.spec_factory import RegistryPoint, SpecSet

# Execution contexts of the histories: shipped ones registered as file-system roots (@fs_root), a shipped one
# that is not (OpenStackContext), and generated third-party style ExecutionContext subclasses (no @fs_root; one
# of them a subclass of a shipped context: the broker is keyed by the exact class).
FS_POOL = [HostContext, HostArchiveContext, SosArchiveContext, DockerImageContext, ClusterArchiveContext,
           JDRContext]
PLAIN_POOL = [OpenStackContext,
              type("VerifThirdPartyContext", (ExecutionContext,), {"__module__": "verif_generated"}),
              type("VerifClusterLikeContext", (ExecutionContext,), {"__module__": "verif_generated"}),
              type("VerifHostDerivedContext", (HostContext,), {"__module__": "verif_generated"})]
CTX_POOL = FS_POOL + PLAIN_POOL

# Implementation FACTORIES: every class of insights.core.spec_factory whose constructor takes context=
# (simple_file, glob_file, first_file, listdir, listglob, simple_command, command_with_args, foreach_execute,
# foreach_collect, container_execute, container_collect, ... - enumerated from the tree, not listed here).  The
# real constructor runs (that is what wires the contexts); __call__ is replaced by the generated body so that
# which implementation executes is observable and its outcome is an input.
import inspect                                              # noqa: E402
from insights.core import spec_factory as _sf               # noqa: E402

_ARGS = {"path": "/verif/none", "paths": ["/verif/none", "/verif/none2"], "patterns": "/verif/*.none",
         "cmd": "/bin/true"}


def _factories():
    out = []
    for name, cls in sorted(vars(_sf).items()):
        if not (inspect.isclass(cls) and cls.__module__ == _sf.__name__):
            continue
        try:
            params = inspect.signature(cls.__init__).parameters
        except (TypeError, ValueError):
            continue
        if "context" not in params:
            continue
        req = [q.name for q in params.values() if q.default is inspect._empty and q.name != "self"
               and q.kind == q.POSITIONAL_OR_KEYWORD]
        if all(r in _ARGS or r == "provider" for r in req):
            out.append((name, cls, req))
    return out


FACTORIES = _factories()
assert not any(c in FSRoots for c in PLAIN_POOL)
OTHER = 99
FAILS = ["skip", "content", "crash", "cmd"]


class Val(object):
    def __init__(self, i):
        self.i = i


class History(object):
    """One concretised registration history."""
    count = 0

    def __init__(self, h, rng):
        History.count += 1
        self.uid = History.count
        self.h = h
        self.rng = rng
        self.nctx = h["nctx"]
        # by seed: only @fs_root contexts, only plain ones, or a mixture
        r = rng.random()
        pool = list(FS_POOL if r < 0.25 else (CTX_POOL if r < 0.75 else PLAIN_POOL + FS_POOL[:2]))
        if r >= 0.75:
            head, tail = pool[:len(PLAIN_POOL)], pool[len(PLAIN_POOL):]
            rng.shuffle(head)
            pool = head + tail
        else:
            rng.shuffle(pool)
        self.ctx = dict((i + 1, pool[i]) for i in range(self.nctx))     # abstract id -> context class
        self.plain_ctx = sum(1 for c in self.ctx.values() if c not in FSRoots)
        self.ctx_id = dict((v, k) for k, v in self.ctx.items())
        self.impl = {}        # index -> datasource
        self.helper = {}      # index -> helper datasource of a "via" implementation
        self.created = []     # every component object created (for cleanup)
        self.log = []         # invocation log of implementation bodies
        self.hlog = []
        self.outc = {}
        self.houtc = {}
        self.failmode = {}
        self.got = []         # what the consumer parser was handed
        self.name = "pt"
        extra = {}
        if rng.random() < 0.3:
            extra["other_point"] = RegistryPoint()
        self.base = type("VBase%d" % self.uid, (SpecSet,), dict({self.name: RegistryPoint()}, **extra))
        self.point = getattr(self.base, self.name)
        self.created.append(self.point)
        # levels: subclasses that RE-DECLARE the registry point (same name again); implementations of level l are
        # defined in direct subclasses of the class of level l
        self.levels = h.get("levels", 0)
        self.lvl_cls = [self.base]
        self.lvl_point = [self.point]
        for l in range(1, self.levels + 1):
            cls = type("VRefined%d_%d" % (self.uid, l), (self.lvl_cls[-1],), {self.name: RegistryPoint()})
            self.lvl_cls.append(cls)
            self.lvl_point.append(cls.registry[self.name])
            self.created.append(cls.registry[self.name])
        self.impl_cls = {}
        self.fact = {}
        if "other_point" in extra:
            self.created.append(self.base.other_point)
        hist = self

        def consumer(self_, content):   # stands for "the value handed to parsers"
            hist.got.append(content)

        consumer.__name__ = "VConsumer%d" % self.uid
        consumer.__module__ = "verif_generated"
        self.consumer = parser(self.point)(type("VConsumer%d" % self.uid, (object,), {"__init__": consumer}))
        self.created.append(self.consumer)

    def _fail(self, mode, who):
        if mode == "skip":
            raise SkipComponent("deliberate skip %s" % who)
        if mode == "content":
            raise ContentException("deliberate content error %s" % who)
        if mode == "cmd":
            raise CalledProcessError(1, "cmd-%s" % who, "boom")
        raise RuntimeError("deliberate crash %s" % who)

    def _ctx_decl(self, cs, force_list=False):
        cls = [self.ctx[c] for c in cs]
        if len(cls) == 1 and not force_list:
            return (cls[0],)
        return (cls,)

    def register(self, i, d):
        hist = self
        k = d["k"]

        def body(broker):
            hist.log.append(i)
            if hist.outc.get(i) == "val":
                return Val(i)
            hist._fail(hist.failmode.get(i, "skip"), "impl%d" % i)

        body.__name__ = "impl%d" % i
        body.__module__ = "verif_generated"
        self.fact[i] = "fn"
        if k in ("req", "any") and FACTORIES and self.rng.random() < 0.5:
            # declared through a spec_factory class: context=C or context=[C1, ..]
            fname, fcls, req = self.rng.choice(FACTORIES)
            kw = {}
            for r in req:
                if r == "provider":
                    def prov(broker):
                        return ["x"]
                    prov.__name__ = "provider%d_%d" % (self.uid, i)
                    prov.__module__ = "verif_generated"
                    pv = datasource()(prov)
                    self.created.append(pv)
                    kw[r] = pv
                else:
                    kw[r] = _ARGS[r]
            cls_ = [self.ctx[c] for c in d["cs"]]
            kw["context"] = cls_[0] if k == "req" else cls_
            logged = type("Verif_" + fname, (fcls,), {"__call__": lambda self_, broker: body(broker)})
            ds = logged(**kw)
            self.fact[i] = fname
            self._attach(i, d, ds)
            return
        if k == "req":
            deps = self._ctx_decl(d["cs"])
        elif k == "any":
            deps = self._ctx_decl(d["cs"], force_list=True)
        elif k == "via":
            def hbody(broker):
                hist.hlog.append(i)
                if hist.houtc.get(i) == "val":
                    return Val(-i)
                hist._fail(hist.failmode.get(-i, "skip"), "helper%d" % i)

            hbody.__name__ = "helper%d_%d" % (self.uid, i)
            hbody.__module__ = "verif_generated"
            h = datasource(*self._ctx_decl(d["cs"]))(hbody)
            self.helper[i] = h
            self.created.append(h)
            deps = (h,)
        else:
            deps = (self.impl[d["j"]],)
        ds = datasource(*deps)(body)
        self._attach(i, d, ds)

    def _attach(self, i, d, ds):
        dct = {self.name: ds}
        if self.rng.random() < 0.3:
            # an unrelated datasource in the same class body (no registry point of that name)
            def unrelated(broker):
                return None
            unrelated.__name__ = "unrelated%d_%d" % (self.uid, i)
            unrelated.__module__ = "verif_generated"
            u = datasource(self.ctx[1])(unrelated)
            dct["unrelated_%d" % i] = u
            self.created.append(u)
        if hasattr(self.base, "other_point") and self.rng.random() < 0.5:
            def oimpl(broker):
                return None
            oimpl.__name__ = "oimpl%d_%d" % (self.uid, i)
            oimpl.__module__ = "verif_generated"
            o = datasource(self.ctx[self.rng.randint(1, self.nctx)])(oimpl)
            dct["other_point"] = o
            self.created.append(o)
        self.impl_cls[i] = type("VImpl%d_%d" % (self.uid, i), (self.lvl_cls[d.get("lvl", 0)],), dct)
        self.impl[i] = ds
        self.created.append(ds)

    def deep_noise(self, i):
        """A sub-subclass of an implementation class defining the spec's name again: its base declares no
        registry point, so the metaclass must not register anything."""
        def deep(broker):
            self.log.append(OTHER)
            return Val(OTHER)
        deep.__name__ = "deep%d_%d" % (self.uid, i)
        deep.__module__ = "verif_generated"
        ds = datasource(self.ctx[self.rng.randint(1, self.nctx)])(deep)
        type("VDeep%d_%d" % (self.uid, i), (self.impl_cls[i],), {self.name: ds})
        self.created.append(ds)

    # -- projection of the real registries ---------------------------------
    def idx_of(self, comp):
        for i, o in self.impl.items():
            if o is comp:
                return i
        return OTHER

    def project(self, n):
        """Projection of the real bookkeeping (dr.IGNORE, SpecSet.context_handlers, the points' dependency
        lists).  These are INTERNAL tables: whatever cannot be read in the expected shape is reported as
        unreadable (rd[...] = False) and then not constrained by the trace specification - the verdict on such
        a tree comes from the evaluations alone."""
        rd = {"ignore": True, "handlers": True, "deps": True}
        ignore, handlers, deps = [], [], []
        try:
            for x in range(1, n + 1):
                entry = dr.IGNORE.get(self.impl[x], ())
                if not isinstance(entry, (set, frozenset, list, tuple)):
                    raise TypeError("unexpected IGNORE entry")
                ignore.append(sorted(self.ctx_id.get(c, OTHER) for c in entry))
        except Exception:
            rd["ignore"], ignore = False, []
        try:
            top = self.base.context_handlers
            if not isinstance(top, dict):
                raise TypeError("unexpected context_handlers")
            table = top.get(self.name, {})
            if not isinstance(table, dict):
                raise TypeError("unexpected context_handlers[name]")
            for c in range(1, self.nctx + 1):
                lst = table.get(self.ctx[c], [])
                if not isinstance(lst, (list, tuple)):
                    raise TypeError("unexpected handler list")
                handlers.append([self.idx_of(o) for o in lst])
            if [c for c in table if c not in self.ctx_id and table[c]]:
                handlers.append([OTHER])
        except Exception:
            rd["handlers"], handlers = False, []
        try:
            for l, pt in enumerate(self.lvl_point):
                nxt = self.lvl_point[l + 1] if l + 1 < len(self.lvl_point) else None
                deps.append([0 if o is nxt else self.idx_of(o) for o in dr.get_delegate(pt).deps])
        except Exception:
            rd["deps"], deps = False, []
        return ignore, handlers, deps, rd

    # -- evaluation --------------------------------------------------------
    def evaluate(self, e):
        n = len(self.h["impls"])
        self.log[:] = []
        self.hlog[:] = []
        self.got[:] = []
        self.outc = dict((i + 1, o) for i, o in enumerate(e["outc"]))
        self.houtc = dict((i + 1, o) for i, o in enumerate(e["houtc"]))
        self.failmode = dict((i, self.rng.choice(FAILS)) for i in list(range(-n, 0)) + list(range(1, n + 1)))
        broker = dr.Broker()
        arch = False
        if e["active"]:
            c = self.ctx[e["active"]]
            broker[c] = c("verif.example.com") if c is OpenStackContext else c()
        elif self.rng.random() < 0.5 and not any(
                self.h["impls"][j - 1]["k"] == "viaimpl" and self.h["impls"][j - 1]["j"] in e["seeded"]
                for j in e["seeded"]):
            # as after hydrating a serialized archive.  (Not when a seeded implementation depends directly on
            # another seeded one: that is the pruning of dr.run for this context, defect D17 -
            # an engine matter outside C05, reported in notes/C05.md.)
            broker[SerializedArchiveContext] = SerializedArchiveContext()
            arch = True
        for j in e["seeded"]:
            broker[self.impl[j]] = Val(j)
        graph = dr.get_dependency_graph(self.consumer)
        escaped = None
        try:
            dr.run(graph, broker=broker)
        except BaseException as ex:     # noqa
            escaped = type(ex).__name__

        def code(v):
            if isinstance(v, Val) and v.i in self.impl:
                return v.i
            return OTHER

        pval = code(broker[self.point]) if self.point in broker else 0
        if self.got:
            handed = code(self.got[0]) if len(self.got) == 1 else OTHER
        else:
            handed = 0
        if handed != pval:
            pval = OTHER      # the consumer was not handed what the broker holds for the point
        if escaped:
            pval = OTHER
        return {"ev": "eval", "active": e["active"], "outc": e["outc"], "houtc": e["houtc"],
                "seeded": sorted(e["seeded"]), "arch": arch, "pval": pval, "called": sorted(set(self.log)),
                "ncalls": len(self.log), "has": sorted(i for i, o in self.impl.items() if o in broker)}

    def cleanup(self):
        for o in self.created:
            dr.DELEGATES.pop(o, None)
            dr.DEPENDENCIES.pop(o, None)
            dr.DEPENDENTS.pop(o, None)
            dr.ENABLED.pop(o, None)
            dr.IGNORE.pop(o, None)
            dr.MODULE_NAMES.pop(o, None)
            dr.BASE_MODULE_NAMES.pop(o, None)
            dr.HIDDEN.discard(o)
            for g in list(dr.COMPONENTS):
                dr.COMPONENTS[g].pop(o, None)
            for t in list(dr.COMPONENTS_BY_TYPE):
                dr.COMPONENTS_BY_TYPE[t].discard(o)
        for c in CTX_POOL:
            dep = dr.DEPENDENTS.get(c)
            if dep:
                dep.difference_update(self.created)
        dr.COMPONENTS_BY_NAME.clear()


def run_history(h, rng):
    hist = History(h, rng)
    try:
        events = []
        for i, d in enumerate(h["impls"]):
            try:
                hist.register(i + 1, d)
            except Exception as ex:       # the class definition itself failed: an observation, not a driver error
                events.append({"ev": "regfail", "exc": type(ex).__name__,
                               "d": {"k": d["k"], "cs": list(d["cs"]), "j": d["j"], "lvl": d.get("lvl", 0),
                                     "f": hist.fact.get(i + 1, "fn")}})
                return {"id": h["id"], "kind": "gen", "nctx": h["nctx"], "levels": h.get("levels", 0),
                        "events": events, "plain_ctx": hist.plain_ctx}
            ignore, handlers, deps, rd = hist.project(i + 1)
            events.append({"ev": "reg", "d": {"k": d["k"], "cs": list(d["cs"]), "j": d["j"], "lvl": d.get("lvl", 0),
                                              "f": hist.fact.get(i + 1, "fn")},
                           "ignore": ignore, "handlers": handlers, "deps": deps, "rd": rd})
            if rng.random() < 0.15:
                hist.deep_noise(i + 1)
                ignore, handlers, deps, rd = hist.project(i + 1)
                events.append({"ev": "noop", "ignore": ignore, "handlers": handlers, "deps": deps, "rd": rd})
            # evaluations BETWEEN registrations (same process, same components: state carried between runs)
            for e in h.get("mid", {}).get(str(i + 1), []):
                events.append(hist.evaluate(e))
        for e in h["evals"]:
            events.append(hist.evaluate(e))
        return {"id": h["id"], "kind": "gen", "nctx": h["nctx"], "levels": h.get("levels", 0), "events": events,
                "plain_ctx": hist.plain_ctx}
    finally:
        hist.cleanup()


# ---------------------------------------------------------------------------
# shipped spec sets
# ---------------------------------------------------------------------------

def is_ctx(c):
    try:
        return issubclass(c, ExecutionContext)
    except Exception:
        return False


def shipped(modules):
    import importlib
    from insights.specs import Specs
    for m in modules:
        importlib.import_module(m)
    ctxs = set()
    for name, pt in Specs.registry.items():
        for c in dr.walk_tree(pt):
            if is_ctx(c):
                ctxs.add(c)
    ctxs = sorted(ctxs, key=lambda c: c.__name__)
    cid = dict((c, i + 1) for i, c in enumerate(ctxs))
    traces = []
    for name, pt in sorted(Specs.registry.items()):
        deps = list(dr.get_delegate(pt).deps)
        order, seen = [], {}

        def visit(c):
            if c in seen:
                return
            seen[c] = 0
            if not is_ctx(c):
                d = dr.get_delegate(c)
                if d is not None:
                    for x in d.requires:
                        visit(x)
                    for g in d.at_least_one:
                        for x in g:
                            visit(x)
            order.append(c)
            seen[c] = len(order)

        for d in deps:
            visit(d)
        nodes = []
        for c in order:
            if is_ctx(c):
                nodes.append({"t": "ctx", "c": cid[c], "req": [], "grp": [], "ign": []})
            else:
                d = dr.get_delegate(c)
                if d is None:       # something that is neither a context nor a component: never available
                    nodes.append({"t": "comp", "c": 0, "req": [], "grp": [[]], "ign": []})
                else:
                    nodes.append({"t": "comp", "c": 0, "req": [seen[x] for x in d.requires],
                                  "grp": [[seen[x] for x in g] for g in d.at_least_one],
                                  "ign": sorted(cid[i] for i in dr.IGNORE.get(c, ()) if i in cid)})
        traces.append({"id": "shipped/%s" % name, "kind": "shipped", "nctx": len(ctxs),
                       "impls": [dr.get_name(d) for d in deps],
                       "events": [{"ev": "dag", "nctx": len(ctxs), "nodes": nodes,
                                   "pimpls": [seen[d] for d in deps]}]})
    return traces, [c.__name__ for c in ctxs]


def main():
    logging.disable(logging.CRITICAL)
    with open(sys.argv[1]) as f:
        inp = json.load(f)
    rng = random.Random(inp.get("seed", 0))
    traces = []
    stats = {"evals": 0, "registrations": 0}
    for h in inp.get("histories", []):
        t = run_history(h, rng)
        stats["registrations"] += len(h["impls"])
        stats["evals"] += len(h["evals"])
        stats["with_plain_ctx"] = stats.get("with_plain_ctx", 0) + (1 if t.pop("plain_ctx") else 0)
        traces.append(t)
    if inp.get("shipped"):
        st, names = shipped(inp["shipped_modules"])
        traces.extend(st)
        stats["shipped_specs"] = len(st)
        stats["shipped_contexts"] = names
        stats["shipped_multi_impl"] = sum(1 for t in st if len(t["impls"]) > 1)
    with open(sys.argv[2], "w") as f:
        json.dump({"traces": traces, "stats": stats}, f, separators=(",", ":"))


if __name__ == "__main__":
    main()
